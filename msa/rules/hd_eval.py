"""hd_eval - evaluation of small *pure* functions of the repository on a finite abstract domain (literals, enum members by name,
literal tables), read from their syntax tree.  Used to tabulate decision functions such as the cast table `_can_be_casted` over
the 5 x 5 pairs of attribute types, or the per-type default values: the table is then compared with the specification, whatever
way the function is written (set of pairs, position in a widening chain, if-chain, dictionary ...).

Only a closed subset of expressions / statements is interpreted (no attribute of an unknown object, no import, no I/O); anything
else raises `Unknown` and the calling rule reports the obligation as undecided.  No repository code is executed."""
from __future__ import annotations
import ast
from .. import au


class Unknown(Exception):
    pass


class Raised(Exception):
    def __init__(self, exc):
        super().__init__(exc)
        self.exc = exc


class Member:
    """member of an enumeration, identified by its name"""
    def __init__(self, enum, name):
        self.enum, self.name = enum, name

    def __eq__(self, o):
        return isinstance(o, Member) and (o.enum, o.name) == (self.enum, self.name)

    def __ne__(self, o):
        return not self == o

    def __hash__(self):
        return hash((self.enum, self.name))

    def __repr__(self):
        return f"{self.enum}.{self.name}"


class Enum:
    def __init__(self, name, members, cls=None, mod=None):
        self.name, self.members, self.cls, self.mod = name, list(members), cls, mod


class NS:
    """a namespace (class used as a namespace): attribute name -> value"""
    def __init__(self, name, attrs):
        self.name, self.attrs = name, attrs


class VecV:
    def __init__(self, items):
        self.items = list(items)

    def __eq__(self, o):
        return isinstance(o, VecV) and [(type(x), x) for x in o.items] == [(type(x), x) for x in self.items]

    def __repr__(self):
        return f"Vec({self.items})"


class _Return(Exception):
    def __init__(self, v):
        self.v = v


SAFE_BUILTINS = {"int": int, "float": float, "complex": complex, "bool": bool, "str": str, "len": len, "range": range, "list": list,
                 "tuple": tuple, "set": set, "frozenset": frozenset, "dict": dict, "min": min, "max": max, "abs": abs,
                 "enumerate": enumerate, "zip": zip, "any": any, "all": all, "sorted": sorted, "sum": sum, "reversed": reversed}
import itertools as _it
SAFE_BUILTINS.update({"combinations": _it.combinations, "permutations": _it.permutations, "product": _it.product, "chain": _it.chain,
                      "accumulate": _it.accumulate, "pairwise": _it.pairwise, "islice": _it.islice})


class Func:
    """a function of the repository, evaluated on demand"""
    def __init__(self, fn):
        self.fn = fn


SAFE_METHODS = {"index", "count", "get", "keys", "values", "items", "lower", "upper", "copy", "issubset", "union"}
_BIN = {ast.Add: lambda a, b: a + b, ast.Sub: lambda a, b: a - b, ast.Mult: lambda a, b: a * b, ast.Div: lambda a, b: a / b,
        ast.FloorDiv: lambda a, b: a // b, ast.Mod: lambda a, b: a % b, ast.Pow: lambda a, b: a ** b}
_CMP = {ast.Eq: lambda a, b: a == b, ast.NotEq: lambda a, b: a != b, ast.Lt: lambda a, b: a < b, ast.LtE: lambda a, b: a <= b,
        ast.Gt: lambda a, b: a > b, ast.GtE: lambda a, b: a >= b, ast.In: lambda a, b: a in b, ast.NotIn: lambda a, b: a not in b}
PLAIN = (int, float, complex, str, bool, type(None), tuple, list, set, frozenset, dict, range)


class Ev:
    def __init__(self, globals_, methods=None, steps=20000):
        """globals_: name -> value (or callable hook name -> value / raise KeyError);  methods: name -> FunctionDef for calls
        through `self` when `self` is an enum member / the receiver"""
        self.g, self.methods, self.steps = globals_, methods or {}, steps
        self.depth = 0

    def tick(self):
        self.steps -= 1
        if self.steps < 0:
            raise Unknown("evaluation budget exhausted")

    # ---------------------------------------------------------------- functions
    def call(self, fn, args):
        """evaluate FunctionDef `fn` with parameter values `args` (missing ones take their literal default)"""
        self.depth += 1
        if self.depth > 12:
            raise Unknown("recursion too deep")
        try:
            env = {}
            a = fn.args
            params = [x.arg for x in a.posonlyargs + a.args]
            nd = len(a.defaults)
            for i, p in enumerate(params):
                if p in args:
                    env[p] = args[p]
                else:
                    j = i - (len(params) - nd)
                    if j < 0:
                        raise Unknown(f"no value for parameter {p}")
                    env[p] = self.expr(a.defaults[j], {})
            for p, d in zip(a.kwonlyargs, a.kw_defaults):
                env[p.arg] = args[p.arg] if p.arg in args else (self.expr(d, {}) if d is not None else None)
            try:
                self.block(fn.body, env)
            except _Return as r:
                return r.v
            return None
        finally:
            self.depth -= 1

    def block(self, body, env):
        for st in body:
            self.tick()
            if isinstance(st, ast.Expr):
                if not isinstance(st.value, ast.Constant):
                    self.expr(st.value, env)
            elif isinstance(st, ast.Pass):
                pass
            elif isinstance(st, (ast.Assign, ast.AnnAssign)):
                if isinstance(st, ast.AnnAssign) and st.value is None:
                    continue
                v = self.expr(st.value, env)
                for t in (st.targets if isinstance(st, ast.Assign) else [st.target]):
                    self.bind(t, v, env)
            elif isinstance(st, ast.AugAssign) and isinstance(st.target, ast.Name) and type(st.op) in _BIN:
                env[st.target.id] = self.binop(st.op, self.expr(st.target, env), self.expr(st.value, env))
            elif isinstance(st, ast.If):
                self.block(st.body if self.truth(self.expr(st.test, env)) else st.orelse, env)
            elif isinstance(st, ast.Return):
                raise _Return(self.expr(st.value, env) if st.value is not None else None)
            elif isinstance(st, ast.Raise):
                exc = st.exc.func if isinstance(st.exc, ast.Call) else st.exc
                raise Raised(au.src(exc).split(".")[-1] if exc is not None else "?")
            elif isinstance(st, ast.For) and not st.orelse:
                for x in self.iterate(self.expr(st.iter, env)):
                    self.bind(st.target, x, env)
                    try:
                        self.block(st.body, env)
                    except _Brk:
                        break
                    except _Cont:
                        continue
            elif isinstance(st, ast.Break):
                raise _Brk()
            elif isinstance(st, ast.Continue):
                raise _Cont()
            elif isinstance(st, ast.Assert):
                if not self.truth(self.expr(st.test, env)):
                    raise Raised("AssertionError")
            elif hasattr(ast, "Match") and isinstance(st, ast.Match):
                subj = self.expr(st.subject, env)
                for case in st.cases:
                    b = {}
                    if self.pattern(case.pattern, subj, env, b) and (case.guard is None or self.truth(self.expr(case.guard, {**env, **b}))):
                        env.update(b)
                        self.block(case.body, env)
                        break
            else:
                raise Unknown(f"statement {type(st).__name__}")

    def pattern(self, pat, v, env, b):
        """structural pattern matching on literal values (value / singleton / or / sequence / capture / wildcard patterns)"""
        if isinstance(pat, ast.MatchValue):
            w = self.expr(pat.value, env)
            if not isinstance(v, PLAIN + (Member,)) or not isinstance(w, PLAIN + (Member,)):
                raise Unknown("pattern on a non-literal")
            return v == w
        if isinstance(pat, ast.MatchSingleton):
            return v is pat.value
        if isinstance(pat, ast.MatchOr):
            return any(self.pattern(q, v, env, b) for q in pat.patterns)
        if isinstance(pat, ast.MatchAs):
            if pat.pattern is not None and not self.pattern(pat.pattern, v, env, b):
                return False
            if pat.name:
                b[pat.name] = v
            return True
        if isinstance(pat, ast.MatchSequence) and not any(isinstance(q, ast.MatchStar) for q in pat.patterns):
            if not isinstance(v, (tuple, list)) or len(v) != len(pat.patterns):
                return False
            return all(self.pattern(q, x, env, b) for q, x in zip(pat.patterns, v))
        raise Unknown(f"pattern {type(pat).__name__}")

    def bind(self, t, v, env):
        if isinstance(t, ast.Name):
            env[t.id] = v
        elif isinstance(t, (ast.Tuple, ast.List)) and not any(isinstance(x, ast.Starred) for x in t.elts):
            vs = list(self.iterate(v))
            if len(vs) != len(t.elts):
                raise Unknown("unpacking arity")
            for a, b in zip(t.elts, vs):
                self.bind(a, b, env)
        else:
            raise Unknown(f"target {au.src(t)}")

    def iterate(self, v):
        if isinstance(v, (tuple, list, set, frozenset, dict, range, str)) or hasattr(v, "__next__") or type(v).__name__ in \
                ("enumerate", "zip", "dict_keys", "dict_values", "dict_items", "reversed", "list_reverseiterator", "combinations", "permutations",
                 "product", "chain", "accumulate", "pairwise", "islice"):
            return v
        if isinstance(v, Enum):
            return [Member(v.name, m) for m in v.members]
        raise Unknown("iteration over a non-literal")

    def truth(self, v):
        if isinstance(v, PLAIN):
            return bool(v)
        if isinstance(v, Member):
            return True
        raise Unknown("truth value of a non-literal")

    def binop(self, op, a, b):
        if type(op) not in _BIN:
            raise Unknown(f"operator {type(op).__name__}")
        if not (isinstance(a, PLAIN) and isinstance(b, PLAIN)):
            raise Unknown("arithmetic on a non-literal")
        try:
            return _BIN[type(op)](a, b)
        except Exception as e:
            raise Unknown(f"arithmetic fails: {e}")

    # ---------------------------------------------------------------- expressions
    def name(self, nm, env):
        if nm in env:
            return env[nm]
        try:
            return self.g[nm] if not callable(self.g) else self.g(nm)
        except KeyError:
            pass
        if nm in SAFE_BUILTINS:
            return SAFE_BUILTINS[nm]
        if nm in ("True", "False", "None"):
            return {"True": True, "False": False, "None": None}[nm]
        raise Unknown(f"name {nm}")

    def expr(self, e, env):
        self.tick()
        if isinstance(e, ast.Constant):
            return e.value
        if isinstance(e, ast.Name):
            return self.name(e.id, env)
        if isinstance(e, ast.Tuple):
            return tuple(self.elts(e.elts, env))
        if isinstance(e, ast.List):
            return list(self.elts(e.elts, env))
        if isinstance(e, ast.Set):
            return set(self.elts(e.elts, env))
        if isinstance(e, ast.Dict):
            if any(k is None for k in e.keys):
                raise Unknown("dict unpacking")
            return {self.expr(k, env): self.expr(v, env) for k, v in zip(e.keys, e.values)}
        if isinstance(e, ast.UnaryOp):
            v = self.expr(e.operand, env)
            if isinstance(e.op, ast.Not):
                return not self.truth(v)
            if isinstance(v, (int, float, complex)) and isinstance(e.op, (ast.USub, ast.UAdd)):
                return -v if isinstance(e.op, ast.USub) else v
            raise Unknown(au.src(e))
        if isinstance(e, ast.BoolOp):
            v = None
            for x in e.values:
                v = self.expr(x, env)
                t = self.truth(v)
                if isinstance(e.op, ast.And) and not t or isinstance(e.op, ast.Or) and t:
                    return v
            return v
        if isinstance(e, ast.IfExp):
            return self.expr(e.body if self.truth(self.expr(e.test, env)) else e.orelse, env)
        if isinstance(e, ast.BinOp):
            return self.binop(e.op, self.expr(e.left, env), self.expr(e.right, env))
        if isinstance(e, ast.Compare):
            left = self.expr(e.left, env)
            for op, c in zip(e.ops, e.comparators):
                right = self.expr(c, env)
                if isinstance(op, (ast.Is, ast.IsNot)):
                    if right is None or left is None or isinstance(left, (bool, Member)) and isinstance(right, (bool, Member)):
                        r = (left is right) or (isinstance(left, Member) and left == right)
                        r = r if isinstance(op, ast.Is) else not r
                    else:
                        raise Unknown("identity of non-literals")
                elif type(op) in _CMP:
                    for x in (left, right):
                        if not isinstance(x, PLAIN + (Member, VecV)):
                            raise Unknown("comparison of a non-literal")
                    try:
                        r = _CMP[type(op)](left, right)
                    except Exception as ex:
                        raise Unknown(f"comparison fails: {ex}")
                else:
                    raise Unknown(au.src(e))
                if not r:
                    return False
                left = right
            return True
        if isinstance(e, ast.Attribute):
            v = self.expr(e.value, env)
            return self.attr(v, e.attr)
        if isinstance(e, ast.Subscript):
            v = self.expr(e.value, env)
            if isinstance(e.slice, ast.Slice):
                k = slice(*[None if x is None else self.expr(x, env) for x in (e.slice.lower, e.slice.upper, e.slice.step)])
            else:
                k = self.expr(e.slice, env)
            if isinstance(v, (tuple, list, dict, str)):
                try:
                    return v[k]
                except Exception as ex:
                    raise Raised(type(ex).__name__)
            raise Unknown(au.src(e))
        if isinstance(e, (ast.ListComp, ast.SetComp, ast.GeneratorExp, ast.DictComp)):
            out = []
            self.comp(e, 0, dict(env), out)
            if isinstance(e, ast.DictComp):
                return dict(out)
            return set(out) if isinstance(e, ast.SetComp) else list(out)
        if isinstance(e, ast.Call):
            return self.docall(e, env)
        if isinstance(e, ast.JoinedStr):
            return "<text>"
        raise Unknown(f"expression {type(e).__name__}")

    def elts(self, elts, env):
        out = []
        for x in elts:
            if isinstance(x, ast.Starred):
                out.extend(self.iterate(self.expr(x.value, env)))
            else:
                out.append(self.expr(x, env))
        return out

    def comp(self, e, i, env, out):
        if i == len(e.generators):
            out.append((self.expr(e.key, env), self.expr(e.value, env)) if isinstance(e, ast.DictComp) else self.expr(e.elt, env))
            return
        g = e.generators[i]
        for x in self.iterate(self.expr(g.iter, env)):
            self.tick()
            self.bind(g.target, x, env)
            if all(self.truth(self.expr(t, env)) for t in g.ifs):
                self.comp(e, i + 1, env, out)

    def attr(self, v, a):
        if isinstance(v, NS):
            if a in v.attrs:
                return v.attrs[a]
            raise Unknown(f"{v.name}.{a}")
        if isinstance(v, Enum):
            if a in v.members:
                return Member(v.name, a)
            raise Unknown(f"{v.name}.{a}")
        if isinstance(v, Member):
            if a == "name":
                return v.name
            if a == "value" and getattr(self, "member_values", None) and v.name in self.member_values:
                return self.member_values[v.name]
            fn = self.methods.get(a)
            if fn is not None and any(au.src(d) in ("property", "cached_property", "functools.cached_property") for d in fn.decorator_list):
                return self.call(fn, {au.params(fn)[0]: v})          # a property of the enumeration member
            return ("bound", v, a)
        if isinstance(v, PLAIN) and a in SAFE_METHODS and hasattr(v, a):
            return getattr(v, a)
        raise Unknown(f"attribute {a}")

    def docall(self, e, env):
        if any(isinstance(a, ast.Starred) for a in e.args) or any(k.arg is None for k in e.keywords):
            raise Unknown("star arguments")
        f = self.expr(e.func, env)
        args = [self.expr(a, env) for a in e.args]
        kw = {k.arg: self.expr(k.value, env) for k in e.keywords}
        if isinstance(f, tuple) and len(f) == 3 and f[0] == "bound":
            _, recv, mname = f
            fn = self.methods.get(mname)
            if fn is None:
                raise Unknown(f"method {mname}")
            ps = au.params(fn)
            vals = dict(zip(ps, [recv] + args))
            vals.update(kw)
            return self.call(fn, vals)
        if isinstance(f, Func):
            ps = au.params(f.fn)
            vals = dict(zip(ps, args))
            vals.update(kw)
            return self.call(f.fn, vals)
        if isinstance(f, Enum):                      # Enum(value) - lookup by value is not modelled
            raise Unknown("enum lookup by value")
        if f is VecV:
            if len(args) == 1:
                return VecV(self.iterate(args[0]))
            return VecV(args)
        if callable(f) and (f in SAFE_BUILTINS.values() or getattr(f, "__self__", None) is not None and isinstance(f.__self__, PLAIN)
                            and f.__name__ in SAFE_METHODS):
            try:
                return f(*args, **kw)
            except Exception as ex:
                raise Raised(type(ex).__name__)
        raise Unknown(f"call of {au.src(e.func)}")


# numpy's `safe` casting between the python scalar types of the attributes and fixed-width unicode (numpy.can_cast documentation):
# bool -> int -> float -> complex never lose information; bool / int64 / float64 fit in 32 characters, complex128 needs 64
_RANK = {bool: 0, int: 1, float: 2, complex: 3}


def _np_can_cast(a, b, casting="safe"):
    if casting != "safe":
        raise Unknown(f"np.can_cast(casting={casting!r})")

    def kind(x):
        if x in _RANK:
            return x
        if x is str or (isinstance(x, str) and x.lstrip("<>=|").startswith("U")):
            return "U"
        raise Unknown(f"np.can_cast on {x!r}")
    ka, kb = kind(a), kind(b)
    if ka == "U":
        return kb == "U"
    if kb == "U":
        return ka is not complex
    return _RANK[ka] <= _RANK[kb]


NUMPY = NS("np", {"can_cast": _np_can_cast, "bool_": bool, "float64": float, "int64": int, "complex128": complex})
SAFE_BUILTINS["__np_can_cast__"] = _np_can_cast


class _Brk(Exception):
    pass


class _Cont(Exception):
    pass
