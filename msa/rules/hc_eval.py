"""C04 helper: evaluation of a small extracted fragment (a few statements: loops over ranges, list slices, comparisons) over abstract
values - small integers, lists of opaque tokens, recorder objects.  Used to compute *which* input positions end up *where*
(index sets of a loader loop, the class chosen for a dimension) independently of how the loops are spelt.  No repository code is
imported or executed: the fragment is an AST walked by this evaluator; anything outside the modelled subset raises `Unknown`
and the calling rule answers `undecided`."""
from __future__ import annotations
import ast
from .. import au


class Unknown(Exception):
    pass


class Tok:
    """an opaque value (a token of the file)"""

    def __init__(self, name):
        self.name = name

    def __repr__(self):
        return self.name

    def __eq__(self, o):
        return isinstance(o, Tok) and o.name == self.name

    def __ne__(self, o):
        return not self.__eq__(o)

    def __hash__(self):
        return hash(self.name)


class Obj:
    """a record with attributes; unknown attributes raise Unknown"""

    def __init__(self, **kw):
        self.__dict__["_f"] = dict(kw)

    def get(self, name):
        if name not in self._f:
            raise Unknown(f"attribute {name}")
        return self._f[name]

    def set(self, name, v):
        self._f[name] = v


class Recorder:
    """`attr[i] = v` is recorded"""

    def __init__(self, **kw):
        self.stores = []
        self.fields = dict(kw)


class Arr:
    """numpy-like wrapper of a list: element-wise comparison with a scalar, any / all"""

    def __init__(self, items):
        self.items = list(items)


class Sym:
    """symbolic callable / constant named by its source"""

    def __init__(self, name):
        self.name = name

    def __eq__(self, o):
        return isinstance(o, Sym) and o.name == self.name

    def __hash__(self):
        return hash(("sym", self.name))

    def __repr__(self):
        return f"<{self.name}>"


class Inst:
    def __init__(self, cls, args):
        self.cls, self.args = cls, args

    def __repr__(self):
        return f"{self.cls}(..)"


class _Return(Exception):
    def __init__(self, v):
        self.v = v


class _Break(Exception):
    pass


class _Continue(Exception):
    pass


class Raised(Exception):
    pass


class Evaluator:
    def __init__(self, env, symbols=(), max_steps=20000):
        self.env = dict(env)
        self.symbols = set(symbols)      # free names evaluated to Sym(name) (classes, enum roots)
        self.steps = 0
        self.max_steps = max_steps

    # ------------------------------------------------------------------ statements
    def run(self, body):
        """returns the returned value, or None when the body falls off its end"""
        try:
            self.block(body)
        except _Return as r:
            return r.v
        return None

    def block(self, body):
        for st in body:
            self.stmt(st)

    def tick(self):
        self.steps += 1
        if self.steps > self.max_steps:
            raise Unknown("too many steps")

    def stmt(self, st):
        self.tick()
        if isinstance(st, ast.Expr):
            if isinstance(st.value, ast.Constant):
                return
            if isinstance(st.value, ast.Call) and (au.chain(st.value.func) or ["?"])[0] in ("logger", "logging", "warnings", "print"):
                return
            self.ev(st.value)
            return
        if isinstance(st, ast.Pass):
            return
        if isinstance(st, ast.Return):
            raise _Return(None if st.value is None else self.ev(st.value))
        if isinstance(st, ast.Raise):
            raise Raised(au.src(st))
        if isinstance(st, ast.Assert):
            if not self.truth(self.ev(st.test)):
                raise Raised("assert")
            return
        if isinstance(st, ast.Break):
            raise _Break()
        if isinstance(st, ast.Continue):
            raise _Continue()
        if isinstance(st, ast.If):
            self.block(st.body if self.truth(self.ev(st.test)) else st.orelse)
            return
        if isinstance(st, (ast.Assign, ast.AnnAssign)):
            if isinstance(st, ast.AnnAssign) and st.value is None:
                return
            v = self.ev(st.value)
            for t in (st.targets if isinstance(st, ast.Assign) else [st.target]):
                self.assign(t, v)
            return
        if isinstance(st, ast.AugAssign):
            cur = self.ev(_load(st.target))
            v = self.ev(st.value)
            if isinstance(cur, list) and isinstance(st.op, ast.Add):
                if not isinstance(v, (list, tuple)):
                    raise Unknown("list += non list")
                cur.extend(v)
                return
            self.assign(st.target, self.binop(st.op, cur, v))
            return
        if isinstance(st, ast.For):
            it = self.ev(st.iter)
            if isinstance(it, Arr):
                it = it.items
            if not isinstance(it, (list, tuple, range, dict)):
                raise Unknown("iteration over " + au.src(st.iter))
            broke = False
            for x in list(it):
                self.tick()
                self.assign(st.target, x)
                try:
                    self.block(st.body)
                except _Continue:
                    continue
                except _Break:
                    broke = True
                    break
            if not broke:
                self.block(st.orelse)
            return
        if isinstance(st, ast.While):
            n = 0
            while self.truth(self.ev(st.test)):
                n += 1
                if n > 200:
                    raise Unknown("while loop")
                try:
                    self.block(st.body)
                except _Continue:
                    continue
                except _Break:
                    break
            return
        raise Unknown(type(st).__name__)

    def assign(self, t, v):
        if isinstance(t, ast.Name):
            self.env[t.id] = v
        elif isinstance(t, (ast.Tuple, ast.List)):
            vs = list(v.items if isinstance(v, Arr) else v) if isinstance(v, (list, tuple, Arr)) else None
            if vs is None or len(vs) != len(t.elts) or any(isinstance(x, ast.Starred) for x in t.elts):
                raise Unknown("unpacking")
            for a, b in zip(t.elts, vs):
                self.assign(a, b)
        elif isinstance(t, ast.Subscript):
            base = self.ev(t.value)
            k = self.ev(t.slice) if not isinstance(t.slice, ast.Slice) else None
            if isinstance(base, Recorder):
                base.stores.append((k, v))
            elif isinstance(base, (list, dict)) and k is not None:
                try:
                    base[k] = v
                except (IndexError, KeyError, TypeError):
                    raise Raised("index")
            else:
                raise Unknown("subscript store")
        elif isinstance(t, ast.Attribute):
            base = self.ev(t.value)
            if isinstance(base, Obj):
                base.set(t.attr, v)
            else:
                raise Unknown("attribute store")
        else:
            raise Unknown("assignment target")

    # ------------------------------------------------------------------ expressions
    @staticmethod
    def truth(v):
        if isinstance(v, (Tok, Sym, Obj, Inst, Recorder)):
            return True
        if isinstance(v, Arr):
            raise Unknown("truth value of an array")
        return bool(v)

    def ev(self, e):
        self.tick()
        if isinstance(e, ast.Constant):
            return e.value
        if isinstance(e, ast.Name):
            if e.id in self.env:
                return self.env[e.id]
            if e.id in ("None", "True", "False"):
                return {"None": None, "True": True, "False": False}[e.id]
            if e.id in self.symbols:
                return Sym(e.id)
            raise Unknown("name " + e.id)
        if isinstance(e, ast.Attribute):
            ch = au.chain(e)
            if ch and ch[0] not in self.env and ch[0] in self.symbols:
                return Sym(".".join(ch))
            base = self.ev(e.value)
            if isinstance(base, Obj):
                return base.get(e.attr)
            if isinstance(base, Recorder):
                if e.attr in base.fields:
                    return base.fields[e.attr]
                raise Unknown("attribute " + e.attr)
            if isinstance(base, Sym):
                return Sym(base.name + "." + e.attr)
            raise Unknown("attribute " + au.src(e))
        if isinstance(e, (ast.List, ast.Tuple, ast.Set)):
            vals = []
            for x in e.elts:
                if isinstance(x, ast.Starred):
                    v = self.ev(x.value)
                    if not isinstance(v, (list, tuple, range)):
                        raise Unknown("starred")
                    vals += list(v)
                else:
                    vals.append(self.ev(x))
            return vals if isinstance(e, ast.List) else (tuple(vals) if isinstance(e, ast.Tuple) else set(vals))
        if isinstance(e, ast.Dict):
            return {self.ev(k): self.ev(v) for k, v in zip(e.keys, e.values)}
        if isinstance(e, ast.UnaryOp):
            v = self.ev(e.operand)
            if isinstance(e.op, ast.Not):
                return not self.truth(v)
            if isinstance(e.op, ast.USub) and isinstance(v, (int, float)):
                return -v
            raise Unknown(au.src(e))
        if isinstance(e, ast.BoolOp):
            v = None
            for x in e.values:
                v = self.ev(x)
                if isinstance(e.op, ast.And) and not self.truth(v):
                    return v
                if isinstance(e.op, ast.Or) and self.truth(v):
                    return v
            return v
        if isinstance(e, ast.IfExp):
            return self.ev(e.body if self.truth(self.ev(e.test)) else e.orelse)
        if isinstance(e, ast.Compare):
            left = self.ev(e.left)
            res = True
            for op, c in zip(e.ops, e.comparators):
                right = self.ev(c)
                r = self.compare(op, left, right)
                if isinstance(r, Arr):
                    if len(e.ops) != 1:
                        raise Unknown("chained array comparison")
                    return r
                if not r:
                    return False
                left = right
            return res
        if isinstance(e, ast.BinOp):
            return self.binop(e.op, self.ev(e.left), self.ev(e.right))
        if isinstance(e, ast.Subscript):
            base = self.ev(e.value)
            if isinstance(base, Arr):
                base = base.items
            if isinstance(e.slice, ast.Slice):
                lo = None if e.slice.lower is None else self.ev(e.slice.lower)
                hi = None if e.slice.upper is None else self.ev(e.slice.upper)
                stp = None if e.slice.step is None else self.ev(e.slice.step)
                if isinstance(base, (list, tuple, str)) and all(x is None or isinstance(x, int) for x in (lo, hi, stp)):
                    return base[lo:hi:stp]
                raise Unknown("slice")
            k = self.ev(e.slice)
            if isinstance(base, Recorder):
                raise Unknown("read of the recorded object")
            if isinstance(base, (list, tuple, dict, str)):
                try:
                    return base[k]
                except (IndexError, KeyError, TypeError):
                    raise Raised(f"no entry {k!r}")
            raise Unknown("subscript of " + au.src(e.value))
        if isinstance(e, (ast.ListComp, ast.GeneratorExp, ast.SetComp)):
            out = []
            self.comp(e, 0, out)
            return out if not isinstance(e, ast.SetComp) else set(out)
        if isinstance(e, ast.Call):
            return self.call(e)
        if isinstance(e, ast.JoinedStr):
            out = ""
            for v in e.values:
                if isinstance(v, ast.Constant):
                    out += str(v.value)
                else:
                    x = self.ev(v.value)
                    if not isinstance(x, (str, int)):
                        raise Unknown("f-string")
                    out += str(x)
            return out
        raise Unknown(type(e).__name__)

    def comp(self, e, k, out):
        if k == len(e.generators):
            out.append(self.ev(e.elt))
            return
        g = e.generators[k]
        it = self.ev(g.iter)
        if isinstance(it, Arr):
            it = it.items
        if not isinstance(it, (list, tuple, range, dict)):
            raise Unknown("comprehension over " + au.src(g.iter))
        for x in list(it):
            self.tick()
            self.assign(g.target, x)
            if all(self.truth(self.ev(c)) for c in g.ifs):
                self.comp(e, k + 1, out)

    def compare(self, op, a, b):
        if isinstance(a, Arr) or isinstance(b, Arr):
            xs = a.items if isinstance(a, Arr) else None
            ys = b.items if isinstance(b, Arr) else None
            n = len(xs if xs is not None else ys)
            if xs is not None and ys is not None and len(xs) != len(ys):
                raise Unknown("array shapes")
            pairs = [((xs[i] if xs is not None else a), (ys[i] if ys is not None else b)) for i in range(n)]
            return Arr([self.compare(op, p, q) for p, q in pairs])
        if isinstance(op, ast.Eq):
            return a == b
        if isinstance(op, ast.NotEq):
            return a != b
        if isinstance(op, (ast.Is, ast.IsNot)):
            same = a is b or (isinstance(a, (Sym, Tok)) and a == b) or (a is None and b is None)
            return same if isinstance(op, ast.Is) else not same
        if isinstance(op, (ast.In, ast.NotIn)):
            if not isinstance(b, (list, tuple, set, dict, str)):
                raise Unknown("membership")
            r = a in b
            return r if isinstance(op, ast.In) else not r
        if isinstance(a, (int, float)) and isinstance(b, (int, float)) and not isinstance(a, bool) and not isinstance(b, bool):
            return {ast.Lt: a < b, ast.LtE: a <= b, ast.Gt: a > b, ast.GtE: a >= b}[type(op)]
        raise Unknown("ordering of abstract values")

    def binop(self, op, a, b):
        num = lambda x: isinstance(x, (int, float)) and not isinstance(x, bool)
        if num(a) and num(b):
            try:
                if isinstance(op, ast.Add): return a + b
                if isinstance(op, ast.Sub): return a - b
                if isinstance(op, ast.Mult): return a * b
                if isinstance(op, ast.FloorDiv): return a // b
                if isinstance(op, ast.Mod): return a % b
                if isinstance(op, ast.Div): return a / b
            except ZeroDivisionError:
                raise Raised("division by zero")
        if isinstance(op, ast.Add) and isinstance(a, list) and isinstance(b, list):
            return a + b
        if isinstance(op, ast.Add) and isinstance(a, tuple) and isinstance(b, tuple):
            return a + b
        if isinstance(op, ast.Add) and isinstance(a, str) and isinstance(b, str):
            return a + b
        if isinstance(op, ast.Mult) and isinstance(a, list) and isinstance(b, int):
            return a * b
        if isinstance(op, ast.Mult) and isinstance(b, list) and isinstance(a, int):
            return b * a
        raise Unknown("operator on abstract values")

    def call(self, e):
        f = e.func
        if any(isinstance(a, ast.Starred) for a in e.args):
            raise Unknown("starred call")
        args = [self.ev(a) for a in e.args]
        kw = {k.arg: self.ev(k.value) for k in e.keywords if k.arg}
        if isinstance(f, ast.Name) and f.id not in self.env:
            n = f.id
            if n == "range" and all(isinstance(a, int) and not isinstance(a, bool) for a in args) and 1 <= len(args) <= 3:
                return range(*args)
            if n == "len" and len(args) == 1:
                a = args[0]
                if isinstance(a, Arr):
                    return len(a.items)
                if isinstance(a, (list, tuple, dict, str, set, range)):
                    return len(a)
                raise Unknown("len")
            if n in ("list", "tuple") and len(args) <= 1:
                if not args:
                    return [] if n == "list" else ()
                a = args[0].items if isinstance(args[0], Arr) else args[0]
                if isinstance(a, (list, tuple, range, set, dict)):
                    return list(a) if n == "list" else tuple(a)
                raise Unknown(n)
            if n in ("max", "min"):
                vals = list(args[0]) if len(args) == 1 and isinstance(args[0], (list, tuple)) else args
                if vals and all(isinstance(v, (int, float)) and not isinstance(v, bool) for v in vals):
                    return max(vals) if n == "max" else min(vals)
                raise Raised(f"{n} of non numbers")
            if n in ("any", "all") and len(args) == 1:
                a = args[0].items if isinstance(args[0], Arr) else args[0]
                if isinstance(a, (list, tuple)):
                    vals = [self.truth(x) for x in a]
                    return any(vals) if n == "any" else all(vals)
                raise Unknown(n)
            if n == "enumerate" and len(args) >= 1 and isinstance(args[0], (list, tuple, range)):
                start = args[1] if len(args) > 1 else kw.get("start", 0)
                return [(i + start, x) for i, x in enumerate(args[0])]
            if n == "zip" and all(isinstance(a, (list, tuple, range)) for a in args):
                return [tuple(t) for t in zip(*args)]
            if n == "isinstance":
                raise Unknown("isinstance")
            if n == "int" and len(args) == 1 and isinstance(args[0], (int, bool)):
                return int(args[0])
            if n == "sum" and len(args) == 1 and isinstance(args[0], (list, tuple)) and all(isinstance(v, int) for v in args[0]):
                return sum(args[0])
            if n in self.symbols:
                return Inst(n, args)
            raise Unknown("call of " + n)
        if isinstance(f, ast.Name):
            fv = self.env[f.id]
            if isinstance(fv, Sym):
                return Inst(fv.name, args)
            raise Unknown("call of a local value")
        if isinstance(f, ast.Attribute):
            ch = au.chain(f)
            if ch and ch[0] in ("np", "numpy") and ch[-1] in ("asarray", "array") and len(args) >= 1:
                a = args[0]
                if isinstance(a, Arr):
                    return a
                if isinstance(a, (list, tuple)):
                    return Arr(a)
                raise Unknown("array of a scalar")
            if ch and ch[0] in ("np", "numpy") and ch[-1] in ("any", "all") and len(args) == 1 and isinstance(args[0], Arr):
                vals = [self.truth(x) for x in args[0].items]
                return any(vals) if ch[-1] == "any" else all(vals)
            recv = self.ev(f.value)
            m = f.attr
            if isinstance(recv, Arr) and m in ("any", "all") and not args:
                vals = [self.truth(x) for x in recv.items]
                return any(vals) if m == "any" else all(vals)
            if isinstance(recv, Arr) and m == "tolist":
                return list(recv.items)
            if isinstance(recv, list):
                if m == "append" and len(args) == 1:
                    recv.append(args[0])
                    return None
                if m == "extend" and len(args) == 1 and isinstance(args[0], (list, tuple, range)):
                    recv.extend(args[0])
                    return None
                if m == "copy" and not args:
                    return list(recv)
                raise Unknown("list method " + m)
            if isinstance(recv, dict):
                if m == "get" and 1 <= len(args) <= 2:
                    try:
                        return recv.get(*args)
                    except TypeError:
                        raise Unknown("unhashable key")
                if m in ("keys", "values", "items") and not args:
                    return list(getattr(recv, m)())
                raise Unknown("dict method " + m)
            if isinstance(recv, Obj):
                v = recv.get(m)
                if callable(v):
                    return v(*args)
                raise Unknown("method " + m)
            if isinstance(recv, Sym):
                return Inst(recv.name + "." + m, args)
            raise Unknown("method call " + au.src(f))
        fv = self.ev(f)
        if isinstance(fv, Sym):
            return Inst(fv.name, args)
        raise Unknown("call")


def _load(t):
    import copy
    n = copy.copy(t)
    n.ctx = ast.Load()
    return n
