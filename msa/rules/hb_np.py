"""A very small model of numpy arrays for the evaluation of mesh.from_arrays (msa/rules/hb_eval.py): nested python lists of
numbers / symbols with a shape, the handful of numpy functions a validation routine uses.  Anything else is `Unknown`."""
from __future__ import annotations
import ast
from . import hb_eval as E
from .hb_eval import Model, Unknown, Native, SList, Raised


class Arr(Model):
    is_array = True

    def __init__(self, data):
        self.data = data                      # list (1-D) or list of lists (2-D) or scalar wrapped as 0-D: [x] with ndim 0 not modelled

    @property
    def ndim(self):
        n, d = 1, self.data
        while d and isinstance(d[0], list):
            n, d = n + 1, d[0]
        return n

    def shape(self):
        out, d = [], self.data
        while isinstance(d, list):
            out.append(len(d))
            d = d[0] if d else None
        return tuple(out)

    def flat(self):
        def rec(d):
            for x in d:
                if isinstance(x, list):
                    yield from rec(x)
                else:
                    yield x
        return list(rec(self.data))

    @staticmethod
    def build(flat, shape):
        """nested lists of the given shape from a flat list"""
        if len(shape) == 1:
            return list(flat)
        step = 1
        for n in shape[1:]:
            step *= n
        return [Arr.build(flat[i * step:(i + 1) * step], shape[1:]) for i in range(shape[0])]

    def reshape(self, ev, shape):
        shape = [ev.index_int(x) for x in shape]
        f = self.flat()
        if not all(isinstance(x, int) for x in shape):
            raise Unknown("reshape to a symbolic shape")
        if shape.count(-1) == 1:
            known = 1
            for x in shape:
                if x != -1:
                    known *= x
            if known == 0 or len(f) % known:
                raise Raised("ValueError: cannot reshape array")
            shape[shape.index(-1)] = len(f) // known
        tot = 1
        for x in shape:
            tot *= x
        if tot != len(f):
            raise Raised("ValueError: cannot reshape array")
        return Arr(Arr.build(f, shape))

    def __repr__(self):
        return "array(%r)" % (self.data,)

    # ---- protocol
    def hb_getattr(self, ev, name):
        if name in ("max", "min", "any", "all", "sum"):
            def red_m(ev_, a, k, _n=name):
                ax = k.get("axis", a[0] if a else None)
                if ax is None:
                    return reduce_(ev_, _n, self)
                if self.ndim != 2 or ax not in (0, 1, -1):
                    raise Unknown("reduction along an axis")
                groups = self.data if ax in (1, -1) else [list(c) for c in zip(*self.data)]
                return Arr([reduce_(ev_, _n, Arr(list(g))) for g in groups])
            return Native(name, red_m)
        if name == "sort":
            def sort_m(ev_, a, k):
                r = _sort(ev_, self, k.get("axis", a[0] if a else -1))
                self.data = r.data
            return Native("sort", sort_m)
        if name == "repeat":
            return Native("repeat", lambda ev_, a, k: ev_.hooks[("ext", "numpy.repeat")](ev_, [self] + list(a), k))
        if name == "cumsum":
            return Native("cumsum", lambda ev_, a, k: ev_.hooks[("ext", "numpy.cumsum")](ev_, [self], k))
        if name == "reshape":
            return Native("reshape", lambda ev_, a, k: self.reshape(ev_, a[0] if len(a) == 1 and isinstance(a[0], (tuple, list)) else a))
        if name == "shape":
            return self.shape()
        if name == "ndim":
            return self.ndim
        if name == "size":
            return len(self.flat())
        if name == "T" and self.ndim == 2:
            return Arr([list(c) for c in zip(*self.data)])
        if name in ("tolist",):
            return Native(name, lambda ev_, a, k: SList(items=[SList(items=r) for r in self.data]) if self.ndim == 2 else SList(items=self.data))
        if name in ("copy", "astype", "view", "squeeze"):
            return Native(name, lambda ev_, a, k: Arr([list(r) for r in self.data] if self.ndim == 2 else list(self.data)))
        if name in ("flatten", "ravel"):
            return Native(name, lambda ev_, a, k: Arr(self.flat()))
        raise Unknown("array attribute `%s`" % name)

    def hb_len(self, ev):
        return len(self.data)

    def hb_iter(self, ev):
        return [Arr(list(r)) for r in self.data] if self.ndim == 2 else list(self.data)

    def hb_getitem(self, ev, k):
        if isinstance(k, Arr) or (isinstance(k, list) and not isinstance(k, tuple)):
            idx = k.data if isinstance(k, Arr) else list(k)
            if idx and all(isinstance(x, bool) for x in idx):
                if len(idx) != len(self.data):
                    raise Raised("IndexError: boolean index did not match")
                return Arr([(list(r) if isinstance(r, list) else r) for r, keep in zip(self.data, idx) if keep])
            ii = [ev.index_int(x) for x in idx]
            if not all(isinstance(x, int) for x in ii):
                raise Unknown("fancy indexing with symbolic indices")
            return Arr([(list(self.data[i]) if isinstance(self.data[i], list) else self.data[i]) for i in ii])
        if isinstance(k, tuple) and len(k) == 2 and self.ndim == 2:
            r, c = k
            rows = self.data[r] if isinstance(r, slice) else [self.data[ev.index_int(r)]]
            out = [row[c] if isinstance(c, slice) else row[ev.index_int(c)] for row in rows]
            if isinstance(r, slice):
                return Arr(out)
            return Arr(out[0]) if isinstance(c, slice) else out[0]
        if isinstance(k, slice):
            return Arr(self.data[k])
        k = ev.index_int(k)
        if not isinstance(k, int):
            raise Unknown("symbolic index into an array")
        try:
            v = self.data[k]
        except IndexError:
            raise Raised("IndexError")
        return Arr(list(v)) if isinstance(v, list) else v

    def hb_truth(self, ev):
        f = self.flat()
        if len(f) == 1:
            return ev.truth(f[0])
        raise Raised("ValueError: the truth value of an array with more than one element is ambiguous")

    def _map(self, fn):
        def rec(d):
            return [rec(x) if isinstance(x, list) else fn(x) for x in d]
        return Arr(rec(self.data))

    def _zip(self, other, fn):
        if isinstance(other, Arr):
            if other.shape() != self.shape():
                raise Unknown("broadcasting of arrays of different shapes")

            def rec(d, e):
                return [rec(x, y) if isinstance(x, list) else fn(x, y) for x, y in zip(d, e)]
            return Arr(rec(self.data, other.data))
        return self._map(lambda x: fn(x, other))

    def hb_compare(self, ev, op, other, reflected):
        if reflected:
            return self._zip(other, lambda x, y: ev.compare(op, y, x))
        return self._zip(other, lambda x, y: ev.compare(op, x, y))

    def hb_arith(self, ev, op, other, reflected):
        if isinstance(op, (ast.BitAnd, ast.BitOr)):
            fn = (lambda x, y: bool(x) and bool(y)) if isinstance(op, ast.BitAnd) else (lambda x, y: bool(x) or bool(y))
            return self._zip(other, fn)
        if reflected:
            return self._zip(other, lambda x, y: ev.arith(op, y, x))
        return self._zip(other, lambda x, y: ev.arith(op, x, y))


def reduce_(ev, name, a, axis=None):
    if not isinstance(a, Arr):
        a = to_arr(ev, a)
    f = a.flat()
    if name == "any":
        return any(ev.truth(x) for x in f)
    if name == "all":
        return all(ev.truth(x) for x in f)
    if name == "sum":
        return E.BUILTINS["sum"](ev, [f], {})
    if not f:
        raise Raised("ValueError: zero-size array to reduction operation")
    return E.BUILTINS[name](ev, [f], {})


def _sort(ev, arr, axis=-1):
    srt = lambda xs: E.BUILTINS["sorted"](ev, [xs], {})
    if arr.ndim == 1:
        return Arr(list(srt(arr.data)))
    if axis in (arr.ndim - 1, -1):
        def rec(d):
            return [rec(x) for x in d] if d and isinstance(d[0], list) else list(srt(d))
        return Arr(rec(arr.data))
    if arr.ndim != 2:
        raise Unknown("np.sort axis")
    if axis == 0:
        cols = [list(srt(list(c))) for c in zip(*arr.data)]
        return Arr([list(r) for r in zip(*cols)])
    raise Unknown("np.sort axis")


def _unique(ev, a, k):
    arr = to_arr(ev, a[0])
    if any(k.get(x) for x in ("return_inverse", "return_counts")):
        raise Unknown("np.unique with extra outputs")
    ax = k.get("axis")
    if arr.ndim == 2 and ax == 0:
        rows, first = [], []
        for i, r in enumerate(arr.data):
            if not any(ev.equal(tuple(r), tuple(q)) for q in rows):
                rows.append(list(r))
                first.append(i)
        order = E.BUILTINS["sorted"](ev, [list(range(len(rows)))], {"key": Native("key", lambda ev_, b, kk: tuple(rows[b[0]]))})
        u = Arr([list(rows[i]) for i in order])
        return (u, Arr([first[i] for i in order])) if k.get("return_index") else u
    if k.get("return_index"):
        raise Unknown("np.unique(return_index) on a flat array")
    if ax is not None and arr.ndim == 2:
        raise Unknown("np.unique axis")
    vals = []
    for x in arr.flat():
        if not any(ev.equal(x, y) for y in vals):
            vals.append(x)
    return Arr(list(E.BUILTINS["sorted"](ev, [vals], {})))


def to_arr(ev, v):
    if isinstance(v, Arr):
        return v
    if isinstance(v, (list, tuple)):
        items = [to_arr(ev, x).data if isinstance(x, (list, tuple, Arr)) else x for x in v]
        return Arr(items)
    raise Unknown("array of %r" % (v,))


def hooks():
    def asarray(ev, a, k):
        return to_arr(ev, a[0])

    def pad(ev, a, k):
        arr, widths = to_arr(ev, a[0]), a[1]
        mode = a[2] if len(a) > 2 else k.get("mode", "constant")
        if mode != "constant" or arr.ndim != 2:
            raise Unknown("np.pad mode / rank")
        fill = k.get("constant_values", 0)
        try:
            (r0, r1), (c0, c1) = [tuple(ev.index_int(x) for x in w) for w in widths]
        except Exception:
            raise Unknown("np.pad widths")
        if min(r0, r1, c0, c1) < 0:
            raise Raised("ValueError: index can't contain negative values")
        ncols = arr.shape()[1] + c0 + c1
        rows = [[fill] * ncols for _ in range(r0)] + [[fill] * c0 + list(r) + [fill] * c1 for r in arr.data] + [[fill] * ncols for _ in range(r1)]
        return Arr(rows)

    def zeros(ev, a, k):
        shp = a[0]
        if isinstance(shp, int):
            return Arr([0] * shp)
        n, m = [ev.index_int(x) for x in shp]
        return Arr([[0] * m for _ in range(n)])

    def hstack(ev, a, k):
        parts = [to_arr(ev, x) for x in a[0]]
        if any(p.ndim != 2 for p in parts) or len({len(p.data) for p in parts}) != 1:
            raise Unknown("hstack")
        return Arr([sum((list(p.data[i]) for p in parts), []) for i in range(len(parts[0].data))])

    def roll(ev, a, k):
        arr = to_arr(ev, a[0])
        sh = ev.index_int(a[1] if len(a) > 1 else k.get("shift"))
        ax = k.get("axis", a[2] if len(a) > 2 else None)
        if not isinstance(sh, int):
            raise Unknown("np.roll by a symbolic shift")
        rot = lambda xs: (xs[-sh % len(xs):] + xs[:-sh % len(xs)]) if xs else xs
        if ax is None:
            return Arr(Arr.build(rot(arr.flat()), list(arr.shape())))
        ax = ax % arr.ndim

        def rec(d, depth):
            if depth == ax:
                return rot(list(d))
            return [rec(x, depth + 1) for x in d]
        return Arr(rec(arr.data, 0))

    def stack(ev, a, k):
        parts = [to_arr(ev, x) for x in ev.iterate(a[0])]
        if not parts or any(p_.shape() != parts[0].shape() for p_ in parts):
            raise Unknown("np.stack of arrays of different shapes")
        nd = parts[0].ndim
        ax = k.get("axis", a[1] if len(a) > 1 else 0)
        ax = ax % (nd + 1)

        def rec(ds, depth):
            if depth == ax:
                return [(list(d) if isinstance(d, list) else d) for d in ds]
            return [rec([d[i] for d in ds], depth + 1) for i in range(len(ds[0]))]
        return Arr(rec([p_.data for p_ in parts], 0))

    def ndim_(ev, a, k):
        v = a[0]
        if isinstance(v, Arr):
            return v.ndim
        if isinstance(v, (list, tuple)):
            return to_arr(ev, v).ndim if len(v) else 1
        if isinstance(v, (int, float)) or E.is_num(v):
            return 0
        raise Unknown("np.ndim of %r" % (v,))

    def arange(ev, a, k):
        xs = [ev.index_int(x) for x in a]
        if not all(isinstance(x, int) for x in xs):
            raise Unknown("np.arange over a symbolic bound")
        return Arr(list(range(*xs)))

    def repeat(ev, a, k):
        arr = to_arr(ev, a[0]) if not isinstance(a[0], (int, E.Sym, E.Poly)) else Arr([a[0]])
        reps = a[1] if len(a) > 1 else k.get("repeats")
        if arr.ndim != 1 or k.get("axis") not in (None, 0):
            raise Unknown("np.repeat on a matrix")
        if isinstance(reps, (list, tuple, Arr)):
            rs = [ev.index_int(x) for x in (reps.data if isinstance(reps, Arr) else reps)]
        else:
            rs = [ev.index_int(reps)] * len(arr.data)
        if not all(isinstance(x, int) for x in rs) or len(rs) != len(arr.data):
            raise Unknown("np.repeat counts")
        return Arr([x for x, n in zip(arr.data, rs) for _ in range(n)])

    def concat0(ev, a, k):
        ax = k.get("axis", a[1] if len(a) > 1 else 0)
        parts = [to_arr(ev, x) for x in ev.iterate(a[0])]
        if ax == 1:
            return hstack(ev, a, k)
        out = []
        for p_ in parts:
            out.extend(p_.data)
        return Arr(out)

    def concat0_stack(ev, a, k):
        parts = [to_arr(ev, x) for x in ev.iterate(a[0])]
        ax = k.get("axis", a[1] if len(a) > 1 else 0)
        if any(p_.ndim != 1 for p_ in parts):
            raise Unknown("np.stack of matrices")
        rows = [list(p_.data) for p_ in parts]
        return Arr(rows) if ax == 0 else Arr([list(c) for c in zip(*rows)])

    def cumsum(ev, a, k):
        arr = to_arr(ev, a[0])
        if arr.ndim != 1:
            raise Unknown("cumsum of a matrix")
        out, acc = [], 0
        for x in arr.data:
            acc = ev.arith(ast.Add(), acc, x)
            out.append(acc)
        return Arr(out)

    def full(ev, a, k):
        shp = a[0]
        v = a[1] if len(a) > 1 else k.get("fill_value")
        if isinstance(shp, int):
            return Arr([v] * shp)
        n, m = [ev.index_int(x) for x in shp]
        return Arr([[v] * m for _ in range(n)])

    def bincount(ev, a, k):
        arr = to_arr(ev, a[0])
        xs = [ev.index_int(x) for x in arr.flat()]
        if not all(isinstance(x, int) and x >= 0 for x in xs) or "weights" in k or len(a) > 1 and a[1] is not None:
            raise Unknown("np.bincount on symbolic / weighted values")
        n = max([x + 1 for x in xs] + [ev.index_int(k.get("minlength", a[2] if len(a) > 2 else 0))])
        out = [0] * n
        for x in xs:
            out[x] += 1
        return Arr(out)

    def red(name):
        def f(ev, a, k):
            arr = to_arr(ev, a[0]) if not isinstance(a[0], Arr) else a[0]
            return ev.call(arr.hb_getattr(ev, name), list(a[1:]), k)
        return f

    def where(ev, a, k):
        if len(a) != 1:
            c = to_arr(ev, a[0])
            return c._zip(to_arr(ev, a[1]) if isinstance(a[1], (list, tuple, Arr)) else a[1], lambda x, y: (x, y))._zip(
                to_arr(ev, a[2]) if isinstance(a[2], (list, tuple, Arr)) else a[2], lambda xy, z: xy[1] if ev.truth(xy[0]) else z)
        c = to_arr(ev, a[0])
        if c.ndim != 1:
            raise Unknown("np.where on a matrix")
        return (Arr([i for i, x in enumerate(c.data) if ev.truth(x)]),)

    def logical(fn):
        def f(ev, a, k):
            x = to_arr(ev, a[0])
            if len(a) == 1:
                return x._map(lambda v: not ev.truth(v))
            return x._zip(to_arr(ev, a[1]) if isinstance(a[1], (list, tuple, Arr)) else a[1], lambda p, q: fn(ev.truth(p), ev.truth(q)))
        return f
    h = {("ext", "numpy.asarray"): asarray, ("ext", "numpy.array"): asarray, ("ext", "numpy.asanyarray"): asarray, ("ext", "numpy.atleast_2d"): asarray,
         ("ext", "numpy.pad"): pad, ("ext", "numpy.zeros"): zeros, ("ext", "numpy.hstack"): hstack, ("ext", "numpy.column_stack"): hstack,
         ("ext", "numpy.concatenate"): concat0, ("ext", "numpy.vstack"): concat0, ("ext", "numpy.arange"): arange, ("ext", "numpy.repeat"): repeat,
         ("ext", "numpy.cumsum"): cumsum, ("ext", "numpy.full"): full, ("ext", "numpy.ones"): lambda ev, a, k: full(ev, [a[0], 1], {}),
         ("ext", "numpy.fromiter"): lambda ev, a, k: Arr(list(ev.iterate(a[0]))),
         ("ext", "numpy.bincount"): bincount,
         ("ext", "numpy.sort"): lambda ev, a, k: _sort(ev, to_arr(ev, a[0]), k.get("axis", a[1] if len(a) > 1 else -1)),
         ("ext", "numpy.unique"): _unique, ("ext", "numpy.where"): where,
         ("ext", "numpy.flatnonzero"): lambda ev, a, k: where(ev, [a[0]], {})[0], ("ext", "numpy.nonzero"): lambda ev, a, k: where(ev, [a[0]], {}),
         ("ext", "numpy.logical_and"): logical(lambda p, q: p and q), ("ext", "numpy.logical_or"): logical(lambda p, q: p or q),
         ("ext", "numpy.logical_not"): logical(None), ("ext", "numpy.stack"): stack, ("ext", "numpy.roll"): roll, ("ext", "numpy.ndim"): ndim_,
         ("ext", "numpy.shape"): lambda ev, a, k: to_arr(ev, a[0]).shape(),
         ("ext", "numpy.append"): lambda ev, a, k: concat0(ev, [[a[0], a[1]]], k),
         ("ext", "numpy.empty"): lambda ev, a, k: (_ for _ in ()).throw(Unknown("np.empty (uninitialised array)"))}
    for n in ("any", "all", "max", "min", "sum"):
        h[("ext", "numpy." + n)] = red(n)
    h[("ext", "numpy.amax")] = red("max")
    h[("ext", "numpy.amin")] = red("min")
    return h
