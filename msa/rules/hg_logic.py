"""Small decision procedure used by the C11 / C20 rules: conditions over integer-valued atoms (polynomial comparisons) and free boolean
atoms are evaluated under every assignment of a small grid.  Works on `ast` expressions only."""
from __future__ import annotations
import ast, itertools
from fractions import Fraction
from .. import au, sym

CMP = {ast.Lt: lambda a, b: a < b, ast.LtE: lambda a, b: a <= b, ast.Gt: lambda a, b: a > b, ast.GtE: lambda a, b: a >= b,
       ast.Eq: lambda a, b: a == b, ast.NotEq: lambda a, b: a != b}


class TooBig(Exception):
    pass


def atom_name(n):
    if isinstance(n, ast.Name):
        return n.id
    if isinstance(n, (ast.Attribute, ast.Subscript, ast.Call)):
        return au.src(n)
    return None


def to_poly(e):
    try:
        return sym.to_poly(e, atom_of=lambda n: atom_name(n) if not isinstance(n, ast.Name) else None, opaque=False)
    except sym.NotPoly:
        return None


def is_num_compare(e):
    return isinstance(e, ast.Compare) and len(e.ops) >= 1 and all(type(o) in CMP for o in e.ops) \
        and all(to_poly(x) is not None for x in [e.left] + list(e.comparators))


def collect(e, nums, frees):
    if isinstance(e, ast.BoolOp):
        for v in e.values:
            collect(v, nums, frees)
    elif isinstance(e, ast.UnaryOp) and isinstance(e.op, ast.Not):
        collect(e.operand, nums, frees)
    elif isinstance(e, ast.Constant) and isinstance(e.value, bool):
        pass
    elif is_num_compare(e):
        for x in [e.left] + list(e.comparators):
            nums.update(to_poly(x).atoms())
    else:
        k = au.src(e)
        if k not in frees:
            frees.append(k)


def truth(e, env, free):
    if isinstance(e, ast.BoolOp):
        vs = [truth(v, env, free) for v in e.values]
        return all(vs) if isinstance(e.op, ast.And) else any(vs)
    if isinstance(e, ast.UnaryOp) and isinstance(e.op, ast.Not):
        return not truth(e.operand, env, free)
    if isinstance(e, ast.Constant) and isinstance(e.value, bool):
        return e.value
    if is_num_compare(e):
        left = to_poly(e.left).eval(env)
        for o, c in zip(e.ops, e.comparators):
            right = to_poly(c).eval(env)
            if not CMP[type(o)](left, right):
                return False
            left = right
        return True
    return free[au.src(e)]


def mentions(e, names):
    nums, frees = set(), []
    collect(e, nums, frees)
    return bool(nums & set(names))


def witness(conds, spec, extra_syms=(), dom=range(-1, 5), only=None, max_free=10):
    """an assignment under which every (expr, polarity) of `conds` holds and `spec(env)` is False; None when conds imply spec.
    `only`: keep the conditions that mention one of these atoms (the others are independent of the specification)."""
    if only is not None:
        conds = [(e, p) for e, p in conds if mentions(e, only)]
    nums, frees = set(extra_syms), []
    for e, _ in conds:
        collect(e, nums, frees)
    nums = sorted(nums)
    if len(nums) > 5 or len(frees) > max_free:
        raise TooBig(f"{len(nums)} numeric atoms, {len(frees)} boolean atoms")
    for vals in itertools.product(dom, repeat=len(nums)):
        env = dict(zip(nums, vals))
        try:
            ok_spec = spec(env)
        except KeyError:
            raise TooBig("specification mentions an atom that is not in the conditions")
        if ok_spec:
            continue
        for fv in itertools.product((False, True), repeat=len(frees)):
            free = dict(zip(frees, fv))
            if all(truth(e, env, free) == p for e, p in conds):
                env = dict(env)
                env.update(free)
                return env
    return None


def satisfiable(conds, dom=range(-1, 5)):
    try:
        return witness(conds, lambda env: False, dom=dom) is not None
    except TooBig:
        return True
