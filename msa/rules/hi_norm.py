"""Additional normal form for the modules analysed by C14 / C19 (applied in place, once, on the syntax trees of the loaded repository).

The loader normal form (msa/normal.py) is shared; the rewrites below are the ones the three engines of these two properties
(bounded evaluation hi_exec, data flow hi_flow, degree lattice dim_c1419) would otherwise each have to understand.  Every rewrite
is an equivalence of Python semantics (M2 / M3 assume that the function expression and the partial arguments are not rebound between the
creation of the iterator and its consumption):

  M1  match statement on literal / sequence-of-literal / capture patterns      ->  if / elif chain on a subject bound once
  M2  map(f, a, b ...)                                                          ->  (f(x, y ...) for x, y ... in zip(a, b ...))
      starmap(f, seq)                                                           ->  (f(*x) for x in seq)
      filter(f, seq)                                                            ->  (x for x in seq if f(x))
  M3  (lambda x: body)(name)   partial(f, a)(x)   obj.__getitem__(k)            ->  body[x:=name]   f(a, x)   obj[k]
      (only in the positions created by M2 or written literally; arguments of a beta reduction must be plain names)
  M4  a statement `_check(a, b)` calling a private module-level function whose body only raises under tests of its parameters
      (a validation helper)                                                     ->  those `if ...: raise ...` statements, arguments substituted
      (arguments must be names / constants / attribute chains)

Statements keep their line numbers.  Function definitions keep their identity (only bodies are rewritten), parent links are
recomputed.  Anything outside the recognised forms is left untouched.
"""
from __future__ import annotations
import ast, os
from .. import au, sym

_FLAG = "_hi_normalised"


def normalise(repo, modnames):
    if os.environ.get("MSA_NO_HINORM"):
        return
    for name in modnames:
        try:
            m = repo.module(name)
        except Exception:
            continue
        if getattr(m, _FLAG, False):
            continue
        setattr(m, _FLAG, True)
        shadowed = _module_bindings(m.tree)
        changed = _Rewriter(shadowed, _checkers(m.tree)).run(m.tree)
        if changed:
            ast.fix_missing_locations(m.tree)
            for n in ast.walk(m.tree):
                for c in ast.iter_child_nodes(n):
                    c._parent = n  # type: ignore[attr-defined]


def _module_bindings(tree):
    """names defined at module level by the module itself (a module that defines its own `map` / `partial` is not rewritten)"""
    out = set()
    for st in tree.body:
        if isinstance(st, (ast.FunctionDef, ast.AsyncFunctionDef, ast.ClassDef)):
            out.add(st.name)
        elif isinstance(st, (ast.Assign, ast.AnnAssign, ast.AugAssign)):
            for t in au.assign_targets(st):
                out |= set(au.assigned_names(t))
    return out


def _only_raises(stmts):
    """statements that do nothing but raise under conditions: [docstring], `if test: raise ...` (elif / else chains of the same)"""
    seen = False
    for st in stmts:
        if isinstance(st, ast.Expr) and isinstance(st.value, ast.Constant):
            continue
        if isinstance(st, ast.Raise):
            seen = True
            continue
        if isinstance(st, ast.If) and _only_raises(st.body) and (not st.orelse or _only_raises(st.orelse)):
            seen = True
            continue
        if isinstance(st, ast.Pass):
            continue
        return False
    return seen


def _checkers(tree):
    """private module-level validation helpers: name -> FunctionDef"""
    out = {}
    for st in tree.body:
        if isinstance(st, ast.FunctionDef) and st.name.startswith("_") and not st.decorator_list and not st.args.vararg and not st.args.kwarg \
                and _only_raises(st.body):
            params = {p.arg for p in st.args.posonlyargs + st.args.args + st.args.kwonlyargs}
            stores = {n.id for n in ast.walk(st) if isinstance(n, ast.Name) and isinstance(n.ctx, ast.Store)}
            if not stores and not any(isinstance(n, (ast.Lambda, ast.ListComp, ast.GeneratorExp, ast.SetComp, ast.DictComp, ast.NamedExpr)) for n in ast.walk(st)):
                out[st.name] = st
    return out


class _Rewriter:
    def __init__(self, shadowed, checkers=None):
        self.shadowed = shadowed
        self.checkers = checkers or {}
        self.n = 0
        self.changed = False

    def fresh(self, stem):
        self.n += 1
        return f"_hi_{stem}{self.n}"

    def run(self, tree):
        for fn in [n for n in ast.walk(tree) if isinstance(n, (ast.FunctionDef, ast.AsyncFunctionDef))]:
            local = {n.id for n in au.walk(fn) if isinstance(n, ast.Name) and isinstance(n.ctx, ast.Store)} | set(au.params(fn))
            self.local = local
            self.fn = fn
            self.block(fn.body)
        return self.changed

    # ------------------------------------------------------------------ statements
    def block(self, body):
        i = 0
        while i < len(body):
            st = body[i]
            if isinstance(st, (ast.FunctionDef, ast.AsyncFunctionDef, ast.ClassDef)):
                i += 1
                continue        # nested definitions are visited on their own
            if hasattr(ast, "Match") and isinstance(st, ast.Match):
                new = self.match(st)
                if new is not None:
                    body[i:i + 1] = new
                    self.changed = True
                    continue        # re-visit the replacement
            if isinstance(st, ast.Expr) and isinstance(st.value, ast.Call) and isinstance(st.value.func, ast.Name) \
                    and st.value.func.id in self.checkers and st.value.func.id not in self.local and self.fn is not self.checkers[st.value.func.id]:
                new = self.inline_checker(st, self.checkers[st.value.func.id])
                if new is not None:
                    body[i:i + 1] = new
                    self.changed = True
                    i += len(new)
                    continue
            self.exprs(st)
            for fld in ("body", "orelse", "finalbody"):
                sub = getattr(st, fld, None)
                if sub and isinstance(sub, list):
                    self.block(sub)
            for h in getattr(st, "handlers", []) or []:
                self.block(h.body)
            if hasattr(ast, "Match") and isinstance(st, ast.Match):
                for c in st.cases:
                    self.block(c.body)
            i += 1

    def exprs(self, st):
        """rewrite the expressions held directly by the statement (not those of nested statements)"""
        rw = _Expr(self)
        for fld, val in ast.iter_fields(st):
            if fld in ("body", "orelse", "finalbody", "handlers", "cases"):
                continue
            if isinstance(val, ast.expr):
                new = rw.visit(val)
                if new is not val:
                    setattr(st, fld, new)
            elif isinstance(val, list):
                for k, x in enumerate(val):
                    if isinstance(x, ast.expr):
                        new = rw.visit(x)
                        if new is not x:
                            val[k] = new
                    elif isinstance(x, (ast.withitem, ast.keyword)):
                        rw.visit(x)
        if rw.changed:
            self.changed = True

    # ------------------------------------------------------------------ M4
    def inline_checker(self, st, helper):
        call = st.value
        simple = lambda e: isinstance(e, (ast.Name, ast.Constant)) or (isinstance(e, ast.Attribute) and au.chain(e) is not None)
        if any(isinstance(a, ast.Starred) or not simple(a) for a in call.args) or any(k.arg is None or not simple(k.value) for k in call.keywords):
            return None
        a = helper.args
        names = [p.arg for p in a.posonlyargs + a.args]
        if len(call.args) > len(names):
            return None
        mapping = dict(zip(names, call.args))
        for k in call.keywords:
            mapping[k.arg] = k.value
        defaults = dict(zip(names[len(names) - len(a.defaults):], a.defaults)) if a.defaults else {}
        for p_, d_ in zip(a.kwonlyargs, a.kw_defaults):
            if d_ is not None:
                defaults[p_.arg] = d_
        for n_ in names + [p_.arg for p_ in a.kwonlyargs]:
            if n_ not in mapping:
                if n_ not in defaults or not simple(defaults[n_]):
                    return None
                mapping[n_] = defaults[n_]
        # free names of the helper must mean the same thing at the call site (module-level names not shadowed locally)
        free = {n.id for n in ast.walk(helper) if isinstance(n, ast.Name)} - set(mapping)
        if free & self.local:
            return None
        out = []
        for s_ in helper.body:
            if isinstance(s_, ast.Expr) and isinstance(s_.value, ast.Constant):
                continue
            if isinstance(s_, ast.Pass):
                continue
            new = sym.subst(s_, mapping)
            for n in ast.walk(new):
                if hasattr(n, "lineno"):
                    n.lineno, n.col_offset = st.lineno, st.col_offset
                    n.end_lineno, n.end_col_offset = getattr(st, "end_lineno", st.lineno), getattr(st, "end_col_offset", st.col_offset)
            out.append(new)
        return out or None

    # ------------------------------------------------------------------ M1
    def match(self, st):
        subject = st.subject
        tmp = None
        if isinstance(subject, (ast.Name, ast.Constant)):
            ref = lambda: ast.copy_location(_clone(subject), subject)
        else:
            tmp = self.fresh("subject")
            ref = lambda: ast.copy_location(ast.Name(id=tmp, ctx=ast.Load()), subject)
        cases = []
        for c in st.cases:
            binds = []
            test = self.pattern(c.pattern, ref, binds)
            if test is None:
                return None
            guard = c.guard
            if guard is not None:
                if binds:
                    guard = sym.subst(guard, {n: e for n, e in binds})
                test = guard if _is_true(test) else ast.BoolOp(op=ast.And(), values=[test, guard])
            body = [ast.copy_location(ast.Assign(targets=[ast.Name(id=n, ctx=ast.Store())], value=e, lineno=c.body[0].lineno), c.body[0])
                    for n, e in binds] + list(c.body)
            cases.append((test, body))
        # build the chain from the last case backwards
        chain = []
        for test, body in reversed(cases):
            if _is_true(test):
                chain = body
                continue
            node = ast.If(test=test, body=body, orelse=chain)
            ast.copy_location(node, body[0] if body else st)
            node.lineno = getattr(test, "lineno", st.lineno)
            chain = [node]
        out = []
        if tmp is not None:
            out.append(ast.copy_location(ast.Assign(targets=[ast.Name(id=tmp, ctx=ast.Store())], value=subject), st))
        if chain and isinstance(chain[0], ast.If) and len(chain) == 1:
            chain[0].lineno, chain[0].col_offset = st.lineno, st.col_offset
            chain[0].end_lineno, chain[0].end_col_offset = getattr(st, "end_lineno", None), getattr(st, "end_col_offset", None)
        out += chain
        for s in out:
            ast.fix_missing_locations(s)
        return out or [ast.copy_location(ast.Pass(), st)]

    def pattern(self, p, ref, binds):
        """test expression for `ref() matches p` (captures appended to `binds` as (name, expression)); None: pattern not supported"""
        if isinstance(p, ast.MatchValue):
            if not isinstance(p.value, (ast.Constant, ast.Attribute, ast.UnaryOp)):
                return None
            return ast.copy_location(ast.Compare(left=ref(), ops=[ast.Eq()], comparators=[p.value]), p)
        if isinstance(p, ast.MatchSingleton):
            return ast.copy_location(ast.Compare(left=ref(), ops=[ast.Is()], comparators=[ast.Constant(p.value)]), p)
        if isinstance(p, ast.MatchAs):
            if p.pattern is None:
                if p.name is not None:
                    binds.append((p.name, ref()))
                return ast.copy_location(ast.Constant(True), p)
            inner = self.pattern(p.pattern, ref, binds)
            if inner is not None and p.name is not None:
                binds.append((p.name, ref()))
            return inner
        if isinstance(p, ast.MatchOr):
            tests = []
            for alt in p.patterns:
                b2 = []
                t = self.pattern(alt, ref, b2)
                if t is None or b2:
                    return None
                tests.append(t)
            if any(_is_true(t) for t in tests):
                return ast.copy_location(ast.Constant(True), p)
            return ast.copy_location(ast.BoolOp(op=ast.Or(), values=tests), p)
        if isinstance(p, ast.MatchSequence):
            if any(isinstance(x, ast.MatchStar) for x in p.patterns):
                return None
            tests = []
            for k, sub in enumerate(p.patterns):
                item = (lambda k=k: ast.copy_location(ast.Subscript(value=ref(), slice=ast.Constant(k), ctx=ast.Load()), p))
                t = self.pattern(sub, item, binds)
                if t is None:
                    return None
                if not _is_true(t):
                    tests.append(t)
            length = ast.copy_location(ast.Compare(left=ast.Call(func=ast.Name(id="len", ctx=ast.Load()), args=[ref()], keywords=[]),
                                                   ops=[ast.Eq()], comparators=[ast.Constant(len(p.patterns))]), p)
            return ast.copy_location(ast.BoolOp(op=ast.And(), values=[length] + tests), p)
        return None


def _is_true(e):
    return isinstance(e, ast.Constant) and e.value is True


def _clone(e):
    return sym.clone(e) if hasattr(sym, "clone") else ast.parse(ast.unparse(e), mode="eval").body


class _Expr(ast.NodeTransformer):
    """M2 / M3 on one expression tree"""

    def __init__(self, owner):
        self.owner = owner
        self.changed = False

    def visit_Lambda(self, node):
        self.generic_visit(node)
        return node

    def visit_Call(self, node):
        self.generic_visit(node)
        f = node.func
        o = self.owner
        # M2
        if isinstance(f, ast.Name) and f.id == "map" and "map" not in o.shadowed and "map" not in o.local and len(node.args) >= 2 \
                and not node.keywords and not any(isinstance(a, ast.Starred) for a in node.args):
            names = [o.fresh("m") for _ in node.args[1:]]
            call = ast.Call(func=node.args[0], args=[ast.Name(id=n, ctx=ast.Load()) for n in names], keywords=[])
            call = self.simplify(ast.copy_location(call, node))
            if len(names) == 1:
                tgt, it = ast.Name(id=names[0], ctx=ast.Store()), node.args[1]
            else:
                tgt = ast.Tuple(elts=[ast.Name(id=n, ctx=ast.Store()) for n in names], ctx=ast.Store())
                it = ast.Call(func=ast.Name(id="zip", ctx=ast.Load()), args=list(node.args[1:]), keywords=[])
            gen = ast.GeneratorExp(elt=call, generators=[ast.comprehension(target=tgt, iter=it, ifs=[], is_async=0)])
            self.changed = True
            return ast.fix_missing_locations(ast.copy_location(gen, node))
        # M2 (filter): filter(f, seq)  ==  (x for x in seq if f(x))
        if isinstance(f, ast.Name) and f.id == "filter" and "filter" not in o.shadowed and "filter" not in o.local and len(node.args) == 2 \
                and not node.keywords and not any(isinstance(a, ast.Starred) for a in node.args):
            name = o.fresh("m")
            ref = lambda: ast.Name(id=name, ctx=ast.Load())
            if isinstance(node.args[0], ast.Constant) and node.args[0].value is None:
                cond = ref()
            else:
                cond = self.simplify(ast.copy_location(ast.Call(func=node.args[0], args=[ref()], keywords=[]), node))
            gen = ast.GeneratorExp(elt=ref(), generators=[ast.comprehension(target=ast.Name(id=name, ctx=ast.Store()), iter=node.args[1], ifs=[cond], is_async=0)])
            self.changed = True
            return ast.fix_missing_locations(ast.copy_location(gen, node))
        # M2 (starmap): starmap(f, seq)  ==  (f(*x) for x in seq)
        if isinstance(f, ast.Name) and f.id == "starmap" and "starmap" not in o.shadowed and "starmap" not in o.local and len(node.args) == 2 \
                and not node.keywords and not any(isinstance(a, ast.Starred) for a in node.args):
            name = o.fresh("m")
            call = ast.Call(func=node.args[0], args=[ast.Starred(value=ast.Name(id=name, ctx=ast.Load()), ctx=ast.Load())], keywords=[])
            gen = ast.GeneratorExp(elt=ast.copy_location(call, node),
                                   generators=[ast.comprehension(target=ast.Name(id=name, ctx=ast.Store()), iter=node.args[1], ifs=[], is_async=0)])
            self.changed = True
            return ast.fix_missing_locations(ast.copy_location(gen, node))
        new = self.simplify(node)
        if new is not node:
            self.changed = True
        return new

    def simplify(self, call):
        """M3 on one call node"""
        o = self.owner
        f = call.func
        if isinstance(f, ast.Call) and isinstance(f.func, ast.Name) and f.func.id == "partial" and "partial" not in o.shadowed and "partial" not in o.local \
                and f.args and not any(isinstance(a, ast.Starred) for a in list(f.args) + list(call.args)) \
                and not any(k.arg is None for k in list(f.keywords) + list(call.keywords)):
            given = {k.arg for k in call.keywords}
            new = ast.Call(func=f.args[0], args=list(f.args[1:]) + list(call.args),
                           keywords=[k for k in f.keywords if k.arg not in given] + list(call.keywords))
            return self.simplify(ast.fix_missing_locations(ast.copy_location(new, call)))
        if isinstance(f, ast.Attribute) and f.attr == "__getitem__" and len(call.args) == 1 and not call.keywords \
                and not isinstance(call.args[0], ast.Starred):
            return ast.fix_missing_locations(ast.copy_location(ast.Subscript(value=f.value, slice=call.args[0], ctx=ast.Load()), call))
        if isinstance(f, ast.Lambda) and not call.keywords and all(isinstance(a, (ast.Name, ast.Constant)) for a in call.args):
            a = f.args
            if not (a.vararg or a.kwarg or a.kwonlyargs or a.posonlyargs) and len(a.args) == len(call.args) and not a.defaults:
                params = [p.arg for p in a.args]
                inner_bound = {n.id for n in ast.walk(f.body) if isinstance(n, ast.Name) and isinstance(n.ctx, ast.Store)} | \
                              {p.arg for l in ast.walk(f.body) if isinstance(l, ast.Lambda) for p in l.args.args}
                arg_names = {x.id for x in call.args if isinstance(x, ast.Name)}
                if not (inner_bound & (set(params) | arg_names)):
                    body = sym.subst(f.body, dict(zip(params, call.args)))
                    return ast.fix_missing_locations(ast.copy_location(body, call))
        return call
