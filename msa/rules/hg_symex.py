"""Symbolic path execution of small methods (helper module of the C11 / C20 checks).

`Exec(repo, modname, clsname).run(fn)` enumerates the structured paths of a function and executes each of them on symbolic values
(python `ast` expressions over the parameters and *tokens*).  Nothing of the repository is imported or executed.

  * local names are replaced by the value reaching the use (per path: no merge), attribute / item stores are kept in a heap keyed by the
    resolved target, so `axis = leaf.split_axis; ...[axis]` and `...[leaf.split_axis]` denote the same value iff no store came between;
  * calls of helpers of the same class (`self._h(..)`, `Cls._h(..)`, static methods, nested functions, private module functions, bound
    method locals, `x in self`, `len(self)`) are executed in line (`inline` events remember that they were called);
  * every other call yields a fresh token `$cN` (the call with its resolved arguments is kept in `Exec.toks`), every list / dict / set
    display or comprehension a token `$dN`, the element of a generic loop a token `$eN`;
  * `if` / conditional expressions fork the path (conditions are recorded, trivially false ones prune the path), loops are executed
    zero times and once (literal iterables are unrolled), `break` / `continue` / `return` / `raise` / `try` are followed.

A path is a `State`: conds [(expr, polarity, origin node, kind)], events [Event], end, ret, locals, heap."""
from __future__ import annotations
import ast
from .. import au, sym

LIMIT = 6000
MUTATING = {"append", "extend", "insert", "pop", "remove", "clear", "sort", "reverse", "update", "add", "discard", "setdefault",
            "popitem", "appendleft", "popleft", "extendleft", "fill", "resize", "put", "push"}


class GiveUp(Exception):
    pass


def src(e):
    return au.src(e)


def tok_name(e):
    return e.id if isinstance(e, ast.Name) and e.id.startswith("$") else None


class Event:
    __slots__ = ("kind", "node", "call", "recv", "tail", "args", "kwargs", "target", "value", "nconds", "loops", "stack", "tok", "name", "op")

    def __init__(self, kind, node, st, **kw):
        self.kind, self.node = kind, node
        self.call = self.recv = self.tail = self.target = self.value = self.tok = self.name = self.op = None
        self.args, self.kwargs = [], {}
        self.nconds, self.loops, self.stack = len(st.conds), st.loops, st.stack
        for k, v in kw.items():
            setattr(self, k, v)

    def __repr__(self):
        if self.kind == "call":
            return f"call {src(self.call)} -> {self.tok}"
        if self.kind in ("store", "aug", "del"):
            return f"{self.kind} {src(self.target)} = {src(self.value) if self.value is not None else ''}"
        if self.kind == "inline":
            return f"inline {self.name}({', '.join(src(a) for a in self.args)})"
        return f"{self.kind} {src(self.value) if self.value is not None else ''}"


class State:
    def __init__(self):
        self.locals, self.heap, self.ver, self.defs = {}, {}, {}, {}
        self.conds, self.events = [], []
        self.end, self.ret = "fall", None
        self.loops, self.stack = (), ()

    def fork(self):
        s = State()
        s.locals, s.heap, s.ver, s.defs = dict(self.locals), dict(self.heap), dict(self.ver), dict(self.defs)
        s.conds, s.events = list(self.conds), list(self.events)
        s.end, s.ret, s.loops, s.stack = self.end, self.ret, self.loops, self.stack
        if hasattr(self, "_yield"):
            s._yield = list(self._yield)
        if hasattr(self, "_caller_locals"):
            s._caller_locals = dict(self._caller_locals)
        return s


def _const(v):
    return ast.Constant(value=v)


def _neg(e):
    """logical negation with N1-style folding"""
    if isinstance(e, ast.UnaryOp) and isinstance(e.op, ast.Not):
        return e.operand
    if isinstance(e, ast.Compare) and len(e.ops) == 1 and type(e.ops[0]) in au._NEG and type(e.ops[0]) in (ast.In, ast.NotIn, ast.Is, ast.IsNot, ast.Eq, ast.NotEq):
        return ast.Compare(left=e.left, ops=[au._NEG[type(e.ops[0])]()], comparators=e.comparators)
    return ast.UnaryOp(op=ast.Not(), operand=e)


class Exec:
    def __init__(self, repo, modname, clsname=None, opaque=(), inline_module=True, max_depth=6, havoc=False, fields_by_name=False):
        self.repo = repo
        self.auto_summarise = True
        self.fields_by_name = fields_by_name    # True: `self.f` bound to a container built on the path keeps its name (self.f), not the token
        self.havoc = havoc      # True: on entering a loop, everything the loop assigns becomes an unknown "carried" value (general iteration);
        #                         False: the loop body is executed in the state reached before the loop (first iteration)
        self.mod = repo.module(modname)
        self.cls = self.mod.classes.get(clsname) if clsname else None
        self.clsname = clsname
        self.opaque = set(opaque)
        self.inline_module = inline_module
        self.max_depth = max_depth
        self.toks = {}      # token name -> (kind, node)   kind: call | display | elem | exc | default
        self.n = 0
        self.count = 0
        self.methods = {}
        if self.cls is not None:
            try:
                self.methods = {k: v[1] for k, v in repo.methods(self.mod, self.cls).items()}
            except Exception:
                self.methods = {s.name: s for s in self.cls.body if isinstance(s, ast.FunctionDef)}

    # ------------------------------------------------------------------ tokens
    def new_tok(self, kind, node, prefix="c"):
        self.n += 1
        name = f"${prefix}{self.n}"
        self.toks[name] = (kind, node)
        return ast.Name(id=name, ctx=ast.Load())

    def kind(self, e):
        t = tok_name(e)
        return self.toks[t][0] if t in self.toks else None

    def origin(self, e):
        """the call / display / iterable a token stands for (None for anything else)"""
        t = tok_name(e)
        return self.toks[t][1] if t in self.toks else None

    def expand(self, e, depth=8):
        """replace tokens by what they stand for, recursively (for comparison / printing)"""
        if depth <= 0 or e is None:
            return e
        ex = self

        class T(ast.NodeTransformer):
            def visit_Name(self, n):
                if n.id in ex.toks and ex.toks[n.id][0] in ("call", "display", "default"):
                    return ex.expand(sym.clone(ex.toks[n.id][1]), depth - 1)
                if n.id in ex.toks and ex.toks[n.id][0] == "elem":
                    return ast.Call(func=ast.Name(id="$elem", ctx=ast.Load()), args=[ex.expand(sym.clone(ex.toks[n.id][1]), depth - 1)], keywords=[])
                return n
        return T().visit(sym.clone(e))

    def text(self, e):
        return src(self.expand(e))

    # ------------------------------------------------------------------ entry
    def run(self, fn, args=None, init=None):
        """all paths of `fn`; parameters are symbolic names unless `args` (name -> expr) is given.  `init`: State to start from."""
        st = init.fork() if init is not None else State()
        st.locals = {}
        for p in au.params(fn):
            st.locals[p] = (args or {}).get(p, ast.Name(id=p, ctx=ast.Load()))
        st.stack = (getattr(fn, "_qualname", fn.name),)
        st.end, st.ret = "fall", None
        out = self.block(fn.body, st)
        return out

    # ------------------------------------------------------------------ statements
    def tick(self, n=1):
        self.count += n
        if self.count > LIMIT:
            raise GiveUp("too many paths")

    def block(self, body, st):
        states = [st]
        for s in body:
            nxt = []
            for x in states:
                if x.end != "fall":
                    nxt.append(x)
                else:
                    nxt.extend(self.stmt(s, x))
            states = nxt
            self.tick(len(states))
        return states

    def cond(self, st, test, pol, node, kind):
        """add a condition; returns False when it is trivially false (path infeasible)"""
        d = self.decide(test)
        if d is not None:
            return d == pol
        # the same test already decided on this path
        if kind in ("if", "ifexp", "assert"):
            # the same test already decided the other way on this path (only when nothing could have changed its value:
            # no call event since, and the test reads no container)
            t = au.canon_test(test, pol)
            for i, (e, p, _, k2) in enumerate(st.conds):
                if k2 in ("if", "ifexp", "assert") and au.canon_test(e, not p) == t and not any(isinstance(n, ast.Subscript) for n in ast.walk(test)) \
                        and not any(ev.kind in ("call", "store", "aug", "del") and ev.nconds > i for ev in st.events):
                    return False
        st.conds.append((test, pol, node, kind))
        return True

    def decide(self, e):
        if isinstance(e, ast.Constant):
            return bool(e.value)
        if isinstance(e, ast.UnaryOp) and isinstance(e.op, ast.Not):
            d = self.decide(e.operand)
            return None if d is None else not d
        if isinstance(e, ast.BoolOp):
            ds = [self.decide(v) for v in e.values]
            if isinstance(e.op, ast.And):
                if any(d is False for d in ds):
                    return False
                return True if all(d is True for d in ds) else None
            if any(d is True for d in ds):
                return True
            return False if all(d is False for d in ds) else None
        if isinstance(e, ast.Compare) and len(e.ops) == 1:
            op, l, r = e.ops[0], e.left, e.comparators[0]
            if isinstance(op, (ast.Is, ast.IsNot)):
                kl, kr = self.nullness(l), self.nullness(r)
                if kl is not None and kr is not None and (kl == "none" or kr == "none"):
                    same = kl == kr
                    return same if isinstance(op, ast.Is) else not same
            if isinstance(op, (ast.Eq, ast.NotEq, ast.Is, ast.IsNot)) and src(l) == src(r) and not isinstance(l, ast.Constant):
                # (`w != w` on a bare input name is the NaN test: not decided)
                if tok_name(l) or isinstance(l, (ast.Attribute, ast.Subscript)) or (isinstance(l, ast.Name) and isinstance(op, (ast.Is, ast.IsNot))):
                    return isinstance(op, (ast.Eq, ast.Is))
            if isinstance(op, (ast.Eq, ast.NotEq)) and isinstance(l, ast.Constant) and isinstance(r, ast.Constant):
                return (l.value == r.value) == isinstance(op, ast.Eq)
        if isinstance(e, (ast.Tuple, ast.List)):
            return bool(e.elts)
        return None

    def nullness(self, e):
        if isinstance(e, ast.Constant):
            return "none" if e.value is None else "obj"
        if isinstance(e, (ast.Tuple, ast.List, ast.Dict, ast.Set, ast.BinOp, ast.JoinedStr, ast.Lambda)):
            return "obj"
        k = self.kind(e)
        if k == "display":
            return "obj"
        if k == "call":
            c = self.toks[e.id][1]
            t = au.call_tail(c)
            if t and (t[:1].isupper() or t in ("deque", "list", "dict", "set", "tuple", "array", "copy", "arange", "zeros")):
                return "obj"
        return None

    def stmt(self, s, st):
        m = getattr(self, "s_" + type(s).__name__, None)
        if m is None:
            return [st]
        return m(s, st)

    @staticmethod
    def raised(x):
        return x.end == "raise"

    def s_Expr(self, s, st):
        if isinstance(s.value, ast.Yield) and getattr(st, "_yield", None):
            loop, caller_locals, cdefs, cstack = st._yield[-1]
            out = []
            for v, x in (self.ev(s.value.value, st) if s.value.value is not None else [(_const(None), st)]):
                if self.raised(x):
                    out.append(x)
                    continue
                gen_locals, gen_defs, gen_stack, gen_yield = x.locals, x.defs, x.stack, x._yield
                x.locals = dict(getattr(x, "_caller_locals", caller_locals))
                x.defs, x.stack = dict(cdefs), cstack
                x._yield = gen_yield[:-1]
                outer = x.loops
                x.loops = outer + ((id(loop), 1, "for"),)
                for y in self.assign(loop.target, v, x, loop):
                    for z in self.block(loop.body, y):
                        z.loops = outer
                        z._caller_locals = dict(z.locals)
                        if z.end in ("fall", "continue"):
                            z.end = "fall"
                            z.locals, z.defs, z.stack, z._yield = dict(gen_locals), dict(gen_defs), gen_stack, gen_yield
                        out.append(z)
            return out
        return [x for _, x in self.ev(s.value, st)]

    def s_Pass(self, s, st):
        return [st]

    def s_FunctionDef(self, s, st):
        st.defs[s.name] = s
        return [st]

    def s_Return(self, s, st):
        out = []
        for v, x in (self.ev(s.value, st) if s.value is not None else [(_const(None), st)]):
            if self.raised(x):
                out.append(x)
                continue
            x.end, x.ret = "return", v
            x.events.append(Event("return", s, x, value=v))
            out.append(x)
        return out

    def s_Raise(self, s, st):
        out = []
        for v, x in (self.ev(s.exc, st) if s.exc is not None else [(None, st)]):
            if self.raised(x):
                out.append(x)
                continue
            x.end, x.ret = "raise", v
            x.events.append(Event("raise", s, x, value=v))
            out.append(x)
        return out

    def s_Continue(self, s, st):
        st.end = "continue"
        return [st]

    def s_Break(self, s, st):
        st.end = "break"
        return [st]

    def s_Assert(self, s, st):
        out = []
        for v, x in self.ev(s.test, st):
            if self.raised(x) or self.cond(x, v, True, s.test, "assert"):
                out.append(x)
        return out

    def s_Assign(self, s, st):
        out = []
        for v, x in self.ev(s.value, st):
            if self.raised(x):
                out.append(x)
                continue
            xs = [x]
            for t in s.targets:
                xs = [z for y in xs for z in self.assign(t, v, y, s)]
            out.extend(xs)
        return out

    def s_AnnAssign(self, s, st):
        if s.value is None:
            return [st]
        out = []
        for v, x in self.ev(s.value, st):
            if self.raised(x):
                out.append(x)
                continue
            out.extend(self.assign(s.target, v, x, s))
        return out

    def s_AugAssign(self, s, st):
        out = []
        load = sym.clone(s.target)
        for n in ast.walk(load):
            if hasattr(n, "ctx"):
                n.ctx = ast.Load()
        for cur, x in self.ev(load, st):
            for v, y in self.ev(s.value, x):
                if self.raised(y):
                    out.append(y)
                    continue
                val = ast.BinOp(left=cur, op=s.op, right=v)
                for z in self.assign(s.target, val, y, s, aug=(s.op, v)):
                    out.append(z)
        return out

    def s_Delete(self, s, st):
        xs = [st]
        for t in s.targets:
            nxt = []
            for x in xs:
                for tv, y in self.lvalue(t, x):
                    y.events.append(Event("del", s, y, target=tv))
                    if isinstance(tv, ast.Subscript):
                        k = src(tv.value)
                        y.ver[k] = y.ver.get(k, 0) + 1
                    nxt.append(y)
            xs = nxt
        return xs

    def lvalue(self, t, st):
        """resolved form of an attribute / subscript target: [(target', state)]"""
        if isinstance(t, ast.Attribute):
            return [(ast.Attribute(value=b, attr=t.attr, ctx=ast.Load()), x) for b, x in self.ev(t.value, st)]
        if isinstance(t, ast.Subscript):
            out = []
            for b, x in self.ev(t.value, st, raw_container=True):
                for i, y in self.ev(t.slice, x):
                    out.append((ast.Subscript(value=b, slice=i, ctx=ast.Load()), y))
            return out
        return [(t, st)]

    def assign(self, t, v, st, node, aug=None):
        if isinstance(t, ast.Name):
            st.locals[t.id] = v
            return [st]
        if isinstance(t, (ast.Tuple, ast.List)):
            elts = t.elts
            if any(isinstance(e, ast.Starred) for e in elts):
                xs = [st]
                for e in elts:
                    tgt = e.value if isinstance(e, ast.Starred) else e
                    xs = [z for y in xs for z in self.assign(tgt, self.new_tok("unknown", node, "u"), y, node)]
                return xs
            if isinstance(v, (ast.Tuple, ast.List)) and len(v.elts) == len(elts):
                parts = list(v.elts)
            else:
                dv = self.origin(v) if self.kind(v) == "display" else None
                if isinstance(dv, ast.List) and len(dv.elts) == len(elts) and getattr(dv, "_resolved", False):
                    parts = list(dv.elts)
                else:
                    parts = [ast.Subscript(value=v, slice=_const(i), ctx=ast.Load()) for i in range(len(elts))]
            xs = [st]
            for e, p in zip(elts, parts):
                xs = [z for y in xs for z in self.assign(e, p, y, node)]
            return xs
        out = []
        for tv, x in self.lvalue(t, st):
            x.heap[src(tv)] = v
            if isinstance(tv, ast.Subscript):
                k = src(tv.value)
                x.ver[k] = x.ver.get(k, 0) + 1
            x.events.append(Event("aug" if aug else "store", node, x, target=tv, value=v, op=aug))
            out.append(x)
        return out

    def s_If(self, s, st):
        out = []
        for v, x in self.ev(s.test, st):
            if self.raised(x):
                out.append(x)
                continue
            a, b = x, x.fork()
            if self.cond(a, v, True, s.test, "if"):
                out.extend(self.block(s.body, a))
            if self.cond(b, v, False, s.test, "if"):
                out.extend(self.block(s.orelse, b))
        return out

    def s_With(self, s, st):
        xs = [st]
        for it in s.items:
            nxt = []
            for x in xs:
                for v, y in self.ev(it.context_expr, x):
                    if it.optional_vars is not None:
                        nxt.extend(self.assign(it.optional_vars, v, y, s))
                    else:
                        nxt.append(y)
            xs = nxt
        return [z for x in xs for z in self.block(s.body, x)]

    def s_Try(self, s, st):
        entry = st.fork()
        out = []
        for x in self.block(s.body, st):
            if x.end == "raise" and s.handlers:
                for h in s.handlers:
                    y = x.fork()
                    y.end, y.ret = "fall", None
                    if h.name:
                        y.locals[h.name] = self.new_tok("exc", h, "x")
                    out.extend(self.block(h.body, y))
            elif x.end == "fall" and s.orelse:
                out.extend(self.block(s.orelse, x))
            else:
                out.append(x)
        for h in s.handlers:
            # an exception raised implicitly by the body (KeyError of a lookup ...): the handler runs from the entry state
            y = entry.fork()
            y.conds.append((ast.Name(id="$exc:" + (src(h.type) if h.type is not None else "*"), ctx=ast.Load()), True, h, "except"))
            if h.name:
                y.locals[h.name] = self.new_tok("exc", h, "x")
            out.extend(self.block(h.body, y))
        if s.finalbody:
            res = []
            for x in out:
                end, ret = x.end, x.ret
                x.end = "fall"
                for y in self.block(s.finalbody, x):
                    if y.end == "fall":
                        y.end, y.ret = end, ret
                    res.append(y)
            out = res
        return out

    # ------------------------------------------------------------------ loops
    def assigned_in(self, body, depth=0, seen=None):
        """(local names, self attributes) assigned anywhere in `body`, following calls of methods of the class"""
        names, attrs, others = set(), set(), []
        seen = seen if seen is not None else set()
        for n in au.walk(body):
            tg = []
            if isinstance(n, ast.Assign):
                tg = n.targets
            elif isinstance(n, (ast.AugAssign, ast.AnnAssign)):
                tg = [n.target]
            elif isinstance(n, (ast.For, ast.AsyncFor)):
                tg = [n.target]
            elif isinstance(n, ast.NamedExpr):
                tg = [n.target]
            elif isinstance(n, (ast.With, ast.AsyncWith)):
                tg = [i.optional_vars for i in n.items if i.optional_vars is not None]
            for t in tg:
                for x in ast.walk(t):
                    if isinstance(x, ast.Name) and isinstance(x.ctx, ast.Store):
                        names.add(x.id)
                    elif isinstance(x, ast.Attribute) and isinstance(x.ctx, ast.Store):
                        if au.is_self_attr(x):
                            attrs.add(x.attr)
                        else:
                            others.append(x)
            if isinstance(n, ast.Call) and isinstance(n.func, ast.Name) and n.func.id in getattr(self, "_defs_now", {}):
                d = self._defs_now[n.func.id]
                nl = {n_ for g in au.walk(d) if isinstance(g, ast.Nonlocal) for n_ in g.names}
                if nl:
                    n2, a2, _ = self.assigned_in(d.body, depth + 1, seen)
                    names |= (n2 & nl)
                    attrs |= a2
            if isinstance(n, ast.Call) and depth < 4:
                f = n.func
                m = None
                if isinstance(f, ast.Attribute) and isinstance(f.value, ast.Name) and f.attr in self.methods and f.attr not in self.opaque:
                    m = self.methods[f.attr]
                if m is not None and id(m) not in seen:
                    seen.add(id(m))
                    _, a2, _ = self.assigned_in(m.body, depth + 1, seen)
                    attrs |= a2
        return names, attrs, others

    def carry(self, loop, st):
        """havoc: what the loop assigns is unknown at the start of an arbitrary iteration"""
        if not self.havoc:
            return
        self._defs_now = st.defs
        names, attrs, others = self.assigned_in(loop.body + ([] if isinstance(loop, ast.While) else []))
        if isinstance(loop, (ast.For, ast.AsyncFor)):
            names -= set(au.assigned_names(loop.target))
        for n in sorted(names):
            if n in st.locals:
                st.locals[n] = self.new_tok("carried", (n, st.locals[n]), "v")
        for a in sorted(attrs):
            k = "self." + a
            init = st.heap.get(k, ast.Attribute(value=ast.Name(id="self", ctx=ast.Load()), attr=a, ctx=ast.Load()))
            st.heap[k] = self.new_tok("carried", (k, init), "v")
        for t in others:
            if isinstance(t.value, ast.Name) and t.value.id in names:
                continue
            try:
                for tv, _ in self.lvalue(t, st.fork()):
                    k = src(tv)
                    st.heap[k] = self.new_tok("carried", (k, st.heap.get(k, tv)), "v")
            except GiveUp:
                raise
            except Exception:
                pass
        for k in list(st.ver):
            st.ver[k] += 1

    def carried(self, e):
        """(variable / location, value before the loop) of a loop-carried token, else None"""
        t = tok_name(e)
        if t in self.toks and self.toks[t][0] == "carried":
            return self.toks[t][1]
        return None

    def mutated(self, tok, st):
        if st is None:
            return False
        for ev in st.events:
            if ev.kind == "call" and ev.recv is not None and src(ev.recv) == tok and ev.tail in MUTATING:
                return True
            if ev.kind in ("store", "aug", "del") and isinstance(ev.target, ast.Subscript) and src(ev.target.value) == tok:
                return True
            if ev.kind == "call" and any(src(a) == tok for a in ev.args) and ev.tail not in ("len", "sorted", "list", "tuple", "set", "min", "max", "sum",
                                                                                           "reversed", "enumerate", "zip", "iter", "any", "all", "isinstance"):
                return True
        return False

    def contents(self, tok, st):
        """elements of a list built on the path: the display it started from plus what was appended / extended since (None = cannot tell)"""
        o = self.toks.get(tok, (None, None))
        if o[0] != "display" or not isinstance(o[1], (ast.List, ast.Set)) or not getattr(o[1], "_resolved", False):
            return None
        items = list(o[1].elts)
        if st is None:
            return items
        for ev in st.events:
            if ev.kind == "call" and ev.recv is not None and src(ev.recv) == tok:
                if ev.tail in ("append", "add") and len(ev.args) == 1:
                    items.append(ev.args[0])
                elif ev.tail == "extend" and len(ev.args) == 1:
                    a = ev.args[0]
                    sub = self.contents(tok_name(a), st) if tok_name(a) else (list(a.elts) if isinstance(a, (ast.Tuple, ast.List)) else None)
                    if sub is None:
                        return None
                    items.extend(sub)
                elif ev.tail in ("sort", "reverse"):
                    pass                # same elements, another order (the order of a literal iteration is not relied upon)
                elif ev.tail in MUTATING:
                    return None
            elif ev.kind in ("store", "aug", "del") and isinstance(ev.target, ast.Subscript) and src(ev.target.value) == tok:
                return None
            elif ev.kind == "call" and any(src(a) == tok for a in ev.args) and ev.tail not in ("len", "sorted", "list", "tuple", "set", "min", "max", "sum",
                                                                                             "reversed", "enumerate", "zip", "iter", "any", "all", "isinstance",
                                                                                             "extend", "update", "deque", "array", "asarray"):
                return None
        return items

    def literal_items(self, it_node, it_val, st=None):
        """elements of a literal iterable (tuple / list display, possibly through sorted(...) or a token of a display)"""
        e = it_val
        srt = False
        for _ in range(3):
            k = self.kind(e)
            if k == "display" and isinstance(self.origin(e), (ast.List, ast.Set)) and getattr(self.origin(e), "_resolved", False):
                items = self.contents(e.id, st)
                if items is None:
                    return None, False
                e = ast.List(elts=items, ctx=ast.Load())
            elif k == "call" and au.call_tail(self.origin(e)) in ("sorted", "list", "tuple", "reversed") and len(self.origin(e).args) == 1 \
                    and not self.origin(e).keywords:
                srt = srt or au.call_tail(self.origin(e)) in ("sorted", "reversed")
                e = self.origin(e).args[0]
            else:
                break
        if isinstance(e, (ast.Tuple, ast.List, ast.Set)) and not any(isinstance(x, ast.Starred) for x in e.elts) and len(e.elts) <= 6:
            return list(e.elts), srt
        if self.kind(e) == "call" and au.call_tail(self.origin(e)) in ("zip", "enumerate") and not self.origin(e).keywords and self.origin(e).args:
            c = self.origin(e)
            cols = []
            for a in c.args:
                items, _ = self.literal_items(None, a, st)
                if items is None:
                    return None, False
                cols.append(items)
            if au.call_tail(c) == "enumerate" and len(cols) == 1:
                return [ast.Tuple(elts=[_const(i), x], ctx=ast.Load()) for i, x in enumerate(cols[0])], srt
            if au.call_tail(c) == "zip" and len({len(x) for x in cols}) == 1:
                return [ast.Tuple(elts=list(row), ctx=ast.Load()) for row in zip(*cols)], srt
        return None, False

    def generator_loop(self, s, st):
        """`for target in self._gen(args):` over a generator helper of the class: the generator is executed in line and every `yield v`
        runs the loop body with target = v.  None when the iterable is not such a call (or the loop uses break / else)."""
        if not isinstance(s.iter, ast.Call) or s.orelse or any(isinstance(n, ast.Break) for n in au.walk(ast.Module(body=s.body, type_ignores=[]))):
            return None
        c = s.iter
        if any(isinstance(a, ast.Starred) for a in c.args) or any(k.arg is None for k in c.keywords):
            return None
        if isinstance(c.func, ast.Attribute):
            fres = [(ast.Attribute(value=b, attr=c.func.attr, ctx=ast.Load()), x) for b, x in self.ev(c.func.value, st.fork())]
        else:
            fres = self.ev(c.func, st.fork())
        if len(fres) != 1:
            return None
        cal = self.resolve_callee(fres[0][0], st)
        if cal is None or cal[0].name in self.opaque or not any(isinstance(n, (ast.Yield,)) for n in au.walk(cal[0])) \
                or any(isinstance(n, ast.YieldFrom) for n in au.walk(cal[0])):
            return None
        fn, recv, name = cal
        q = getattr(fn, "_qualname", fn.name)
        if len(st.stack) >= self.max_depth or q in st.stack:
            return None
        a = fn.args
        if a.vararg or a.kwarg or a.kwonlyargs:
            return None
        out = []
        f, x0 = fres[0]
        for vals, x in self.ev_list(list(c.args) + [k.value for k in c.keywords], st):
            pos = [p_.arg for p_ in a.posonlyargs + a.args]
            args = ([recv] if recv is not None else []) + vals[:len(c.args)]
            bound = dict(zip(pos, args))
            for k, v in zip(c.keywords, vals[len(c.args):]):
                bound[k.arg] = v
            defaults = dict(zip(pos[len(pos) - len(a.defaults):], a.defaults))
            if any(p_ not in bound and not isinstance(defaults.get(p_), ast.Constant) for p_ in pos):
                return None
            for p_ in pos:
                bound.setdefault(p_, defaults.get(p_))
            saved = (x.locals, x.defs, x.stack)
            x.events.append(Event("inline", s.iter, x, name=name, args=list(args), kwargs={}, call=fn))
            caller_locals = dict(x.locals)
            x.locals = dict(bound)
            x.defs = {}
            x.stack = x.stack + (q,)
            x._yield = getattr(x, "_yield", []) + [(s, caller_locals, saved[1], saved[2])]
            for y in self.block(fn.body, x):
                y._yield = getattr(y, "_yield", [None])[:-1]
                # the locals of the loop body live in the caller: they were written back at every yield
                y.locals = getattr(y, "_caller_locals", caller_locals)
                y.defs, y.stack = dict(saved[1]), saved[2]
                if y.end in ("return", "fall", "continue"):
                    y.end, y.ret = "fall", None
                out.append(y)
        return out

    def s_For(self, s, st):
        g = self.generator_loop(s, st)
        if g is not None:
            return g
        out = []
        for itv, x in self.ev(s.iter, st):
            if self.raised(x):
                out.append(x)
                continue
            items, srt = self.literal_items(s.iter, itv, x)
            if items is not None:
                xs = [x]
                for i, el in enumerate(items):
                    nxt = []
                    for y in xs:
                        if y.end != "fall":
                            nxt.append(y)
                            continue
                        outer = y.loops
                        y.loops = outer + ((id(s), i + 1, "unrolled-sorted" if srt else "unrolled"),)
                        for z in self.assign(s.target, el, y, s):
                            for w in self.block(s.body, z):
                                w.loops = outer
                                if w.end == "continue":
                                    w.end = "fall"
                                nxt.append(w)
                    xs = nxt
                for y in xs:
                    if y.end == "break":
                        y.end = "fall"
                        out.append(y)
                    elif y.end == "fall" and s.orelse:
                        out.extend(self.block(s.orelse, y))
                    else:
                        out.append(y)
                continue
            zero = x.fork()
            zero.conds.append((itv, False, s.iter, "loop"))
            out.extend(self.block(s.orelse, zero) if s.orelse else [zero])
            one = x
            self.carry(s, one)
            one.conds.append((itv, True, s.iter, "loop"))
            outer = one.loops
            one.loops = outer + ((id(s), 1, "for"),)
            el = self.new_tok("elem", itv, "e")
            for z in self.assign(s.target, el, one, s):
                for w in self.block(s.body, z):
                    w.loops = outer
                    if w.end == "break":
                        w.end = "fall"
                        out.append(w)
                    elif w.end in ("fall", "continue"):
                        w.end = "fall"
                        out.extend(self.block(s.orelse, w) if s.orelse else [w])
                    else:
                        out.append(w)
        return out

    def s_While(self, s, st):
        out = []
        for v, x in self.ev(s.test, st):
            if self.raised(x):
                out.append(x)
                continue
            zero = x.fork()
            if self.cond(zero, v, False, s.test, "loop"):
                out.extend(self.block(s.orelse, zero) if s.orelse else [zero])
        if self.havoc:
            st = st.fork()
            self.carry(s, st)
        for v, x in self.ev(s.test, st):
            one = x
            if self.raised(x) or not self.cond(one, v, True, s.test, "loop"):
                continue
            outer = one.loops
            one.loops = outer + ((id(s), 1, "while"),)
            for w in self.block(s.body, one):
                w.loops = outer
                if w.end == "break":
                    w.end = "fall"
                    out.append(w)
                elif w.end in ("fall", "continue"):
                    w.end = "fall"
                    # the loop is left after this iteration: its test is false in the new state
                    left = False
                    for v2, y in self.ev(s.test, w.fork()):
                        if self.raised(y):
                            out.append(y)
                            left = True
                        elif self.cond(y, v2, False, s.test, "loop-exit"):
                            out.extend(self.block(s.orelse, y) if s.orelse else [y])
                            left = True
                    if not left and self.decide(s.test) is True:
                        # `while True:` - the only ways out are break / return inside the body: take them in a second iteration
                        w.loops = outer + ((id(s), 2, "while"),)
                        for w2 in self.block(s.body, w):
                            w2.loops = outer
                            if w2.end == "break":
                                w2.end = "fall"
                                out.append(w2)
                            elif w2.end in ("return", "raise"):
                                out.append(w2)
                else:
                    out.append(w)
        return out

    # ------------------------------------------------------------------ expressions
    def ev(self, e, st, raw_container=False):
        """[(value, state)] - the value of expression `e` in `st` (forks on conditional expressions and inlined calls)"""
        if e is None:
            return [(None, st)]
        if st.end == "raise":           # an inlined callee raised while an enclosing expression was evaluated: nothing else happens
            return [(_const(None), st)]
        m = getattr(self, "e_" + type(e).__name__, None)
        if m is not None:
            if raw_container and isinstance(e, (ast.Attribute, ast.Subscript, ast.Name)):
                return m(e, st, raw=True)
            return m(e, st)
        return self.generic(e, st)

    def ev_list(self, exprs, st):
        res = [([], st)]
        for e in exprs:
            nxt = []
            for vals, x in res:
                for v, y in self.ev(e, x):
                    nxt.append((vals + [v], y))
            res = nxt
        return res

    def generic(self, e, st):
        """evaluate the child expressions in order and rebuild the node"""
        fields = []
        kids = []
        for name, val in ast.iter_fields(e):
            if isinstance(val, ast.expr):
                fields.append((name, "one", len(kids)))
                kids.append(val)
            elif isinstance(val, list) and val and all(isinstance(v, ast.expr) for v in val):
                fields.append((name, "list", (len(kids), len(val))))
                kids.extend(val)
            else:
                fields.append((name, "raw", val))
        out = []
        for vals, x in self.ev_list(kids, st):
            new = type(e)()
            for name, k, a in fields:
                if k == "one":
                    setattr(new, name, vals[a])
                elif k == "list":
                    setattr(new, name, vals[a[0]:a[0] + a[1]])
                else:
                    setattr(new, name, sym.clone(a) if isinstance(a, (ast.AST, list)) else a)
            out.append((new, x))
        return out

    def e_Constant(self, e, st):
        return [(e, st)]

    def e_Name(self, e, st, raw=False):
        if e.id in st.locals:
            return [(st.locals[e.id], st)]
        return [(ast.Name(id=e.id, ctx=ast.Load()), st)]

    def e_Starred(self, e, st):
        return [(ast.Starred(value=v, ctx=ast.Load()), x) for v, x in self.ev(e.value, st)]

    def e_Attribute(self, e, st, raw=False):
        out = []
        for b, x in self.ev(e.value, st):
            a = ast.Attribute(value=b, attr=e.attr, ctx=ast.Load())
            k = src(a)
            if k in x.heap:
                hv = x.heap[k]
                if self.fields_by_name and isinstance(b, ast.Name) and b.id == "self" and self.kind(hv) in ("display", "call"):
                    out.append((a, x))
                else:
                    out.append((hv, x))
            elif self.record_field(b, e.attr) is not None:
                out.append((self.record_field(b, e.attr), x))
            elif self.record_property(b, e.attr) is not None:
                res = self.inline(self.record_property(b, e.attr), [b], {}, x, e, "record." + e.attr)
                out.extend(res if res is not None else [(a, x)])
            elif isinstance(b, ast.Name) and b.id == "self" and e.attr in self.methods and self.is_property(self.methods[e.attr]) \
                    and e.attr not in self.opaque:
                res = self.inline(self.methods[e.attr], [b], {}, x, e, "self." + e.attr)
                out.extend(res if res is not None else [(a, x)])
            else:
                out.append((a, x))
        return out

    def record_class(self, call):
        """the class (of the analysed module) constructed by `call`, when it is a record: NamedTuple / dataclass with annotated fields"""
        ch = au.chain(call.func)
        if not ch:
            return None
        for q, c in self.mod.classes.items():
            if q == ".".join(ch) or q.split(".")[-1] == ch[-1] and (len(ch) == 1 or q.endswith(".".join(ch))):
                fields = [s_.target.id for s_ in c.body if isinstance(s_, ast.AnnAssign) and isinstance(s_.target, ast.Name)]
                is_rec = any((isinstance(d, ast.Name) and d.id == "dataclass") or (isinstance(d, ast.Call) and au.call_tail(d) == "dataclass")
                             or (isinstance(d, ast.Attribute) and d.attr == "dataclass") for d in c.decorator_list) \
                    or any((au.chain(b_) or ["?"])[-1] == "NamedTuple" for b_ in c.bases)
                if fields and is_rec:
                    return c, fields
        return None

    def record_args(self, tok):
        """field -> argument of the record instance a token stands for (constructor call, or dataclasses.replace of such an instance)"""
        if not tok_name(tok) or self.kind(tok) != "call":
            return None
        call = self.origin(tok)
        if au.call_tail(call) == "replace" and call.args and tok_name(call.args[0]):
            base = self.record_args(call.args[0])
            if base is None:
                return None
            base = dict(base)
            for kw in call.keywords:
                if kw.arg is None:
                    return None
                base[kw.arg] = kw.value
            return base
        rc = self.record_class(call)
        if rc is None:
            return None
        c, fields = rc
        out = {}
        for s_ in c.body:
            if isinstance(s_, ast.AnnAssign) and isinstance(s_.target, ast.Name) and s_.value is not None and isinstance(s_.value, ast.Constant):
                out[s_.target.id] = s_.value
        for i, a in enumerate(call.args):
            if isinstance(a, ast.Starred) or i >= len(fields):
                return None
            out[fields[i]] = a
        for kw in call.keywords:
            if kw.arg is None:
                d = self.origin(kw.value) if self.kind(kw.value) == "display" else None
                if isinstance(d, ast.Dict) and all(isinstance(k_, ast.Constant) and isinstance(k_.value, str) for k_ in d.keys):
                    for k_, v_ in zip(d.keys, d.values):
                        out[k_.value] = v_
                else:
                    return None
            else:
                out[kw.arg] = kw.value
        out["$fields"] = fields
        return out

    def record_property(self, base, attr):
        """the property `attr` of the record class a freshly built instance belongs to"""
        if not tok_name(base) or self.kind(base) != "call":
            return None
        call = self.origin(base)
        for _ in range(3):
            if au.call_tail(call) == "replace" and call.args and tok_name(call.args[0]) and self.kind(call.args[0]) == "call":
                call = self.origin(call.args[0])
        rc = self.record_class(call)
        if rc is None:
            return None
        for s_ in rc[0].body:
            if isinstance(s_, ast.FunctionDef) and s_.name == attr and self.is_property(s_):
                return s_
        return None

    def record_field(self, base, attr):
        if not tok_name(base) or self.kind(base) != "call":
            return None
        ra = self.record_args(base)
        if ra is None or attr not in ra or attr == "$fields":
            return None
        return ra[attr]

    def e_Subscript(self, e, st, raw=False):
        out = []
        for b, x in self.ev(e.value, st, raw_container=True):
            for i, y in self.ev(e.slice, x):
                a = ast.Subscript(value=b, slice=i, ctx=ast.Load())
                k = src(a)
                if k in y.heap:
                    out.append((y.heap[k], y))
                    continue
                if isinstance(b, (ast.Tuple, ast.List)) and isinstance(i, ast.Constant) and isinstance(i.value, int) \
                        and -len(b.elts) <= i.value < len(b.elts):
                    out.append((b.elts[i.value], y))
                    continue
                if self.kind(b) == "display" and isinstance(au.const(i), int) and isinstance(e.ctx, ast.Load):
                    items = self.contents(b.id, y)
                    if items is not None and -len(items) <= au.const(i) < len(items):
                        out.append((items[au.const(i)], y))
                        continue
                v = y.ver.get(src(b), 0)
                if v and isinstance(b, ast.Attribute):
                    a = ast.Subscript(value=ast.Attribute(value=b.value, attr=f"{b.attr}@{v}", ctx=ast.Load()), slice=i, ctx=ast.Load())
                out.append((a, y))
        return out

    def e_Slice(self, e, st):
        return self.generic(e, st)

    def e_IfExp(self, e, st):
        out = []
        for t, x in self.ev(e.test, st):
            if self.raised(x):
                out.append((_const(None), x))
                continue
            a, b = x, x.fork()
            if self.cond(a, t, True, e.test, "ifexp"):
                out.extend(self.ev(e.body, a))
            if self.cond(b, t, False, e.test, "ifexp"):
                out.extend(self.ev(e.orelse, b))
        return out

    def e_NamedExpr(self, e, st):
        out = []
        for v, x in self.ev(e.value, st):
            x.locals[e.target.id] = v
            out.append((v, x))
        return out

    def e_UnaryOp(self, e, st):
        if isinstance(e.op, ast.Not):
            return [(_neg(v), x) for v, x in self.ev(e.operand, st)]
        return self.generic(e, st)

    def e_Compare(self, e, st):
        # `x in self` / `x not in self`  ->  __contains__ executed in line
        if len(e.ops) == 1 and isinstance(e.ops[0], (ast.In, ast.NotIn)) and "__contains__" in self.methods \
                and "__contains__" not in self.opaque:
            out = []
            for (l, r), x in self.ev_list([e.left, e.comparators[0]], st):
                if isinstance(r, ast.Name) and r.id == "self":
                    res = self.inline(self.methods["__contains__"], [r, l], {}, x, e, "self.__contains__")
                    if res is not None:
                        for v, y in res:
                            out.append((v if isinstance(e.ops[0], ast.In) else _neg(v), y))
                        continue
                out.append((ast.Compare(left=l, ops=[type(e.ops[0])()], comparators=[r]), x))
            return out
        return self.generic(e, st)

    # displays and comprehensions are objects of their own: tokens
    def display(self, e, st):
        out = []
        for v, x in self.generic(e, st):
            v._resolved = True
            out.append((self.new_tok("display", v, "d"), x))
        return out

    e_List = e_Dict = e_Set = display

    def comp(self, e, st):
        un = self.unroll_comp(e, st)
        if un is not None:
            return un
        bound = set()
        for n in ast.walk(e):
            if isinstance(n, ast.comprehension):
                bound.update(au.assigned_names(n.target))
            elif isinstance(n, ast.Lambda):
                bound.update(au.params(n))
            elif isinstance(n, ast.NamedExpr):
                bound.add(n.target.id)
        mapping = {k: v for k, v in st.locals.items() if k not in bound and isinstance(v, ast.AST)}
        v = sym.subst(e, mapping)
        heap = st.heap

        class H(ast.NodeTransformer):       # attributes of self that were assigned on this path
            def visit_Attribute(self, n):
                if isinstance(n.ctx, ast.Load) and isinstance(n.value, ast.Name) and n.value.id == "self" and ("self." + n.attr) in heap:
                    return sym.clone(heap["self." + n.attr])
                return self.generic_visit(n)
        v = H().visit(v)
        if isinstance(e, ast.Lambda):
            return [(v, st)]
        return [(self.new_tok("display", v, "d"), st)]

    def unroll_comp(self, e, st):
        """a list / generator comprehension over a literal iterable is executed like the loop it stands for: the conditions fork the
        path (kind 'compr'), the result is a display of the kept elements"""
        if not isinstance(e, (ast.ListComp, ast.GeneratorExp)) or len(e.generators) != 1 or e.generators[0].is_async:
            return None
        g = e.generators[0]
        probe = self.ev(g.iter, st.fork())
        if len(probe) != 1:
            return None
        items, srt = self.literal_items(g.iter, probe[0][0], probe[0][1])
        if items is None:
            return None
        out = []
        for itv, x in self.ev(g.iter, st):
            items, srt = self.literal_items(g.iter, itv, x)
            if items is None:
                return None
            saved = {n: x.locals.get(n) for n in au.assigned_names(g.target)}
            states = [([], x)]
            for el in items:
                nxt = []
                for kept, y in states:
                    for z in self.assign(g.target, el, y, e):
                        zs = [z]
                        alive = []
                        for t in g.ifs:
                            cur = []
                            for w in zs:
                                for v, w2 in self.ev(t, w):
                                    a, b = w2, w2.fork()
                                    if self.cond(a, v, True, t, "compr"):
                                        cur.append(a)
                                    if self.cond(b, v, False, t, "compr"):
                                        b._dropped = True
                                        alive.append(b)
                            zs = [w for w in cur]
                        for w in zs:
                            for v, w2 in self.ev(e.elt, w):
                                nxt.append((kept + [v], w2))
                        for w in alive:
                            nxt.append((kept, w))
                states = nxt
                self.tick(len(states))
            for kept, y in states:
                for n, v in saved.items():
                    if v is None:
                        y.locals.pop(n, None)
                    else:
                        y.locals[n] = v
                d = ast.List(elts=kept, ctx=ast.Load())
                d._resolved = True
                out.append((self.new_tok("display", d, "d"), y))
        return out

    e_ListComp = e_SetComp = e_DictComp = e_GeneratorExp = e_Lambda = comp

    def e_JoinedStr(self, e, st):
        return [(_const("<fstring>"), st)]

    # ------------------------------------------------------------------ calls
    @staticmethod
    def is_property(fn):
        return any((isinstance(d, ast.Name) and d.id in ("property", "cached_property")) or
                   (isinstance(d, ast.Attribute) and d.attr in ("cached_property",)) for d in fn.decorator_list)

    @staticmethod
    def deco(fn):
        return {d.id for d in fn.decorator_list if isinstance(d, ast.Name)}

    def resolve_callee(self, f, st):
        """(FunctionDef, receiver expr or None, display name) of an inlinable callee, or None"""
        if isinstance(f, ast.Attribute):
            b = f.value
            if isinstance(b, ast.Name) and b.id == "self" and f.attr in self.methods:
                fn = self.methods[f.attr]
                d = self.deco(fn)
                if "classmethod" in d or self.is_property(fn):
                    return None
                return fn, (None if "staticmethod" in d else b), "self." + f.attr
            ch = au.chain(b)
            if ch and ".".join(ch) in self.mod.classes and ".".join(ch) != self.clsname:
                oc = self.mod.classes[".".join(ch)]
                m = next((s_ for s_ in oc.body if isinstance(s_, ast.FunctionDef) and s_.name == f.attr), None)
                if m is not None and "classmethod" in self.deco(m):
                    return m, b, ".".join(ch) + "." + f.attr
                if m is not None and "staticmethod" in self.deco(m):
                    return m, None, ".".join(ch) + "." + f.attr
            if ch and self.clsname and (".".join(ch) == self.clsname or ch[-1] == self.clsname.split(".")[-1]) and f.attr in self.methods:
                fn = self.methods[f.attr]
                d = self.deco(fn)
                if "classmethod" in d or self.is_property(fn):
                    return None
                return fn, None, self.clsname + "." + f.attr
            return None
        if isinstance(f, ast.Name):
            if f.id in st.defs:
                return st.defs[f.id], None, f.id
            if self.inline_module and f.id in self.mod.funcs and "." not in f.id and (f.id.startswith("_") or f.id in getattr(self, "also_inline", ())):
                return self.mod.funcs[f.id], None, f.id
        return None

    def e_Call(self, e, st):
        out = []
        # function position: keep the callee symbolic (do not look `self.m` up in the heap)
        if isinstance(e.func, ast.Attribute):
            fres = [(ast.Attribute(value=b, attr=e.func.attr, ctx=ast.Load()), x) for b, x in self.ev(e.func.value, st)]
        else:
            fres = self.ev(e.func, st)
        for f, x in fres:
            argn = list(e.args) + [k.value for k in e.keywords]
            for vals, y in self.ev_list(argn, x):
                args = []
                for a_ in vals[:len(e.args)]:
                    # f(*t) with t a tuple / list whose elements are known on this path: the elements are the arguments
                    if isinstance(a_, ast.Starred):
                        inner = a_.value
                        items = list(inner.elts) if isinstance(inner, (ast.Tuple, ast.List)) else \
                            (self.contents(inner.id, y) if self.kind(inner) == "display" else None)
                        if items is not None and not any(isinstance(i_, ast.Starred) for i_ in items):
                            args.extend(items)
                            continue
                    args.append(a_)
                kwargs = {k.arg: v for k, v in zip(e.keywords, vals[len(e.args):])}
                # len(self) -> __len__
                if isinstance(f, ast.Name) and f.id == "len" and len(args) == 1 and isinstance(args[0], ast.Name) and args[0].id == "self" \
                        and "__len__" in self.methods and "__len__" not in self.opaque:
                    res = self.inline(self.methods["__len__"], [args[0]], {}, y, e, "self.__len__")
                    if res is not None:
                        out.extend(res)
                        continue
                if isinstance(f, ast.Name) and f.id == "map" and len(args) == 2 and not kwargs:
                    items, _ = self.literal_items(None, args[1], y)
                    if items is not None and self.resolve_callee(args[0], y) is not None or (items is not None and isinstance(args[0], ast.Attribute)):
                        synth = ast.Tuple(elts=[ast.Call(func=args[0], args=[it_], keywords=[]) for it_ in items], ctx=ast.Load())
                        out.extend(self.ev(synth, y))
                        continue
                cal = self.resolve_callee(f, y)
                if cal is not None and cal[0].name not in self.opaque and not any(isinstance(a, ast.Starred) for a in args) and None not in kwargs:
                    fn, recv, name = cal
                    res = self.inline(fn, ([recv] if recv is not None else []) + args, kwargs, y, e, name, closure=isinstance(f, ast.Name) and f.id in y.defs)
                    if res is not None:
                        out.extend(res)
                        continue
                call = ast.Call(func=f, args=args, keywords=[ast.keyword(arg=k.arg, value=v) for k, v in zip(e.keywords, vals[len(e.args):])])
                tok = self.new_tok("call", call)
                ev = Event("call", e, y, call=call, tok=tok.id, args=args, kwargs=kwargs)
                if isinstance(f, ast.Attribute):
                    ev.recv, ev.tail = f.value, f.attr
                elif isinstance(f, ast.Name):
                    ev.tail = f.id
                y.events.append(ev)
                out.append((tok, y))
        return out

    IMPURE_TAILS = MUTATING | {"partition", "shuffle", "itemset", "byteswap", "heappush", "heappop", "heapify", "heapreplace", "heappushpop"}

    def summarisable(self, fn, seen=None):
        """a helper that only computes a value (no store into an attribute / item, no in-place method, only summarisable helpers called) and
        returns it on three or more paths is not executed in line: its call is one opaque value (keeps the number of paths small)"""
        key = id(fn)
        cache = self.__dict__.setdefault("_summ", {})
        if key in cache:
            return cache[key]
        seen = seen or set()
        if key in seen:
            return False
        seen.add(key)
        pure = True
        for n in au.walk(fn):
            if isinstance(n, (ast.Assign, ast.AugAssign, ast.AnnAssign, ast.Delete)):
                tg = n.targets if isinstance(n, (ast.Assign, ast.Delete)) else [n.target]
                if any(isinstance(x, (ast.Attribute, ast.Subscript)) for t in tg for x in ast.walk(t) if isinstance(getattr(x, "ctx", None), (ast.Store, ast.Del))):
                    pure = False
            elif isinstance(n, ast.Call):
                t = au.call_tail(n)
                if isinstance(n.func, ast.Attribute) and t in self.IMPURE_TAILS:
                    pure = False
                elif isinstance(n.func, ast.Attribute) and isinstance(n.func.value, ast.Name) and n.func.value.id == "self" and t in self.methods:
                    if not self.pure(self.methods[t], seen):
                        pure = False
            elif isinstance(n, (ast.Global, ast.Nonlocal, ast.Yield, ast.YieldFrom)):
                pure = False
        cache[key] = pure and sum(1 for n in au.walk(fn) if isinstance(n, ast.Return)) >= 3
        self.__dict__.setdefault("_pure", {})[key] = pure
        return cache[key]

    def pure(self, fn, seen=None):
        self.summarisable(fn, seen)
        return self.__dict__.get("_pure", {}).get(id(fn), False)

    def inline(self, fn, args, kwargs, st, node, name, closure=False):
        """execute `fn` in line: [(return value, state)] or None when the call cannot be bound / is too deep / recursive / a generator"""
        q = getattr(fn, "_qualname", fn.name)
        if len(st.stack) >= self.max_depth or q in st.stack:
            return None
        if self.auto_summarise and not self.is_property(fn) and self.summarisable(fn):
            return None
        if any(isinstance(n, (ast.Yield, ast.YieldFrom)) for n in au.walk(fn)):
            return None
        a = fn.args
        if a.vararg or a.kwarg:
            return None
        pos = [x.arg for x in a.posonlyargs + a.args]
        if len(args) > len(pos):
            return None
        bound = dict(zip(pos, args))
        for k, v in kwargs.items():
            if k in bound or k not in pos + [x.arg for x in a.kwonlyargs]:
                return None
            bound[k] = v
        defaults = dict(zip(pos[len(pos) - len(a.defaults):], a.defaults))
        defaults.update({x.arg: d for x, d in zip(a.kwonlyargs, a.kw_defaults) if d is not None})
        for p in pos + [x.arg for x in a.kwonlyargs]:
            if p not in bound:
                if p not in defaults:
                    return None
                d = defaults[p]
                bound[p] = sym.clone(d) if isinstance(d, ast.Constant) or au.const(d) is not None else self.new_tok("default", sym.clone(d), "p")
        saved = (st.locals, st.defs, st.stack)
        st.events.append(Event("inline", node, st, name=name, args=list(args), kwargs=dict(kwargs), call=fn))
        st.locals = dict(st.locals) if closure else {}
        st.locals.update(bound)
        st.defs = dict(st.defs) if closure else {}
        st.stack = st.stack + (q,)
        out = []
        nonlocals = {n_ for g in au.walk(fn) if isinstance(g, (ast.Nonlocal, ast.Global)) for n_ in g.names} if closure else set()
        for x in self.block(fn.body, st):
            carried_back = {n_: x.locals[n_] for n_ in nonlocals if n_ in x.locals}
            x.locals, x.defs, x.stack = dict(saved[0]), dict(saved[1]), saved[2]
            x.locals.update(carried_back)
            if x.end == "raise":
                out.append((_const(None), x))
                continue
            v = x.ret if x.end == "return" and x.ret is not None else _const(None)
            x.end, x.ret = "fall", None
            out.append((v, x))
        # paths that raised stay ended: they are returned with value None and end == 'raise'
        return out


# ---------------------------------------------------------------------- helpers for the rules
def flat_conds(st, upto=None):
    """conditions of a path as (atom, polarity) with top-level `and` (true) / `or` (false) split into their operands"""
    out = []
    for e, p, node, kind in (st.conds if upto is None else st.conds[:upto]):
        todo = [(e, p)]
        while todo:
            t, pol = todo.pop()
            t, pol = au.strip_not(t, pol)
            if isinstance(t, ast.BoolOp) and ((isinstance(t.op, ast.And) and pol) or (isinstance(t.op, ast.Or) and not pol)):
                todo.extend((v, pol) for v in t.values)
            else:
                out.append((t, pol, kind))
    return out


def calls(st, tail=None, recv=None, inside=None):
    """call events of a path filtered by method name(s) / receiver text / enclosing loop node"""
    out = []
    for ev in st.events:
        if ev.kind != "call":
            continue
        if tail is not None and ev.tail not in ((tail,) if isinstance(tail, str) else tail):
            continue
        if recv is not None and (ev.recv is None or src(ev.recv) != recv):
            continue
        if inside is not None and not any(l[0] == id(inside) for l in ev.loops):
            continue
        out.append(ev)
    return out


def in_loop(ev, loop):
    return any(l[0] == id(loop) for l in ev.loops)


def _leaves(body):
    if not body:
        return False
    last = body[-1]
    if isinstance(last, (ast.Continue, ast.Break, ast.Return, ast.Raise)):
        return True
    if isinstance(last, ast.If) and last.orelse:
        return _leaves(last.body) and _leaves(last.orelse)
    return False


def controls(cond, ev_node):
    """does the condition (a tuple of State.conds) decide whether the statement of `ev_node` is executed ?  True when the statement is
    nested in the if / loop / comprehension owning the test, or when one branch of that `if` always leaves (early continue / return / raise).
    An `if` that merely prepares something (`if k not in d: d[k] = []`) before an unconditional statement does not control it."""
    test = cond[2]
    owner = au.parent(test)
    if owner is None:
        return True
    n = ev_node
    while n is not None:
        if n is owner:
            return True
        n = au.parent(n)
    if isinstance(owner, ast.If):
        return _leaves(owner.body) or _leaves(owner.orelse)
    if isinstance(owner, (ast.While, ast.For)):
        return False
    return cond[3] not in ("if",)



def default_args(fn, core):
    """bindings {parameter: its default} for the optional parameters of `fn` that are not in `core` (the parameters the analysed behaviour is
    about): options added with a default that keeps the old behaviour are analysed at that default"""
    a = fn.args
    names = [x.arg for x in a.posonlyargs + a.args]
    defaults = dict(zip(names[len(names) - len(a.defaults):], a.defaults))
    defaults.update({x.arg: d for x, d in zip(a.kwonlyargs, a.kw_defaults) if d is not None})
    out = {}
    for n, d in defaults.items():
        if n not in core and (isinstance(d, ast.Constant) or au.const(d) is not None):
            out[n] = sym.clone(d)
    return out
