"""R-ROW: index rows (faces[i], cells[i], edges[i]) are used only through operations that mean
the same thing for lists, tuples and numpy rows.

from_arrays / stl / ply deliver numpy rows, the text readers deliver lists or tuples.  `+`/`*`
is concatenation/repetition on builtin sequences and element-wise arithmetic on numpy rows;
`==` gives a bool or an array; .index/.count/.append exist on only one side.  A consumer
that applies one of these to a row makes later behaviour depend on how the mesh was built.
"""
from __future__ import annotations
import ast
from .. import au

ROW_CONTAINERS = {"faces", "cells", "edges"}
BAD_METHODS = {"index", "count", "append", "extend", "sort", "reverse", "remove", "insert", "copy", "pop"}
NEUTRAL_WRAPPERS = {"list", "tuple", "set", "sorted", "keyify", "len", "iter", "enumerate", "frozenset", "min", "max",
                    "sum", "reversed", "zip", "map", "any", "all", "str", "repr", "print"}


def is_container(e):
    return isinstance(e, ast.Attribute) and e.attr in ROW_CONTAINERS


def _unwrap_enumerate(it):
    if isinstance(it, ast.Call) and au.call_tail(it) == "enumerate" and it.args:
        return it.args[0], True
    return it, False


class RowScan:
    def __init__(self, fn):
        self.fn = fn
        self.cont_names = self._container_aliases()
        self.row_names = self._row_names()

    def _container_aliases(self):
        """local names bound (only) to a row container: `faces = self.mesh.faces` / `vertices, edges, faces = m.vertices, m.edges, m.faces`"""
        good, bad = set(), set()
        for n in au.walk(self.fn):
            if isinstance(n, ast.Assign):
                for t in n.targets:
                    pairs = []
                    if isinstance(t, ast.Name):
                        pairs = [(t, n.value)]
                    elif isinstance(t, (ast.Tuple, ast.List)) and isinstance(n.value, (ast.Tuple, ast.List)) and len(t.elts) == len(n.value.elts):
                        pairs = list(zip(t.elts, n.value.elts))
                    else:
                        bad.update(au.assigned_names(t))
                    for a, v in pairs:
                        if isinstance(a, ast.Name):
                            (good if is_container(v) else bad).add(a.id)
                        else:
                            bad.update(au.assigned_names(a))
            elif isinstance(n, (ast.AugAssign, ast.AnnAssign)):
                if not (isinstance(n, ast.AugAssign) and isinstance(n.target, ast.Name) and n.target.id in good):
                    bad.update(au.assigned_names(n.target))
            elif isinstance(n, (ast.For, ast.comprehension)):
                bad.update(au.assigned_names(n.target))
        return good - bad - set(au.params(self.fn))

    def is_cont(self, e):
        return is_container(e) or (isinstance(e, ast.Name) and e.id in self.cont_names)

    # -- which expressions are rows
    def is_row(self, e):
        if isinstance(e, ast.Subscript):
            if self.is_cont(e.value) and not isinstance(e.slice, (ast.Slice, ast.Tuple)):
                return True          # X.faces[i]
            if isinstance(e.slice, ast.Slice) and self.is_row(e.value):
                return True          # row[a:b]
            return False
        if isinstance(e, ast.Name):
            return e.id in self.row_names
        return False

    def _row_names(self):
        cand, bad = set(), set()
        fn = self.fn
        self.row_names = set()
        for _ in range(3):  # small fixpoint: names bound to rows / slices of rows
            cand, bad = set(), set()
            for n in au.walk(fn):
                if isinstance(n, (ast.For, ast.comprehension)):
                    it, enum = _unwrap_enumerate(n.iter)
                    tgt = n.target
                    if enum:
                        if isinstance(tgt, ast.Tuple) and len(tgt.elts) == 2:
                            idx_t, tgt = tgt.elts
                            bad.update(au.assigned_names(idx_t))
                        else:
                            bad.update(au.assigned_names(tgt))
                            continue
                    if self.is_cont(it) and isinstance(tgt, ast.Name):
                        cand.add(tgt.id)
                    else:
                        bad.update(au.assigned_names(tgt))
                elif isinstance(n, ast.Assign):
                    for t in n.targets:
                        if isinstance(t, ast.Name):
                            (cand if self.is_row(n.value) else bad).add(t.id)
                        else:
                            bad.update(au.assigned_names(t))
                elif isinstance(n, (ast.AugAssign, ast.AnnAssign)):
                    bad.update(au.assigned_names(n.target))
            for p in au.params(fn):
                bad.add(p)
            self.row_names = cand - bad
        return self.row_names

    # -- forbidden uses
    def violations(self):
        out = []
        for n in au.walk(self.fn):
            if isinstance(n, ast.BinOp) and isinstance(n.op, (ast.Add, ast.Mult)):
                for side in (n.left, n.right):
                    if self.is_row(side):
                        out.append((n, f"`{au.src(n)}`: `{_op(n.op)}` applied to an index row",
                                    "list/tuple rows concatenate, numpy rows add element-wise (or fail to broadcast)"))
                        break
            elif isinstance(n, ast.AugAssign) and isinstance(n.op, (ast.Add, ast.Mult)):
                if self.is_row(n.target):
                    out.append((n, f"`{au.src(n)}`: augmented `{_op(n.op)}=` on an index row",
                                "a tuple row is concatenated (the element grows), a numpy row is incremented in place"))
                elif self.is_row(n.value) and not (isinstance(n.target, ast.Name) or self.is_cont(n.target)):
                    pass
            elif isinstance(n, ast.Compare) and len(n.ops) == 1 and isinstance(n.ops[0], (ast.Eq, ast.NotEq)):
                a, b = n.left, n.comparators[0]
                for x, y in ((a, b), (b, a)):
                    if self.is_row(x) and not (isinstance(y, ast.Constant) and y.value is None):
                        out.append((n, f"`{au.src(n)}`: `==` between an index row and a value",
                                    "a numpy row compares element-wise (ambiguous truth value), a list compares as a whole"))
                        break
            elif isinstance(n, ast.Call) and isinstance(n.func, ast.Attribute) and n.func.attr in BAD_METHODS \
                    and self.is_row(n.func.value):
                out.append((n, f"`{au.src(n)}`: list method .{n.func.attr} on an index row",
                            "tuples and numpy rows do not have the list method / have another meaning for it"))
            elif isinstance(n, ast.Call) and isinstance(n.func, ast.Attribute) and n.func.attr in ("add", "discard") \
                    and n.args and self.is_row(n.args[0]):
                out.append((n, f"`{au.src(n)}`: index row used as a set member",
                            "lists and numpy rows are unhashable, tuples are not"))
            elif isinstance(n, ast.Dict):
                for k in n.keys:
                    if k is not None and self.is_row(k):
                        out.append((n, f"`{au.src(k)}` used as a dict key", "lists and numpy rows are unhashable"))
        return out

    def n_row_uses(self):
        c = 0
        for n in au.walk(self.fn):
            if isinstance(n, (ast.Subscript, ast.Name)) and isinstance(getattr(n, "ctx", None), ast.Load) and self.is_row(n):
                c += 1
        return c


def _op(op):
    return "+" if isinstance(op, ast.Add) else "*"


def check_module(ctx, rule, modname, min_uses=0):
    """Apply R-ROW to every function of a module; returns number of row uses inspected."""
    mod = ctx.repo.module(modname)
    uses = 0
    for q, fn in sorted(mod.funcs.items()):
        rs = RowScan(fn)
        k = rs.n_row_uses()
        if not k:
            continue
        uses += k
        vs = rs.violations()
        site = ctx.site(mod.name, fn)
        if not vs:
            ctx.ok(rule, site, f"{k} row use(s), all sequence-agnostic")
        seen = set()
        for node, construct, why in vs:
            # do not report the same expression twice through nested functions
            key = au.norm(node)
            if key in seen:
                continue
            seen.add(key)
            s = ctx.site(mod.name, fn, node)
            ctx.fail(rule, s, construct, "behaviour depends on whether index rows are lists, tuples or numpy rows: " + why)
    if uses < min_uses:
        # the matcher lost its sites (rows renamed / moved into helpers): neither a pass nor a violation
        ctx.undecided(rule, ctx.site(mod.name, "<module>"), f"index rows: fewer than {min_uses} uses found in {modname}",
                      f"{uses} row use(s) found: the row matcher may have lost its sites")
    return uses


FIXTURE = """
def f(mesh, i):
    C = mesh.cells[0]
    F = C[:i] + C[i+1:]
    mesh.edges[i] += (1, 2)
    for r in mesh.faces:
        if r == [0, 1, 2]:
            r.append(3)
"""


def selfcheck():
    """The matcher must fire on the built-in positive example (4 constructs) on every run."""
    fn = ast.parse(FIXTURE).body[0]
    for n in ast.walk(fn):
        for c in ast.iter_child_nodes(n):
            c._parent = n
    v = RowScan(fn).violations()
    if len(v) != 4:
        from ..core import AnalysisError
        raise AnalysisError(f"R-ROW fixture: matcher found {len(v)} of 4 planted constructs")
    return len(v)
