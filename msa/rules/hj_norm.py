"""hj_norm - per-function normal form used by the C15 / C17 / C18 rules.

The rules of these properties talk about *what a function does* (which containers it fills, under which condition, from which
values).  Maintainers move such code around freely: into private helpers, nested closures, generators, comprehensions,
conditional expressions, tuple assignments, loops over literal tables.  `Normaliser(...).function(fn)` returns a structural copy of
`fn` in which those spellings are expanded into one plain statement form, so that one recogniser sees all of them:

  I1  calls of private helpers (methods of the same class through the MRO, module-level functions, nested closures, private
      functions imported from the package) are inlined: parameters substituted / bound, locals renamed apart, `return` turned
      into an assignment of a result variable (early exits become if/else, a `return` inside a search loop becomes
      `result = ..; break` with the rest of the helper in the loop's `else`), single-expression helpers are inlined inside
      expressions, generators consumed by a `for` loop are inlined with the loop body placed at the `yield`;
  I2  `x = [e for t in it if c]` / set / dict comprehensions, `x += [comp]`, `x.extend(gen)` become loops with append / add / store;
  I3  `t = a if c else b` becomes `if c: t = a else: t = b` (also augmented assignments);
  I4  `a = b = v` and `t1, t2 = v1, v2` are split into single assignments (through temporaries when the right-hand sides read a
      target), `a, b, c = (f(x) for x in (p, q, r))` is split per element;
  I5  `for t in <literal tuple/list>` (also a local bound once to such a literal, also under enumerate) without break / continue is
      unrolled with the targets substituted;
  I6  `s.update((a, b))`, `s |= {a, b}` become `s.add(a); s.add(b)`; `l.extend([a, b])`, `l += [a, b]` become appends;
  I7  `x = next((e for t in it if c), d)` becomes the search loop `for t in it: if c: x = e; break` with `else: x = d`;
  I8  a closure defined once in each branch of an `if` becomes one closure that tests the condition itself;
  I9  assignment expressions in conditions / values become plain assignments placed before the statement;
  after an inlining, tests decided by the substituted arguments (`None is None`, `<closure> is None`) are folded.

Everything is purely syntactic on copies of the loader's trees: nothing is imported or executed.  When a helper cannot be inlined
soundly (varargs, returns in unsupported positions, recursion) the call is left in place: the rule then sees an unknown call and
ends `undecided`, never with a wrong reading."""
from __future__ import annotations
import ast, itertools
from .. import au, sym

FUNCS = (ast.FunctionDef, ast.AsyncFunctionDef)
LOOPS = (ast.For, ast.AsyncFor, ast.While)
OK_DECORATORS = {"staticmethod", "allowed_mesh_types", "forbidden_mesh_types"}


class CannotInline(Exception):
    pass


_ids = itertools.count(1)


def fresh(prefix):
    return f"{prefix}__h{next(_ids)}"


def relink(fn):
    for n in ast.walk(fn):
        for c in ast.iter_child_nodes(n):
            c._parent = n
    return fn


def set_pos(nodes, ref):
    for st in nodes if isinstance(nodes, list) else [nodes]:
        for n in ast.walk(st):
            for a in ("lineno", "col_offset", "end_lineno", "end_col_offset"):
                if hasattr(ref, a):
                    setattr(n, a, getattr(ref, a))
    return nodes


def name(n, ctx=None):
    return ast.Name(id=n, ctx=ctx or ast.Load())


def assign(target, value):
    if isinstance(target, str):
        target = name(target, ast.Store())
    return ast.Assign(targets=[target], value=value, lineno=getattr(value, "lineno", 0), col_offset=0)


def store(e):
    """clone of expression `e` usable as an assignment target"""
    e = sym.clone(e)
    for n in ([e] + ([x for x in ast.walk(e)] if isinstance(e, (ast.Tuple, ast.List)) else [])):
        if isinstance(n, (ast.Name, ast.Attribute, ast.Subscript, ast.Tuple, ast.List, ast.Starred)):
            n.ctx = ast.Store()
    return e


def load(e):
    e = sym.clone(e)
    for n in ast.walk(e):
        if hasattr(n, "ctx"):
            n.ctx = ast.Load()
    return e


def sub_blocks(st):
    """[(owner, field)] statement lists directly under statement `st` (not entering nested defs)"""
    out = []
    if isinstance(st, FUNCS + (ast.ClassDef,)):
        return out
    for fld in ("body", "orelse", "finalbody"):
        b = getattr(st, fld, None)
        if isinstance(b, list) and b and isinstance(b[0], ast.stmt):
            out.append((st, fld))
    for h in getattr(st, "handlers", []) or []:
        out.append((h, "body"))
    if hasattr(ast, "Match") and isinstance(st, ast.Match):
        for c in st.cases:
            out.append((c, "body"))
    return out


def map_blocks(stmts, f):
    """apply f (list -> list) to every statement list, innermost first"""
    for st in stmts:
        for owner, fld in sub_blocks(st):
            setattr(owner, fld, map_blocks(getattr(owner, fld), f))
    return f(stmts)


def bound_names(fn_or_body):
    """names bound inside a function body (assignments, loops, with, walrus, nested defs, imports), minus global/nonlocal.
    Needs a linked tree (comprehension targets are recognised through the parent links)."""
    body = fn_or_body.body if hasattr(fn_or_body, "body") else fn_or_body
    out, outer = set(), set()
    for n in au.walk(body):
        if isinstance(n, ast.Name) and isinstance(n.ctx, (ast.Store, ast.Del)) and not _in_comprehension_target(n):
            out.add(n.id)
        elif isinstance(n, ast.NamedExpr):
            out.add(n.target.id)
        elif isinstance(n, (ast.Global, ast.Nonlocal)):
            outer.update(n.names)
        elif isinstance(n, (ast.Import, ast.ImportFrom)):
            for a in n.names:
                out.add((a.asname or a.name).split(".")[0])
        elif isinstance(n, ast.ExceptHandler) and n.name:
            out.add(n.name)
    for st in au.stmts(body):
        if isinstance(st, FUNCS + (ast.ClassDef,)):
            out.add(st.name)
    return out - outer


def _in_comprehension_target(n):
    # only meaningful on linked trees; on unlinked clones we conservatively answer False
    p = getattr(n, "_parent", None)
    while p is not None:
        if isinstance(p, ast.comprehension):
            return True
        if isinstance(p, ast.stmt):
            return False
        p = getattr(p, "_parent", None)
    return False


class Rename(ast.NodeTransformer):
    def __init__(self, mapping):
        self.m = mapping

    def visit_Name(self, n):
        if n.id in self.m:
            return ast.copy_location(ast.Name(id=self.m[n.id], ctx=n.ctx), n)
        return n

    def visit_FunctionDef(self, n):
        if n.name in self.m:
            n.name = self.m[n.name]
        self.generic_visit(n)
        return n

    def visit_Nonlocal(self, n):
        n.names = [self.m.get(x, x) for x in n.names]
        return n


def unique_defs(body):
    """nested function definitions by name; a name defined more than once (e.g. one variant per branch of an if) is left out:
    which definition a call reaches is then a matter of control flow, the call is not inlined"""
    seen, dup = {}, set()
    for st in au.stmts(body):
        if isinstance(st, FUNCS):
            if st.name in seen:
                dup.add(st.name)
            seen[st.name] = st
    # a name that is also rebound by an assignment is ambiguous too
    for n in au.walk(body):
        if isinstance(n, ast.Name) and isinstance(n.ctx, ast.Store) and n.id in seen:
            dup.add(n.id)
    return {k: v for k, v in seen.items() if k not in dup}


def has_yield(fn):
    return any(isinstance(n, (ast.Yield, ast.YieldFrom)) for n in au.walk(fn.body))


def strip_doc(body):
    if body and isinstance(body[0], ast.Expr) and isinstance(body[0].value, ast.Constant) and isinstance(body[0].value.value, str):
        return body[1:]
    return body


def leaves(body):
    """every path through `body` ends in return / raise / break / continue"""
    if not body:
        return False
    last = body[-1]
    if isinstance(last, (ast.Return, ast.Raise, ast.Break, ast.Continue)):
        return True
    if isinstance(last, ast.If) and last.orelse:
        return leaves(last.body) and leaves(last.orelse)
    return False


def contains(body, types, own_loop_only=False):
    """does a statement of one of `types` occur in body (not entering nested defs; with own_loop_only not entering inner loops)"""
    for st in body:
        if isinstance(st, types):
            return True
        if isinstance(st, FUNCS + (ast.ClassDef,)):
            continue
        if own_loop_only and isinstance(st, LOOPS):
            if contains(st.orelse, types, own_loop_only):
                return True
            continue
        for owner, fld in sub_blocks(st):
            if contains(getattr(owner, fld), types, own_loop_only):
                return True
    return False


# =============================================================================================== the normaliser
class Normaliser:
    def __init__(self, repo, modname, cls_qual=None, keep=(), extra=(), depth=3, unroll=True, inline=True, dyn=None, public_methods=False):
        self.repo = repo
        self.mod = repo.module(modname)
        self.cls_qual = cls_qual
        self.dyn = dyn or ((self.mod.name, cls_qual) if cls_qual else None)   # the class `self` is an instance of (method lookup)
        self.keep = set(keep)
        self.extra = set(extra)
        self.depth = depth
        self.unroll = unroll
        self.do_inline = inline
        self.public_methods = public_methods
        self.inlined = []          # names of the helpers that were expanded (for the notes of the rules)
        self._methods = None

    # ------------------------------------------------------------------ entry
    def function(self, fn, _stack=(), _depth=None):
        depth = self.depth if _depth is None else _depth
        new = sym.clone(fn)
        new._qualname = getattr(fn, "_qualname", fn.name)
        new._hj_origin = fn
        relink(new)
        new.body = map_blocks(new.body, self._pre)
        new.body = map_blocks(new.body, lambda stmts: self._merge_conditional_defs(stmts, new))
        if self.do_inline and depth > 0:
            local_defs = unique_defs(new.body)
            new.body = self._inline_block(new.body, local_defs, _stack + (id(fn),), depth)
        new.body = map_blocks(new.body, self._pre)
        if self.unroll:
            relink(new)
            b = sym.Bindings(new)
            new.body = map_blocks(new.body, lambda stmts: self._unroll(stmts, b))
            new.body = map_blocks(new.body, self._pre)
        relink(new)
        new.body = map_blocks(new.body, lambda stmts: self._first_of_filtered(stmts, new))
        ast.fix_missing_locations(new)
        return relink(new)

    # ------------------------------------------------------------------ I10: first element of a filtered list -> search loop
    def _first_of_filtered(self, stmts, fn):
        """L = []; for v in SEQ: [if C:] L.append(v)   with L only used as `L[0]` / truth value / len(L) against 0
        becomes   L = None; for v in SEQ: [if C:] L = v; break    and the uses `L`, `L is not None`"""
        out = list(stmts)
        for i in range(len(out) - 1):
            a, lp = out[i], out[i + 1]
            if not (isinstance(a, ast.Assign) and len(a.targets) == 1 and isinstance(a.targets[0], ast.Name)
                    and isinstance(a.value, ast.List) and not a.value.elts and isinstance(lp, ast.For) and not lp.orelse and len(lp.body) == 1):
                continue
            L = a.targets[0].id
            inner = lp.body[0]
            holder = lp.body
            if isinstance(inner, ast.If) and not inner.orelse and len(inner.body) == 1:
                holder, inner = inner.body, inner.body[0]
            if not (isinstance(inner, ast.Expr) and isinstance(inner.value, ast.Call) and isinstance(inner.value.func, ast.Attribute)
                    and inner.value.func.attr == "append" and isinstance(inner.value.func.value, ast.Name) and inner.value.func.value.id == L
                    and len(inner.value.args) == 1 and not inner.value.keywords and isinstance(inner.value.args[0], ast.Name)
                    and inner.value.args[0].id in {m.id for m in ast.walk(lp.target) if isinstance(m, ast.Name)}):
                continue
            own = {id(n) for n in ast.walk(a)} | {id(n) for n in ast.walk(lp)}
            uses = [n for n in ast.walk(fn) if isinstance(n, ast.Name) and n.id == L and id(n) not in own]
            if not uses or any(n.id == L for n in ast.walk(lp.iter) if isinstance(n, ast.Name)):
                continue
            plan = []
            for n in uses:
                par = getattr(n, "_parent", None)
                gp = getattr(par, "_parent", None)
                if not isinstance(n.ctx, ast.Load):
                    plan = None
                    break
                if isinstance(par, ast.Subscript) and par.value is n and isinstance(par.slice, ast.Constant) and par.slice.value == 0 \
                        and type(par.slice.value) is int and isinstance(par.ctx, ast.Load):
                    plan.append(("first", par))
                elif (isinstance(par, (ast.If, ast.While, ast.IfExp)) and par.test is n) or isinstance(par, ast.BoolOp) \
                        or (isinstance(par, ast.UnaryOp) and isinstance(par.op, ast.Not)):
                    plan.append(("truth", n))
                elif isinstance(par, ast.Call) and isinstance(par.func, ast.Name) and par.func.id == "len" and len(par.args) == 1 \
                        and isinstance(gp, ast.Compare) and len(gp.ops) == 1 and gp.left is par and isinstance(gp.comparators[0], ast.Constant) \
                        and type(gp.comparators[0].value) is int:
                    k, op = gp.comparators[0].value, gp.ops[0]
                    if (k == 0 and isinstance(op, (ast.Gt, ast.NotEq))) or (k == 1 and isinstance(op, ast.GtE)):
                        plan.append(("nonempty", gp))
                    elif (k == 0 and isinstance(op, (ast.Eq, ast.LtE))) or (k == 1 and isinstance(op, ast.Lt)):
                        plan.append(("empty", gp))
                    else:
                        plan = None
                        break
                else:
                    plan = None
                    break
            if not plan:
                continue

            def put(old, new_):
                par = old._parent
                for f, v in ast.iter_fields(par):
                    if v is old:
                        setattr(par, f, new_)
                    elif isinstance(v, list):
                        for j, x in enumerate(v):
                            if x is old:
                                v[j] = new_
                new_._parent = par
            for kind, node in plan:
                if kind == "first":
                    put(node, ast.Name(id=L, ctx=ast.Load()))
                else:
                    op = ast.Is() if kind == "empty" else ast.IsNot()
                    put(node, set_pos(ast.Compare(left=ast.Name(id=L, ctx=ast.Load()), ops=[op], comparators=[ast.Constant(value=None)]), node))
            a.value = set_pos(ast.Constant(value=None), a.value)
            hit = set_pos(ast.Assign(targets=[ast.Name(id=L, ctx=ast.Store())], value=inner.value.args[0]), inner)
            holder[:] = [hit, set_pos(ast.Break(), inner)]
            relink(fn)
            self.inlined.append("first-of-filtered-list")
        return out

    # ------------------------------------------------------------------ tests decided by substitution of arguments
    def _fold_none_tests(self, stmts, local_defs):
        """after the arguments of an inlined helper are substituted: `None is None`, `<closure> is None`, `<lambda> is None` are decided and
        the `if` they control is replaced by the branch that is taken"""
        def decide(t):
            if isinstance(t, ast.UnaryOp) and isinstance(t.op, ast.Not):
                d = decide(t.operand)
                return None if d is None else (not d)
            if isinstance(t, ast.Constant) and isinstance(t.value, bool):
                return t.value
            if isinstance(t, ast.Compare) and len(t.ops) == 1 and isinstance(t.ops[0], (ast.Is, ast.IsNot)) \
                    and isinstance(t.comparators[0], ast.Constant) and t.comparators[0].value is None:
                l = t.left
                val = None
                if isinstance(l, ast.Constant):
                    val = l.value is None
                elif isinstance(l, ast.Lambda) or (isinstance(l, ast.Name) and l.id in local_defs):
                    val = False
                if val is not None:
                    return val if isinstance(t.ops[0], ast.Is) else (not val)
            return None
        def simplify(t):
            """(decided value | None, simplified test)"""
            d = decide(t)
            if d is not None:
                return d, t
            if isinstance(t, ast.BoolOp):
                is_or = isinstance(t.op, ast.Or)
                keep = []
                for v in t.values:
                    dv, sv = simplify(v)
                    if dv is None:
                        keep.append(sv)
                    elif dv == is_or:
                        return is_or, t          # `True or ...` / `False and ...` (operands before it were undecided but pure tests)
                if not keep:
                    return (not is_or), t
                return None, (keep[0] if len(keep) == 1 else ast.BoolOp(op=t.op, values=keep))
            if isinstance(t, ast.UnaryOp) and isinstance(t.op, ast.Not):
                dv, sv = simplify(t.operand)
                return (None if dv is None else (not dv)), ast.UnaryOp(op=ast.Not(), operand=sv)
            return None, t
        out = []
        for st in stmts:
            if isinstance(st, ast.If):
                d, t2 = simplify(st.test)
                if d is not None:
                    out.extend(st.body if d else st.orelse)
                    continue
                st.test = t2
            out.append(st)
        return out

    # ------------------------------------------------------------------ I9: assignment expressions
    def _hoist_walrus(self, st):
        """`if (x := e) is None or (y := f) ...:`  ->  `x = e; y = f; if x is None or y ...:`  (analysis normal form: the bindings become
        plain assignments in evaluation order; a short-circuited binding is still listed - the rules only read what a name denotes)"""
        if isinstance(st, ast.If):
            host, fld = st, "test"
        elif isinstance(st, (ast.Assign, ast.AugAssign, ast.Return, ast.Expr)) and getattr(st, "value", None) is not None:
            host, fld = st, "value"
        else:
            return None
        e = getattr(host, fld)
        found = []

        class T(ast.NodeTransformer):
            def visit_NamedExpr(self, n):
                n.value = self.visit(n.value)
                found.append((n.target.id, n.value))
                return ast.Name(id=n.target.id, ctx=ast.Load())

            def visit_Lambda(self, n):
                return n

            def visit_ListComp(self, n):
                return n

            def visit_GeneratorExp(self, n):
                return n

            def visit_SetComp(self, n):
                return n

            def visit_DictComp(self, n):
                return n
        if not any(isinstance(n, ast.NamedExpr) for n in ast.walk(e)):
            return None
        new_e = T().visit(e)
        if not found:
            return None
        setattr(host, fld, new_e)
        return [assign(nm, v) for nm, v in found] + [st]

    # ------------------------------------------------------------------ I8: one closure per branch of an if
    def _merge_conditional_defs(self, stmts, fn):
        """`if c: def f(a): A   else: def f(a): B`  ->  `def f(a): if c: A else: B` after the if (same parameters, c not reassigned)"""
        out = []
        for st in stmts:
            out.append(st)
            if not (isinstance(st, ast.If) and st.orelse):
                continue
            d1 = {s.name: s for s in st.body if isinstance(s, ast.FunctionDef)}
            d2 = {s.name: s for s in st.orelse if isinstance(s, ast.FunctionDef)}
            for nm in sorted(set(d1) & set(d2)):
                f1, f2 = d1[nm], d2[nm]
                all_defs = [s for s in au.stmts(fn.body) if isinstance(s, FUNCS) and s.name == nm]
                if len(all_defs) != 2 or ast.dump(f1.args) != ast.dump(f2.args) or f1.decorator_list or f2.decorator_list:
                    continue
                test_names = au.names(st.test)
                rebound = any(isinstance(n, ast.Name) and isinstance(n.ctx, ast.Store) and n.id in test_names for n in au.walk(fn.body))
                # the closures may read names assigned in their own branch (e.g. the cotangent container): those must not be
                # needed by the other branch, which holds by construction; they must not be reassigned later either
                if rebound or has_yield(f1) or has_yield(f2):
                    continue
                merged = ast.FunctionDef(name=nm, args=sym.clone(f1.args), decorator_list=[], returns=None, type_comment=None,
                                         body=[ast.If(test=sym.clone(st.test), body=strip_doc(f1.body) or [ast.Pass()], orelse=strip_doc(f2.body) or [ast.Pass()])],
                                         lineno=st.lineno, col_offset=st.col_offset)
                if hasattr(ast, "TypeVar"):
                    merged.type_params = []
                st.body = [s for s in st.body if s is not f1] or [ast.Pass()]
                st.orelse = [s for s in st.orelse if s is not f2]
                out.append(merged)
        return out

    # ------------------------------------------------------------------ I2 / I3 / I4 / I6
    def _pre(self, stmts):
        out = []
        stmts = self._merge_named_generator(stmts)
        for st in stmts:
            out.extend(self._pre_stmt(st))
        return out

    def _merge_named_generator(self, stmts):
        """G = (e for t in it if c); x = next(G, d)   with G not used again in the block   ->   x = next((e for t in it if c), d)"""
        out = list(stmts)
        i = 0
        while i + 1 < len(out):
            a, b = out[i], out[i + 1]
            if isinstance(a, ast.Assign) and len(a.targets) == 1 and isinstance(a.targets[0], ast.Name) and isinstance(a.value, ast.GeneratorExp) \
                    and isinstance(b, ast.Assign) and isinstance(b.value, ast.Call) and isinstance(b.value.func, ast.Name) and b.value.func.id == "next" \
                    and len(b.value.args) == 2 and not b.value.keywords and isinstance(b.value.args[0], ast.Name) and b.value.args[0].id == a.targets[0].id:
                g = a.targets[0].id
                later = [n for s_ in out[i + 2:] for n in ast.walk(s_) if isinstance(n, ast.Name) and n.id == g]
                in_default = [n for n in ast.walk(b.value.args[1]) if isinstance(n, ast.Name) and n.id == g]
                if not later and not in_default:
                    b.value.args[0] = a.value
                    del out[i]
                    continue
            i += 1
        return out

    def _pre_stmt(self, st):
        r = self._expand_comp(st)
        if r is not None:
            return self._again(r, st)
        r = self._expand_ifexp(st)
        if r is not None:
            return self._again(r, st)
        r = self._split_assign(st)
        if r is not None:
            return self._again(r, st)
        r = self._expand_bulk(st)
        if r is not None:
            return self._again(r, st)
        r = self._expand_next(st)
        if r is not None:
            return self._again(r, st)
        r = self._hoist_walrus(st)
        if r is not None:
            return self._again(r[:-1], st) + [r[-1]]
        return [st]

    def _again(self, new_stmts, ref):
        set_pos(new_stmts, ref)
        out = []
        for s in new_stmts:
            for owner, fld in sub_blocks(s):
                setattr(owner, fld, self._pre(getattr(owner, fld)))
            out.extend(self._pre_stmt(s))
        return out

    # -- I2
    def _comp_loop(self, comp, leaf):
        """nested for / if statements of the generators of `comp`, innermost body = leaf (list of statements)"""
        body = leaf
        for g in reversed(comp.generators):
            if g.is_async:
                raise CannotInline("async comprehension")
            for t in reversed(g.ifs):
                body = [ast.If(test=sym.clone(t), body=body, orelse=[])]
            body = [ast.For(target=store(g.target), iter=sym.clone(g.iter), body=body, orelse=[], type_comment=None)]
        return body

    def _expand_comp(self, st):
        def appender(recv, comp):
            if isinstance(comp, ast.DictComp):
                leaf = [assign(ast.Subscript(value=load(recv), slice=sym.clone(comp.key), ctx=ast.Store()), sym.clone(comp.value))]
            else:
                meth = "add" if isinstance(comp, ast.SetComp) else "append"
                leaf = [ast.Expr(value=ast.Call(func=ast.Attribute(value=load(recv), attr=meth, ctx=ast.Load()),
                                                args=[sym.clone(comp.elt)], keywords=[]))]
            return self._comp_loop(comp, leaf)

        def empty(comp):
            if isinstance(comp, ast.DictComp):
                return ast.Dict(keys=[], values=[])
            if isinstance(comp, ast.SetComp):
                return ast.Call(func=name("set"), args=[], keywords=[])
            return ast.List(elts=[], ctx=ast.Load())
        COMP = (ast.ListComp, ast.SetComp, ast.DictComp)
        try:
            if isinstance(st, ast.Assign) and len(st.targets) == 1 and isinstance(st.value, COMP) \
                    and isinstance(st.targets[0], (ast.Name, ast.Attribute, ast.Subscript)):
                t = st.targets[0]
                used = au.names(st.value)
                if isinstance(t, ast.Name) and t.id in used:
                    tmp = fresh("comp")
                    return [assign(tmp, empty(st.value))] + appender(name(tmp), st.value) + [assign(store(t), name(tmp))]
                return [assign(store(t), empty(st.value))] + appender(t, st.value)
            if isinstance(st, ast.AugAssign) and isinstance(st.op, ast.Add) and isinstance(st.value, ast.ListComp):
                return appender(st.target, st.value)
            if isinstance(st, ast.Return) and isinstance(st.value, COMP):
                tmp = fresh("comp")
                return [assign(tmp, empty(st.value))] + appender(name(tmp), st.value) + [ast.Return(value=name(tmp))]
            if isinstance(st, ast.Expr) and isinstance(st.value, ast.Call) and isinstance(st.value.func, ast.Attribute) \
                    and st.value.func.attr in ("extend", "update") and len(st.value.args) == 1 and not st.value.keywords \
                    and isinstance(st.value.args[0], (ast.ListComp, ast.GeneratorExp, ast.SetComp)):
                comp = st.value.args[0]
                meth = "append" if st.value.func.attr == "extend" else "add"
                leaf = [ast.Expr(value=ast.Call(func=ast.Attribute(value=load(st.value.func.value), attr=meth, ctx=ast.Load()),
                                                args=[sym.clone(comp.elt)], keywords=[]))]
                return self._comp_loop(comp, leaf)
        except CannotInline:
            return None
        return None

    # -- I3
    def _expand_ifexp(self, st):
        if isinstance(st, ast.Assign) and len(st.targets) == 1 and isinstance(st.value, ast.IfExp):
            v = st.value
            return [ast.If(test=sym.clone(v.test), body=[assign(store(st.targets[0]), sym.clone(v.body))],
                           orelse=[assign(store(st.targets[0]), sym.clone(v.orelse))])]
        if isinstance(st, ast.AnnAssign) and st.value is not None and isinstance(st.value, ast.IfExp) and st.simple in (0, 1):
            v = st.value
            return [ast.If(test=sym.clone(v.test), body=[assign(store(st.target), sym.clone(v.body))],
                           orelse=[assign(store(st.target), sym.clone(v.orelse))])]
        if isinstance(st, ast.AugAssign) and isinstance(st.value, ast.IfExp):
            v = st.value
            mk = lambda val: ast.AugAssign(target=store(st.target), op=st.op, value=sym.clone(val))
            return [ast.If(test=sym.clone(v.test), body=[mk(v.body)], orelse=[mk(v.orelse)])]
        if isinstance(st, ast.Expr) and isinstance(st.value, ast.Call) and isinstance(st.value.func, ast.Attribute) \
                and isinstance(st.value.func.value, ast.IfExp):
            # (a if c else b).m(args)  ->  if c: a.m(args) else: b.m(args)
            c, v = st.value, st.value.func.value
            mk = lambda recv: ast.Expr(value=ast.Call(func=ast.Attribute(value=sym.clone(recv), attr=c.func.attr, ctx=ast.Load()),
                                                      args=[sym.clone(a) for a in c.args], keywords=[sym.clone(k) for k in c.keywords]))
            return [ast.If(test=sym.clone(v.test), body=[mk(v.body)], orelse=[mk(v.orelse)])]
        if isinstance(st, ast.Return) and isinstance(st.value, ast.IfExp):
            v = st.value
            return [ast.If(test=sym.clone(v.test), body=[ast.Return(value=sym.clone(v.body))], orelse=[ast.Return(value=sym.clone(v.orelse))])]
        return None

    # -- I4
    def _split_assign(self, st):
        if isinstance(st, ast.AnnAssign) and st.value is not None and st.simple in (0, 1) and not isinstance(st.value, ast.IfExp):
            # drop the annotation: `self.x : T = v` -> `self.x = v`
            return [ast.Assign(targets=[store(st.target)], value=st.value, lineno=st.lineno, col_offset=0)]
        if not isinstance(st, ast.Assign):
            return None
        if len(st.targets) > 1:
            v = st.value
            simple = isinstance(v, (ast.Constant, ast.Name)) or (isinstance(v, ast.UnaryOp) and isinstance(v.operand, (ast.Constant, ast.Name)))
            if simple:
                return [assign(store(t), sym.clone(v)) for t in st.targets]
            carrier = next((t for t in st.targets if isinstance(t, ast.Name)), None)
            out = []
            if carrier is None:
                tmp = fresh("chain")
                out.append(assign(tmp, v))
                carrier_name = tmp
            else:
                out.append(assign(store(carrier), v))
                carrier_name = carrier.id
            for t in st.targets:
                if t is carrier:
                    continue
                out.append(assign(store(t), name(carrier_name)))
            return out
        t, v = st.targets[0], st.value
        if isinstance(t, (ast.Tuple, ast.List)) and not any(isinstance(x, ast.Starred) for x in t.elts):
            vals = None
            if isinstance(v, (ast.Tuple, ast.List)) and len(v.elts) == len(t.elts) and not any(isinstance(x, ast.Starred) for x in v.elts):
                vals = list(v.elts)
            elif isinstance(v, (ast.GeneratorExp, ast.ListComp)) and len(v.generators) == 1 and not v.generators[0].ifs \
                    and isinstance(v.generators[0].iter, (ast.Tuple, ast.List)) and len(v.generators[0].iter.elts) == len(t.elts) \
                    and isinstance(v.generators[0].target, ast.Name):
                var = v.generators[0].target.id
                vals = [sym.subst(v.elt, {var: e}) for e in v.generators[0].iter.elts]
            if vals is None:
                return None
            written = set()
            safe = True
            for tk, vk in zip(t.elts, vals):
                reads = au.names(vk) | {n.id for n in ast.walk(tk) if isinstance(n, ast.Name) and isinstance(n.ctx, ast.Load)}
                if reads & written:
                    safe = False
                for n in ast.walk(tk):
                    if isinstance(n, ast.Name):
                        if isinstance(n.ctx, ast.Store):
                            written.add(n.id)
                if isinstance(tk, (ast.Subscript, ast.Attribute)):
                    c = tk
                    while isinstance(c, (ast.Subscript, ast.Attribute)):
                        c = c.value
                    if isinstance(c, ast.Name):
                        written.add(c.id)
            if safe:
                return [assign(store(tk), sym.clone(vk)) for tk, vk in zip(t.elts, vals)]
            tmps = [fresh("swap") for _ in vals]
            return [assign(tm, sym.clone(vk)) for tm, vk in zip(tmps, vals)] + [assign(store(tk), name(tm)) for tk, tm in zip(t.elts, tmps)]
        return None

    # -- I7: first match of a generator expression
    def _expand_next(self, st):
        """`x = next((elt for t in it if c), default)`  ->  for t in it: if c: x = elt; break   else: x = default"""
        if not (isinstance(st, ast.Assign) and len(st.targets) == 1 and isinstance(st.value, ast.Call) and isinstance(st.value.func, ast.Name)
                and st.value.func.id == "next" and len(st.value.args) == 2 and not st.value.keywords
                and isinstance(st.value.args[0], ast.GeneratorExp)):
            return None
        gen, default = st.value.args
        if any(g.is_async for g in gen.generators) or len(gen.generators) != 1:
            return None
        g = gen.generators[0]
        body = [assign(store(st.targets[0]), sym.clone(gen.elt)), ast.Break()]
        for t in reversed(g.ifs):
            body = [ast.If(test=sym.clone(t), body=body, orelse=[])]
        return [ast.For(target=store(g.target), iter=sym.clone(g.iter), body=body,
                        orelse=[assign(store(st.targets[0]), sym.clone(default))], type_comment=None)]

    # -- I6
    def _expand_bulk(self, st):
        def calls(recv, meth, elts):
            return [ast.Expr(value=ast.Call(func=ast.Attribute(value=load(recv), attr=meth, ctx=ast.Load()), args=[sym.clone(e)], keywords=[]))
                    for e in elts]
        if isinstance(st, ast.Expr) and isinstance(st.value, ast.Call) and isinstance(st.value.func, ast.Attribute) \
                and len(st.value.args) == 1 and not st.value.keywords:
            c = st.value
            a = c.args[0]
            if c.func.attr == "update" and isinstance(a, (ast.Tuple, ast.List, ast.Set)) and not any(isinstance(x, ast.Starred) for x in a.elts):
                return calls(c.func.value, "add", a.elts)
            if c.func.attr == "extend" and isinstance(a, (ast.Tuple, ast.List)) and not any(isinstance(x, ast.Starred) for x in a.elts):
                return calls(c.func.value, "append", a.elts)
        if isinstance(st, ast.AugAssign):
            if isinstance(st.op, ast.Add) and isinstance(st.value, ast.List) and not any(isinstance(x, ast.Starred) for x in st.value.elts):
                return calls(st.target, "append", st.value.elts)
            if isinstance(st.op, ast.BitOr) and isinstance(st.value, ast.Set) and not any(isinstance(x, ast.Starred) for x in st.value.elts):
                return calls(st.target, "add", st.value.elts)
        return None

    # ------------------------------------------------------------------ I5
    def _unroll(self, stmts, b):
        out = []
        for st in stmts:
            r = self._unroll_one(st, b) if isinstance(st, ast.For) else None
            out.extend(r if r is not None else [st])
        return out

    def _literal_seq(self, e, b):
        if isinstance(e, ast.Name) and b.single(e.id) and isinstance(b.defs[e.id], (ast.Tuple, ast.List)):
            # a local bound exactly once to a literal and never mutated through a method call / store
            fn = None
            e2 = b.defs[e.id]
            return e2
        if isinstance(e, (ast.Tuple, ast.List)):
            return e
        return None

    def _unroll_one(self, lp, b):
        if lp.orelse or contains(lp.body, (ast.Break, ast.Continue), own_loop_only=True):
            return None
        it = lp.iter
        enum = False
        start = 0
        if isinstance(it, ast.Call) and au.call_tail(it) == "enumerate" and isinstance(it.func, ast.Name) and it.args:
            enum = True
            if len(it.args) > 1:
                start = au.const(it.args[1])
            for kw in it.keywords:
                if kw.arg == "start":
                    start = au.const(kw.value)
            if not isinstance(start, int):
                return None
            it = it.args[0]
        seq = self._literal_seq(it, b)
        if seq is None or not (1 <= len(seq.elts) <= 8) or any(isinstance(x, ast.Starred) for x in seq.elts):
            return None
        target = lp.target
        if enum:
            if not (isinstance(target, (ast.Tuple, ast.List)) and len(target.elts) == 2 and isinstance(target.elts[0], ast.Name)):
                return None
            idx_name, target = target.elts[0].id, target.elts[1]
        tnames = set(au.assigned_names(lp.target))
        # the body must not rebind the targets
        for s in au.stmts(lp.body):
            for t in au.assign_targets(s):
                if tnames & set(au.assigned_names(t)):
                    return None
            if isinstance(s, ast.For) and tnames & set(au.assigned_names(s.target)):
                return None
        out = []
        for k, elt in enumerate(seq.elts):
            mapping = {}
            if not self._bind(target, elt, mapping):
                return None
            if enum:
                mapping[idx_name] = ast.Constant(value=start + k)
            for s in lp.body:
                out.append(set_pos(sym.subst(s, mapping), lp))
        return out

    def _bind(self, target, value, mapping):
        if isinstance(target, ast.Name):
            mapping[target.id] = value
            return True
        if isinstance(target, (ast.Tuple, ast.List)) and isinstance(value, (ast.Tuple, ast.List)) and len(target.elts) == len(value.elts):
            return all(self._bind(t, v, mapping) for t, v in zip(target.elts, value.elts))
        return False

    # ------------------------------------------------------------------ I1: resolution of callees
    def methods(self):
        if self._methods is None:
            self._methods = {}
            if self.dyn:
                dm = self.repo.module(self.dyn[0])
                if self.dyn[1] in dm.classes:
                    self._methods = self.repo.methods(dm, dm.classes[self.dyn[1]])
        return self._methods

    def resolve(self, call, local_defs):
        """-> (callee fn, module name, class qualname | None, kind, drop_first_param) | None"""
        f = call.func
        if isinstance(f, ast.Name):
            if f.id in local_defs:
                return local_defs[f.id], self.mod.name, self.cls_qual, "local", False
            r = self.repo.resolve_func(self.mod.name, f.id)
            if r and r[1] is not None:
                m, fn = r
                return fn, m.name, None, "module" if m is self.mod else "import", False
            return None
        if isinstance(f, ast.Attribute) and isinstance(f.value, ast.Name):
            if f.value.id == "self" and f.attr in self.methods():
                m, fn, owner = self.methods()[f.attr]
                deco = [au.call_tail(d) if isinstance(d, ast.Call) else (d.id if isinstance(d, ast.Name) else getattr(d, "attr", None))
                        for d in fn.decorator_list]
                if "property" in deco or "classmethod" in deco:
                    return None
                return fn, m.name, owner._qualname, "method", "staticmethod" not in deco
            r = self.repo.resolve(self.mod.name, f.value.id)
            if r and r[0] == "module" and r[1] in self.repo.modules:
                rr = self.repo.resolve_func(r[1], f.attr)
                if rr and rr[1] is not None:
                    return rr[1], rr[0].name, None, "import", False
        return None

    def wanted(self, fname, kind, callee):
        if fname in self.keep:
            return False
        if fname.startswith("__"):
            return False
        for d in callee.decorator_list:
            dn = au.call_tail(d) if isinstance(d, ast.Call) else (d.id if isinstance(d, ast.Name) else getattr(d, "attr", None))
            if dn not in OK_DECORATORS:
                return False
        if fname in self.extra:
            return True
        if kind == "local":
            return True
        if fname.startswith("_"):
            return True
        if kind == "module" and not callee.decorator_list:
            return True
        if kind == "method" and self.public_methods:
            return True
        return False

    # ------------------------------------------------------------------ I1: inlining
    def _inline_block(self, stmts, local_defs, stack, depth):
        out = []
        for st in stmts:
            for owner, fld in sub_blocks(st):
                setattr(owner, fld, self._inline_block(getattr(owner, fld), local_defs, stack, depth))
            if isinstance(st, FUNCS + (ast.ClassDef,)):
                out.append(st)
                continue
            st = self._inline_exprs(st, local_defs, stack, depth)
            try:
                r = self._inline_stmt(st, local_defs, stack, depth)
            except CannotInline:
                r = None
            out.extend(r if r is not None else [st])
        return out

    def _callee_body(self, call, local_defs, stack, depth, generator=False):
        """-> (statements with params bound and locals renamed, callee fn)   or None"""
        r = self.resolve(call, local_defs)
        if r is None:
            return None
        callee, modname, cls_qual, kind, drop_first = r
        fname = callee.name
        if not self.wanted(fname, kind, callee) or id(callee) in stack or depth <= 0:
            return None
        origin = getattr(callee, "_hj_origin", callee)
        if id(origin) in stack:
            return None
        if has_yield(callee) != generator:
            return None
        if kind == "local":
            sub = self
        else:
            sub = Normaliser(self.repo, modname, cls_qual, keep=self.keep, extra=self.extra, depth=depth - 1, unroll=False,
                             dyn=self.dyn if kind == "method" else None, public_methods=self.public_methods)
        if kind == "local":
            # closures are already part of the (pre-normalised) caller: normalise their body in the caller's context
            body_fn = sym.clone(callee)
            relink(body_fn)
            body_fn.body = map_blocks(body_fn.body, self._pre)
            inner_defs = dict(local_defs)
            inner_defs.update(unique_defs(body_fn.body))
            body_fn.body = self._inline_block(body_fn.body, inner_defs, stack + (id(callee),), depth - 1)
        else:
            body_fn = sub.function(callee, _stack=stack + (id(callee),), _depth=depth - 1)
            self.inlined.extend(sub.inlined)
        a = body_fn.args
        if any(isinstance(x, ast.Starred) for x in call.args) or any(k.arg is None for k in call.keywords):
            raise CannotInline("varargs at the call")
        pos = [x.arg for x in a.posonlyargs + a.args]
        extra_pos, extra_kw = [], []
        if a.vararg or a.kwarg:
            # `*args` / `**kwargs` that are only forwarded (`g(x, *args, **kwargs)`) are replaced by the actual extra arguments
            va, kw = (a.vararg.arg if a.vararg else None), (a.kwarg.arg if a.kwarg else None)
            relink(body_fn)
            for n in au.walk(body_fn.body):
                if isinstance(n, ast.Name) and n.id in (va, kw):
                    par = getattr(n, "_parent", None)
                    fwd = (isinstance(par, ast.Starred) and n.id == va and isinstance(getattr(par, "_parent", None), ast.Call)) or \
                          (isinstance(par, ast.keyword) and par.arg is None and n.id == kw)
                    if not fwd:
                        raise CannotInline("varargs used other than forwarded")
            n_pos = len(pos) - (1 if drop_first else 0)
            call_args = list(call.args)
            if len(call_args) > n_pos:
                if not va:
                    raise CannotInline("too many arguments")
                extra_pos = call_args[n_pos:]
                call = ast.Call(func=call.func, args=call_args[:n_pos], keywords=list(call.keywords))
            names_ok = set(pos + [x.arg for x in a.kwonlyargs])
            extra_kw = [k for k in call.keywords if k.arg not in names_ok]
            if extra_kw and not kw:
                raise CannotInline("keyword")
            if extra_kw:
                call = ast.Call(func=call.func, args=list(call.args), keywords=[k for k in call.keywords if k.arg in names_ok])

            class Fwd(ast.NodeTransformer):
                def visit_Call(self, node):
                    self.generic_visit(node)
                    new_args = []
                    for x in node.args:
                        if isinstance(x, ast.Starred) and isinstance(x.value, ast.Name) and x.value.id == va:
                            new_args.extend(sym.clone(e) for e in extra_pos)
                        else:
                            new_args.append(x)
                    new_kw = []
                    for k in node.keywords:
                        if k.arg is None and isinstance(k.value, ast.Name) and k.value.id == kw:
                            new_kw.extend(ast.keyword(arg=e.arg, value=sym.clone(e.value)) for e in extra_kw)
                        else:
                            new_kw.append(k)
                    node.args, node.keywords = new_args, new_kw
                    return node
            body_fn.body = [Fwd().visit(st) for st in body_fn.body]
        defaults = dict(zip(pos[len(pos) - len(a.defaults):], a.defaults))
        for x, d in zip(a.kwonlyargs, a.kw_defaults):
            if d is not None:
                defaults[x.arg] = d
        given = {}
        args = list(call.args)
        if drop_first:
            if not pos:
                raise CannotInline("method without self")
            given[pos[0]] = call.func.value
            pos_rest = pos[1:]
        else:
            pos_rest = pos
        if len(args) > len(pos_rest):
            raise CannotInline("too many arguments")
        for p, e in zip(pos_rest, args):
            given[p] = e
        for k in call.keywords:
            if k.arg in given or k.arg not in pos + [x.arg for x in a.kwonlyargs]:
                raise CannotInline("keyword")
            given[k.arg] = k.value
        for p in pos + [x.arg for x in a.kwonlyargs]:
            if p not in given:
                if p not in defaults:
                    raise CannotInline("missing argument")
                given[p] = defaults[p]
        body = strip_doc(body_fn.body)
        relink(body_fn)
        bound = bound_names(body)
        ren = {n: fresh(n) for n in sorted(bound) if n not in given}
        pre = []
        submap = {}
        for p, e in given.items():
            pure = not any(isinstance(n, (ast.Call, ast.Yield, ast.Await, ast.NamedExpr, ast.Lambda, ast.ListComp, ast.SetComp, ast.DictComp, ast.GeneratorExp))
                           for n in ast.walk(e))
            if p in bound or not pure:
                loc = fresh(p)
                ren[p] = loc
                pre.append(assign(loc, sym.clone(e)))
            else:
                submap[p] = e
        body = [Rename(ren).visit(sym.clone(s)) for s in body if not isinstance(s, (ast.Nonlocal, ast.Global))]
        if submap:
            # a parameter that is substituted must not be shadowed by a free name of the argument expressions being renamed: the
            # argument expressions are the caller's, the renaming above touched the callee only
            body = [sym.subst(s, submap) for s in body]
        self.inlined.append(fname)
        return pre + body, callee

    def _inline_exprs(self, st, local_defs, stack, depth):
        """single-expression helpers (`def f(a): return <expr>`) are substituted inside expressions"""
        me = self

        class T(ast.NodeTransformer):
            def visit_FunctionDef(self, n):
                return n

            def visit_ClassDef(self, n):
                return n

            def visit_Lambda(self, n):
                return n

            def generic_visit(self, node):
                # do not descend into statement sub-blocks (they were handled already)
                for fld, old in ast.iter_fields(node):
                    if fld in ("body", "orelse", "finalbody", "handlers", "cases") and isinstance(old, list) and old and isinstance(old[0], (ast.stmt, ast.ExceptHandler)):
                        continue
                    if isinstance(old, list):
                        new = []
                        for v in old:
                            if isinstance(v, ast.AST):
                                v = self.visit(v)
                                if v is None:
                                    continue
                            new.append(v)
                        old[:] = new
                    elif isinstance(old, ast.AST):
                        setattr(node, fld, self.visit(old))
                return node

            def visit_Call(self, n):
                self.generic_visit(n)
                try:
                    r = me.resolve(n, local_defs)
                    if r is None:
                        return n
                    callee = r[0]
                    body = strip_doc(callee.body)
                    if not (len(body) == 1 and isinstance(body[0], ast.Return) and body[0].value is not None) or has_yield(callee):
                        return n
                    if isinstance(body[0].value, ast.IfExp):
                        pass
                    got = me._callee_body(n, local_defs, stack, depth)
                    if got is None:
                        return n
                    stmts, _ = got
                    if len(stmts) != 1 or not isinstance(stmts[0], ast.Return):
                        # an argument had to be bound to a local: not expressible inside an expression
                        me.inlined.pop()
                        return n
                    return set_pos(stmts[0].value, n)
                except CannotInline:
                    return n
        return T().visit(st)

    def _inline_stmt(self, st, local_defs, stack, depth):
        # ---- generators consumed by a for loop
        if isinstance(st, ast.For):
            it, enum, start = st.iter, None, 0
            if isinstance(it, ast.Call) and au.call_tail(it) == "enumerate" and isinstance(it.func, ast.Name) and it.args \
                    and isinstance(it.args[0], ast.Call):
                if len(it.args) > 1:
                    start = it.args[1]
                for kw in it.keywords:
                    if kw.arg == "start":
                        start = kw.value
                if isinstance(st.target, (ast.Tuple, ast.List)) and len(st.target.elts) == 2 and isinstance(st.target.elts[0], ast.Name):
                    enum = st.target.elts[0].id
                    it = it.args[0]
            if isinstance(it, ast.Call):
                got = self._callee_body(it, local_defs, stack, depth, generator=True)
                if got is not None:
                    body, callee = got
                    return self._inline_generator(st, body, enum, start)
                # a plain helper that returns the sequence: `for t in f(..)`  ->  seq = f(..) (expanded); for t in seq
                tmp = fresh("seq")
                pre = self._inline_stmt(set_pos(assign(tmp, it), st), local_defs, stack, depth)
                if pre is not None:
                    if it is st.iter:
                        st.iter = set_pos(name(tmp), it)
                    else:
                        st.iter.args[0] = set_pos(name(tmp), it)
                    return pre + [st]
            return None
        # ---- statement-level calls
        call, rebuild = None, None
        if isinstance(st, ast.Expr) and isinstance(st.value, ast.Call):
            call, rebuild = st.value, lambda r: []
        elif isinstance(st, ast.Assign) and isinstance(st.value, ast.Call):
            call, rebuild = st.value, lambda r: [ast.Assign(targets=st.targets, value=name(r), lineno=st.lineno, col_offset=0)]
        elif isinstance(st, ast.AugAssign) and isinstance(st.value, ast.Call):
            call, rebuild = st.value, lambda r: [ast.AugAssign(target=st.target, op=st.op, value=name(r))]
        elif isinstance(st, ast.Return) and isinstance(st.value, ast.Call):
            call, rebuild = st.value, lambda r: [ast.Return(value=name(r))]
        elif isinstance(st, ast.If):
            t = st.test
            if isinstance(t, ast.Call):
                call = t
                def rebuild(r, st=st):
                    st.test = name(r)
                    return [st]
            elif isinstance(t, ast.UnaryOp) and isinstance(t.op, ast.Not) and isinstance(t.operand, ast.Call):
                call = t.operand
                def rebuild(r, st=st, t=t):
                    t.operand = name(r)
                    return [st]
            elif isinstance(t, ast.Compare) and isinstance(t.left, ast.Call):
                call = t.left
                def rebuild(r, st=st, t=t):
                    t.left = name(r)
                    return [st]
        if call is None:
            return None
        got = self._callee_body(call, local_defs, stack, depth)
        if got is None:
            return None
        body, callee = got
        needs_result = not (isinstance(st, ast.Expr))
        res = fresh("ret_" + callee.name) if needs_result else None
        try:
            new_body, always = self._elim_returns(body, res)
        except CannotInline:
            self.inlined.pop()
            raise
        if needs_result and not always:
            new_body = [assign(res, ast.Constant(value=None))] + new_body
        # a single trailing `res = e` directly feeding `target = res`: write the value in place (keeps resolutions short)
        tail = rebuild(res)
        if needs_result and isinstance(st, ast.Assign) and new_body and isinstance(new_body[-1], ast.Assign) \
                and len(new_body[-1].targets) == 1 and isinstance(new_body[-1].targets[0], ast.Name) and new_body[-1].targets[0].id == res \
                and sum(1 for s in au.stmts(new_body) for t in au.assign_targets(s) if isinstance(t, ast.Name) and t.id == res) == 1:
            last = new_body.pop()
            tail = [ast.Assign(targets=st.targets, value=last.value, lineno=st.lineno, col_offset=0)]
        out = set_pos(new_body, st) + tail
        out = map_blocks(out, self._pre)
        out = map_blocks(out, lambda stmts: self._fold_none_tests(stmts, local_defs))
        if depth > 1:
            # arguments that are closures of the caller (a predicate, a callback) become direct calls after substitution: expand them too
            out = self._inline_block(out, local_defs, stack, depth - 1)
        return out

    def _elim_returns(self, stmts, res):
        """replace `return e` by `res = e` and restructure so that nothing executes after it.  -> (statements, always_returns)"""
        out = []
        for i, st in enumerate(stmts):
            rest = stmts[i + 1:]
            if isinstance(st, ast.Return):
                if res is not None:
                    out.append(assign(res, st.value if st.value is not None else ast.Constant(value=None)))
                elif st.value is not None and any(isinstance(n, ast.Call) for n in ast.walk(st.value)):
                    out.append(ast.Expr(value=st.value))
                return out, True
            if isinstance(st, FUNCS + (ast.ClassDef,)) or not contains([st], (ast.Return,)):
                out.append(st)
                continue
            if isinstance(st, ast.If):
                b, ba = self._elim_returns(st.body, res)
                o, oa = self._elim_returns(st.orelse, res)
                if ba and oa:
                    st.body, st.orelse = b or [ast.Pass()], o or [ast.Pass()]
                    out.append(st)
                    return out, True
                r, ra = self._elim_returns(rest, res)
                if ba and not contains(st.orelse, (ast.Return,)):
                    st.body, st.orelse = b or [ast.Pass()], o + r
                    out.append(st)
                    return out, ra
                if oa and not contains(st.body, (ast.Return,)):
                    st.body, st.orelse = b + r or [ast.Pass()], o or [ast.Pass()]
                    out.append(st)
                    return out, ra
                raise CannotInline("return on some paths of a branch only")
            if isinstance(st, (ast.For, ast.While)):
                if st.orelse or contains(st.body, (ast.Break,), own_loop_only=True):
                    raise CannotInline("return inside a loop that also breaks / has an else clause")
                st.body = self._returns_to_breaks(st.body, res)
                r, ra = self._elim_returns(rest, res)
                st.orelse = r
                out.append(st)
                return out, ra
            if isinstance(st, (ast.With, ast.AsyncWith)):
                b, ba = self._elim_returns(st.body, res)
                if ba or not rest:
                    st.body = b or [ast.Pass()]
                    out.append(st)
                    return out, ba
            raise CannotInline(f"return inside {type(st).__name__}")
        return out, False

    def _returns_to_breaks(self, stmts, res):
        out = []
        for st in stmts:
            if isinstance(st, ast.Return):
                if res is not None:
                    out.append(assign(res, st.value if st.value is not None else ast.Constant(value=None)))
                out.append(ast.Break())
                return out
            if isinstance(st, LOOPS) and contains([st], (ast.Return,)):
                raise CannotInline("return inside nested loops")
            if isinstance(st, ast.If):
                st.body = self._returns_to_breaks(st.body, res)
                st.orelse = self._returns_to_breaks(st.orelse, res)
            elif isinstance(st, (ast.With, ast.Try)) and contains([st], (ast.Return,)):
                raise CannotInline("return inside with/try in a loop")
            out.append(st)
        return out

    def _inline_generator(self, lp, body, enum, start):
        if lp.orelse:
            raise CannotInline("for/else over a generator")
        if contains(body, (ast.Return,)):
            raise CannotInline("return inside a generator")
        consumer_break = contains(lp.body, (ast.Break,), own_loop_only=True)
        consumer_cont = contains(lp.body, (ast.Continue,), own_loop_only=True)
        target = lp.target.elts[1] if enum else lp.target
        cnt = fresh(enum + "_n") if enum else None
        state = {"n": 0}

        def place(stmts, loops, top_tail):
            """replace yields; loops = enclosing loops inside the generator; top_tail: is this list the tail of the generator body"""
            out = []
            for i, st in enumerate(stmts):
                is_last = i == len(stmts) - 1
                if isinstance(st, ast.Expr) and isinstance(st.value, ast.Yield):
                    state["n"] += 1
                    if consumer_cont and not (loops and is_last and st._hj_tail):
                        raise CannotInline("continue in the consumer of a generator whose yield is not last in its loop")
                    if consumer_break and not (len(loops) == 1 and loops[0]._hj_tail):
                        raise CannotInline("break in the consumer of a generator")
                    if consumer_cont and not loops:
                        raise CannotInline("continue without generator loop")
                    seq = []
                    if enum:
                        seq.append(assign(enum, name(cnt)))
                        seq.append(ast.AugAssign(target=name(cnt, ast.Store()), op=ast.Add(), value=ast.Constant(value=1)))
                    val = st.value.value if st.value.value is not None else ast.Constant(value=None)
                    seq.append(assign(store(target), sym.clone(val)))
                    seq.extend(sym.clone(lp.body))
                    out.extend(seq)
                    continue
                if any(isinstance(n, (ast.Yield, ast.YieldFrom)) for n in ast.walk(st)) and not isinstance(st, (ast.If, ast.For, ast.While, ast.With)):
                    raise CannotInline("yield used as an expression")
                if isinstance(st, ast.If):
                    for fld in ("body", "orelse"):
                        sub = getattr(st, fld)
                        for s in sub:
                            s._hj_tail = False
                        if sub:
                            sub[-1]._hj_tail = is_last and getattr(st, "_hj_tail", False)
                        setattr(st, fld, place(sub, loops, top_tail and is_last))
                elif isinstance(st, (ast.For, ast.While)):
                    st._hj_tail = top_tail and is_last and not st.orelse
                    for s in st.body:
                        s._hj_tail = False
                    if st.body:
                        st.body[-1]._hj_tail = True
                    st.body = place(st.body, loops + [st], False)
                elif isinstance(st, ast.With):
                    st.body = place(st.body, loops, top_tail and is_last)
                out.append(st)
            return out
        for s in body:
            s._hj_tail = False
        new = place(body, [], True)
        if state["n"] == 0:
            raise CannotInline("generator without yield statement")
        pre = [assign(cnt, sym.clone(start) if isinstance(start, ast.AST) else ast.Constant(value=start))] if enum else []
        out = set_pos(pre + new, lp)
        return map_blocks(out, self._pre)
