"""Helpers shared by C07 / C08 (owned by the C07/C08 checker):

* ``Kinds``    - a tiny "index kind" type system over the repository vocabulary of element
                 containers (vertices / edges / faces / cells / face_corners): which kind of
                 element id a local name holds, which kind an array / attribute is indexed by.
* ``factors``  - multiplicative normal form  num / den  of a term (for weight / normaliser pairing).
* ``Stencil``  - (row, col, value) triples emitted per loop iteration by the three assembly idioms
                 of the repository (parallel tuple stores into rows/cols/vals, a local
                 ``add(k, i, j, x)`` helper, ``lil[i, j] = / += / -=``).

Everything works on ``ast`` only.
"""
from __future__ import annotations
import ast, copy, itertools
from fractions import Fraction
from .. import au, sym
from ..sym import Poly

# --------------------------------------------------------------------------- kinds
CONTAINERS = ("vertices", "edges", "faces", "cells", "face_corners")
ROWS = ("edges", "faces", "cells")          # containers whose elements are rows of vertex ids
ID_PROPS = {
    "id_vertices": "vertices", "id_edges": "edges", "id_faces": "faces", "id_cells": "cells",
    "id_corners": "face_corners",
    "boundary_vertices": "vertices", "interior_vertices": "vertices",
    "boundary_edges": "edges", "interior_edges": "edges",
    "boundary_faces": "faces", "interior_faces": "faces",
}
LOCAL = "local"          # index inside a row (0..len(row)-1)
ANY = "*"                # wildcard (empty collection / sparse attribute of unknown container)

V, E, F, C, CN = "vertices", "edges", "faces", "cells", "face_corners"


def seq(k):
    return ("seq", k)


def tup(*ks):
    return ("tup", tuple(ks))


# connectivity vocabulary:  method -> (argument kinds, result kind)     (None = not constrained)
CONNECTIVITY = {
    "edge_id": ((V, V), E),
    "other_edge_end": ((E, V), V),
    "vertex_to_vertices": ((V,), seq(V)),
    "vertex_to_edges": ((V,), seq(E)),
    "edge_to_vertices": ((E,), ("row", E)),
    "vertex_to_faces": ((V,), seq(F)),
    "vertex_to_corners": ((V,), seq(CN)),
    "vertex_to_corner_in_face": ((V, F), CN),
    "previous_corner": ((CN,), CN),
    "next_corner": ((CN,), CN),
    "opposite_corner": ((CN,), CN),
    "corner_to_face": ((CN,), F),
    "half_edge_to_corner": ((V, V), CN),
    "direct_face": ((V, V), F),           # with return_inds: (F, local, local), handled below
    "edge_to_faces": ((V, V), tup(F, F)),
    "opposite_face": ((V, V, F), F),
    "face_to_vertices": ((F,), seq(V)),
    "in_face_index": ((F, V), LOCAL),
    "face_to_edges": ((F,), seq(E)),
    "face_to_first_corner": ((F,), CN),
    "face_to_corners": ((F,), seq(CN)),
    "face_to_faces": ((F,), seq(F)),
    "face_to_cells": ((F,), seq(C)),
    "cell_to_face": ((C,), seq(F)),
    "cell_to_cell": ((C,), seq(C)),
    "vertex_to_cell": ((V,), seq(C)),
    "cell_to_vertex": ((C,), ("row", C)),
    "in_cell_index": ((C, V), LOCAL),
    "edge_to_face": ((E,), seq(F)),
    "cell_to_edge": ((C,), seq(E)),
    "edge_to_cell": ((E,), seq(C)),
}
MESH_METHODS = {   # methods of the mesh object itself
    "is_vertex_on_border": ((V,), None),
    "is_edge_on_border": ((V, V), None),
}


def join(a, b):
    """Least informative common kind; None when they disagree."""
    if a is None or b is None:
        return None
    if a == b:
        return a
    if a == ANY:
        return b
    if b == ANY:
        return a
    if isinstance(a, tuple) and isinstance(b, tuple) and a[0] == b[0] == "mat":
        return None
    if isinstance(a, tuple) and isinstance(b, tuple) and a[0] == b[0]:
        if a[0] in ("seq", "idx", "cont", "len"):
            j = join(a[1], b[1])
            return None if j is None else (a[0], j)
        if a[0] == "tup" and len(a[1]) == len(b[1]):
            js = [join(x, y) for x, y in zip(a[1], b[1])]
            # a tuple keeps the slots that are known (None slots stay None)
            return ("tup", tuple(js))
    return None


def elem_kind(K):
    if K in ROWS:
        return ("row", K)
    if K == "face_corners":
        return V
    return None  # coordinates of a vertex etc.: not an index


def iter_elem(k):
    """kind of one element when iterating a value of kind k"""
    if not isinstance(k, tuple):
        return None
    if k[0] == "cont":
        return elem_kind(k[1])
    if k[0] == "seq":
        return k[1]
    if k[0] == "row":
        return V
    if k[0] == "tup":
        out = ANY
        for x in k[1]:
            out = join(out, x)
            if out is None:
                return None
        return out
    return None


def index_kind(k):
    """which element kind indexes a value of kind k (containers, attributes, arrays)"""
    if isinstance(k, tuple) and k[0] in ("cont", "idx") and k[1] in CONTAINERS:
        return k[1]
    return None


class Kinds:
    """Flow-insensitive kind inference for one function: a name has a kind only when *all* its
    bindings in the function agree on it (otherwise it is unknown and nothing is checked on it)."""

    def __init__(self, repo, modname, fn, attr_func_kind=None):
        self.repo, self.modname, self.fn = repo, modname, fn
        self.attr_func_kind = attr_func_kind or (lambda callee: None)
        self.bindings = {}       # name -> list of thunks () -> kind
        self.adders = {}         # name -> list of arg exprs of name.add/append(arg)
        self.memo = {}
        self.busy = set()
        self.mesh_params = set()
        a = fn.args
        for p in a.posonlyargs + a.args + a.kwonlyargs:
            ann = au.src(p.annotation) if p.annotation is not None else ""
            if p.arg == "mesh" or ann.strip("\"'").endswith("Mesh") or ann.strip("\"'") == "PolyLine":
                self.mesh_params.add(p.arg)
            self._bind(p.arg, lambda: None)
        for extra in (a.vararg, a.kwarg):
            if extra is not None:
                self._bind(extra.arg, lambda: None)
        self._collect(fn.body)

    # ------------------------------------------------------------------ binding collection
    def _bind(self, name, thunk):
        self.bindings.setdefault(name, []).append(thunk)

    @staticmethod
    def pseudo(node):
        """'self.x' for attribute stores on self (tracked like locals, per function)"""
        if au.is_self_attr(node):
            return "self." + node.attr
        return None

    def _bind_target(self, target, kind_thunk):
        """bind the names of an assignment / loop target to (parts of) a lazily computed kind"""
        if isinstance(target, ast.Name):
            self._bind(target.id, kind_thunk)
        elif self.pseudo(target):
            self._bind(self.pseudo(target), kind_thunk)
        elif isinstance(target, (ast.Tuple, ast.List)):
            n = len(target.elts)
            for i, t in enumerate(target.elts):
                if isinstance(t, ast.Starred):
                    self._bind_target(t.value, lambda: None)
                    continue

                def part(i=i, n=n):
                    k = kind_thunk()
                    if isinstance(k, tuple) and k[0] == "tup":
                        return k[1][i] if len(k[1]) == n else None
                    if isinstance(k, tuple) and k[0] == "row":
                        return V
                    if isinstance(k, tuple) and k[0] == "seq":
                        return k[1]
                    return None
                self._bind_target(t, part)
        # subscript / other attribute stores bind nothing

    def _collect(self, body):
        for st in au.stmts(body):
            if isinstance(st, ast.Assign):
                pairs = list(sym.split_assign(st))
                if pairs and len(st.targets) == 1 and isinstance(st.targets[0], (ast.Tuple, ast.List)):
                    for name, v in pairs:
                        self._bind(name, lambda v=v: self.kind(v))
                else:
                    for t in st.targets:
                        self._bind_target(t, lambda v=st.value: self.kind(v))
            elif isinstance(st, ast.AnnAssign):
                if st.value is not None:
                    self._bind_target(st.target, lambda v=st.value: self.kind(v))
                else:
                    self._bind_target(st.target, lambda: None)
            elif isinstance(st, ast.AugAssign):
                if isinstance(st.target, ast.Name):
                    # x += 1 keeps a corner a corner; anything else: unknown
                    self._bind(st.target.id, lambda st=st: self.kind(
                        ast.BinOp(left=ast.Name(id=st.target.id, ctx=ast.Load()), op=st.op, right=st.value)))
                elif self.pseudo(st.target):
                    self._bind(self.pseudo(st.target), lambda: None)
            elif isinstance(st, (ast.For, ast.AsyncFor)):
                self._bind_target(st.target, lambda it=st.iter: iter_elem(self.kind(it)))
            elif isinstance(st, (ast.With, ast.AsyncWith)):
                for it in st.items:
                    if it.optional_vars is not None:
                        self._bind_target(it.optional_vars, lambda: None)
            elif isinstance(st, ast.Try):
                for h in st.handlers:
                    if h.name:
                        self._bind(h.name, lambda: None)
            elif isinstance(st, (ast.Import, ast.ImportFrom)):
                for al in st.names:
                    self._bind((al.asname or al.name).split(".")[0], lambda: None)
            elif isinstance(st, (ast.FunctionDef, ast.AsyncFunctionDef, ast.ClassDef)):
                self._bind(st.name, lambda: None)
        for n in au.walk(self.fn):
            if isinstance(n, ast.NamedExpr):
                self._bind(n.target.id, lambda: None)
            if isinstance(n, ast.Call) and isinstance(n.func, ast.Attribute) and n.func.attr in ("add", "append") \
                    and len(n.args) == 1:
                key = n.func.value.id if isinstance(n.func.value, ast.Name) else self.pseudo(n.func.value)
                if key:
                    self.adders.setdefault(key, []).append(n.args[0])
            if isinstance(n, ast.Call) and isinstance(n.func, ast.Attribute) and isinstance(n.func.value, ast.Name) \
                    and n.func.attr in ("extend", "update", "insert", "remove", "pop", "clear", "discard"):
                self._bind(n.func.value.id, lambda: None)   # other mutations: give up on that collection

    # ------------------------------------------------------------------ names
    def name_kind(self, name):
        if name in self.memo:
            return self.memo[name]
        if name in self.busy:
            return ANY            # self reference (near = near | new): neutral
        if name not in self.bindings:
            return None
        self.busy.add(name)
        try:
            k = ANY
            for th in self.bindings[name]:
                k = join(k, th())
                if k is None:
                    break
            if isinstance(k, tuple) and k[0] == "seq" and name in self.adders:
                e = k[1]
                for a in self.adders[name]:
                    e = join(e, self._adder_kind(a, name))
                    if e is None:
                        break
                k = None if e is None else ("seq", e)
            elif name in self.adders and k is not None and not (isinstance(k, tuple) and k[0] == "seq"):
                pass
        finally:
            self.busy.discard(name)
        if k == ANY:
            k = None
        if not self.busy:          # only cache results computed outside a recursion
            self.memo[name] = k
        return k

    def _adder_kind(self, arg, name):
        return self.kind(arg, self._scope_of(arg))

    # ------------------------------------------------------------------ comprehension scopes
    def _scope_of(self, node):
        """kinds of the comprehension variables visible at `node` (innermost last)"""
        path = [node]
        for a in au.ancestors(node):
            path.append(a)
            if isinstance(a, (ast.FunctionDef, ast.AsyncFunctionDef)):
                break
        chain = []      # (comprehension, visible generators), innermost first
        for p, a in enumerate(path):
            if p == 0 or not isinstance(a, (ast.ListComp, ast.SetComp, ast.GeneratorExp, ast.DictComp)):
                continue
            child = path[p - 1]
            gens = a.generators
            if isinstance(child, ast.comprehension):
                i = [id(g) for g in gens].index(id(child))
                sub = path[p - 2] if p >= 2 else None
                in_ifs = sub is not None and any(sub is t for t in child.ifs)
                gens = gens[:i + 1] if in_ifs else gens[:i]
            chain.append((a, gens))
        scope = {}
        for comp, gens in reversed(chain):
            for g in gens:
                ek = iter_elem(self.kind(g.iter, dict(scope)))
                self._bind_scope(scope, g.target, ek)
        return scope

    def _bind_scope(self, scope, target, k):
        if isinstance(target, ast.Name):
            scope[target.id] = k
        elif isinstance(target, (ast.Tuple, ast.List)):
            for i, t in enumerate(target.elts):
                if isinstance(k, tuple) and k[0] == "tup" and len(k[1]) == len(target.elts):
                    self._bind_scope(scope, t, k[1][i])
                elif isinstance(k, tuple) and k[0] == "row":
                    self._bind_scope(scope, t, V)
                elif isinstance(k, tuple) and k[0] == "seq":
                    self._bind_scope(scope, t, k[1])
                else:
                    self._bind_scope(scope, t, None)

    # ------------------------------------------------------------------ expressions
    def is_mesh(self, e):
        if isinstance(e, ast.Name):
            return e.id in self.mesh_params
        return au.is_self_attr(e, "mesh")

    def kind(self, e, scope=None):
        scope = scope or {}
        if isinstance(e, ast.Name):
            if e.id in scope:
                return scope[e.id]
            return self.name_kind(e.id)
        if isinstance(e, ast.Attribute):
            if self.is_mesh(e.value):
                if e.attr in CONTAINERS:
                    return ("cont", e.attr)
                if e.attr in ID_PROPS:
                    return seq(ID_PROPS[e.attr])
                return None
            p = self.pseudo(e)
            if p:
                return self.name_kind(p)
            return None
        if isinstance(e, ast.Starred):
            return None
        if isinstance(e, ast.Constant) and e.value is None:
            return ANY          # `x = None` placeholder: neutral for the agreement of the other bindings
        if isinstance(e, (ast.Tuple, ast.List)):
            if any(isinstance(x, ast.Starred) for x in e.elts):
                return None
            if not e.elts:
                return seq(ANY)
            return ("tup", tuple(self.kind(x, scope) for x in e.elts))
        if isinstance(e, ast.Set):
            k = ANY
            for x in e.elts:
                k = join(k, self.kind(x, scope))
            return None if k is None else seq(k)
        if isinstance(e, ast.IfExp):
            return join(self.kind(e.body, scope), self.kind(e.orelse, scope))
        if isinstance(e, (ast.ListComp, ast.SetComp, ast.GeneratorExp)):
            sc = dict(scope)
            for g in e.generators:
                self._bind_scope(sc, g.target, iter_elem(self.kind(g.iter, sc)))
            k = self.kind(e.elt, sc)
            return None if k is None else seq(k)
        if isinstance(e, ast.Subscript):
            return self._subscript(e, scope)
        if isinstance(e, ast.BinOp):
            return self._binop(e, scope)
        if isinstance(e, ast.Call):
            return self._call(e, scope)
        return None

    def _subscript(self, e, scope):
        b = self.kind(e.value, scope)
        if not isinstance(b, tuple):
            return None
        is_slice = isinstance(e.slice, ast.Slice)
        if b[0] == "cont":
            return None if is_slice or isinstance(e.slice, ast.Tuple) else elem_kind(b[1])
        if b[0] == "row":
            return b if is_slice else V
        if b[0] == "seq":
            return b if is_slice else b[1]
        if b[0] == "tup":
            if is_slice:
                lo = au.const(e.slice.lower, 0) if e.slice.lower is not None else 0
                hi = au.const(e.slice.upper, None) if e.slice.upper is not None else len(b[1])
                if isinstance(lo, int) and isinstance(hi, int) and e.slice.step is None:
                    return ("tup", b[1][lo:hi])
                return None
            i = au.const(e.slice)
            if isinstance(i, int) and -len(b[1]) <= i < len(b[1]):
                return b[1][i]
            return iter_elem(b)
        return None

    def _binop(self, e, scope):
        l, r = self.kind(e.left, scope), self.kind(e.right, scope)

        def intlike(x, k):
            return k == LOCAL or (isinstance(x, ast.Constant) and isinstance(x.value, int) and not isinstance(x.value, bool))
        if isinstance(e.op, (ast.Add, ast.Sub)):
            if l == CN and intlike(e.right, r):
                return CN
            if r == CN and intlike(e.left, l) and isinstance(e.op, ast.Add):
                return CN
            return None
        if isinstance(e.op, ast.Mult):
            # 3*f : first corner of triangle f (callers check the is_triangular gate separately)
            if l == F and au.const(e.right) == 3:
                return CN
            if r == F and au.const(e.left) == 3:
                return CN
        if isinstance(e.op, (ast.Div, ast.Mult)):
            # 1/A, 2*A on an array: element-wise, same indexing
            if (isinstance(r, tuple) and r[0] == "idx" or r == ANY) and isinstance(e.left, ast.Constant):
                return r
            if (isinstance(l, tuple) and l[0] == "idx" or l == ANY) and isinstance(e.right, ast.Constant):
                return l
        if isinstance(e.op, (ast.BitOr, ast.BitAnd)):
            if isinstance(l, tuple) and l[0] == "seq" or isinstance(r, tuple) and r[0] == "seq" or l == ANY or r == ANY:
                return join(l, r)
        return None

    def _len_kind(self, e, scope):
        k = self.kind(e, scope)
        return k[1] if isinstance(k, tuple) and k[0] == "len" else None

    def _call(self, e, scope):
        tail = au.call_tail(e)
        f = e.func
        if isinstance(f, ast.Name):
            if tail == "len" and len(e.args) == 1:
                k = index_kind(self.kind(e.args[0], scope))
                return ("len", k) if k else None
            if tail == "range" and len(e.args) == 1:
                k = self._len_kind(e.args[0], scope)
                return seq(k) if k else None
            if tail == "enumerate" and len(e.args) == 1:
                k = self.kind(e.args[0], scope)
                ek = iter_elem(k)
                ik = k[1] if isinstance(k, tuple) and k[0] == "cont" else (LOCAL if isinstance(k, tuple) and k[0] == "row" else None)
                return seq(tup(ik, ek))
            if tail in ("list", "set", "sorted", "tuple", "reversed", "frozenset"):
                if not e.args:
                    return seq(ANY)
                k = self.kind(e.args[0], scope)
                if isinstance(k, tuple) and k[0] == "row" and tail in ("list", "tuple"):
                    return k
                ek = iter_elem(k)
                return seq(ek) if ek is not None else None
            if tail == "ArrayAttribute" and len(e.args) >= 2:
                k = self._len_kind(e.args[1], scope)
                return ("idx", k) if k else None
            if tail == "Attribute":
                return ("idx", ANY)
            if tail == "dict" and not e.args:
                return None
            ak = self.attr_func_kind(e)
            if ak:
                return ("idx", ak)
            return None
        if isinstance(f, ast.Attribute):
            recv = f.value
            # element-wise numpy functions keep the indexing of their argument
            if isinstance(recv, ast.Name) and recv.id in ("np", "numpy") and tail in ("sqrt", "abs", "asarray", "array", "copy") \
                    and len(e.args) >= 1:
                k = self.kind(e.args[0], scope)
                return k if (isinstance(k, tuple) and k[0] == "idx") or k == ANY else None
            if tail == "lil_matrix" and e.args and isinstance(e.args[0], ast.Tuple) and len(e.args[0].elts) == 2:
                ks = tuple(self._len_kind(x, scope) for x in e.args[0].elts)
                return ("mat", ks) if any(ks) else None
            # numpy allocations sized by a container length
            if isinstance(recv, ast.Name) and recv.id in ("np", "numpy") and tail in ("zeros", "ones", "empty", "full") and e.args:
                a0 = e.args[0]
                if isinstance(a0, (ast.Tuple, ast.List)) and a0.elts:
                    a0 = a0.elts[0]
                k = self._len_kind(a0, scope)
                return ("idx", k) if k else None
            # container methods
            rk = self.kind(recv, scope)
            if isinstance(rk, tuple) and rk[0] == "cont":
                if tail in ("create_attribute", "get_attribute"):
                    return ("idx", rk[1])
                if tail == "adj" and rk[1] == "face_corners":
                    return F
                return None
            if tail in ("as_array",) and (isinstance(rk, tuple) and rk[0] == "idx" or rk == ANY):
                return rk
            if tail == "copy" and rk is not None:
                return rk
            # connectivity
            if isinstance(recv, ast.Attribute) and recv.attr == "connectivity" and self.is_mesh(recv.value):
                spec = CONNECTIVITY.get(tail)
                if spec is None:
                    return None
                if tail == "direct_face" and (len(e.args) >= 3 or any(k.arg == "return_inds" for k in e.keywords)):
                    flag = e.args[2] if len(e.args) >= 3 else [k.value for k in e.keywords if k.arg == "return_inds"][0]
                    if au.const(flag) is True:
                        return tup(F, LOCAL, LOCAL)
                    if au.const(flag) is False:
                        return F
                    return None
                if tail == "opposite_face" and (len(e.args) >= 4 or e.keywords):
                    return None
                return spec[1]
            ak = self.attr_func_kind(e)
            if ak:
                return ("idx", ak)
        return None

    # ------------------------------------------------------------------ the checks
    def obligations(self):
        """Yield (node, what, expected_kind, found_kind) for every place where both the kind an
        index must have and the kind it has are known."""
        for n in au.walk(self.fn):
            sc = None
            if isinstance(n, ast.Subscript) and not isinstance(n.slice, ast.Slice):
                sc = self._scope_of(n)
                want = index_kind(self.kind(n.value, sc))
                idx = n.slice.elts[0] if isinstance(n.slice, ast.Tuple) and n.slice.elts else n.slice
                if want and not isinstance(idx, ast.Slice):
                    got = self.kind(idx, sc)
                    if isinstance(got, str) and got in CONTAINERS + (LOCAL,):
                        yield n, f"`{au.src(n)}`: `{au.src(n.value)}` is indexed by {want}", want, got
                bk = self.kind(n.value, sc)
                if isinstance(bk, tuple) and bk[0] == "mat" and isinstance(n.slice, ast.Tuple) and len(n.slice.elts) == 2:
                    for axis, (ix, want) in enumerate(zip(n.slice.elts, bk[1])):
                        got = self.kind(ix, sc)
                        if want and isinstance(got, str) and got in CONTAINERS + (LOCAL,):
                            yield n, (f"`{au.src(n)}`: axis {axis} of `{au.src(n.value)}` has one line per element of "
                                      f"{want}"), want, got
            if isinstance(n, ast.Call) and isinstance(n.func, ast.Attribute):
                recv, tail = n.func.value, n.func.attr
                spec = None
                if isinstance(recv, ast.Attribute) and recv.attr == "connectivity" and self.is_mesh(recv.value):
                    spec = CONNECTIVITY.get(tail)
                elif self.is_mesh(recv):
                    spec = MESH_METHODS.get(tail)
                elif tail == "adj" and self.kind(recv, self._scope_of(n)) == ("cont", "face_corners"):
                    spec = ((CN,), F)
                if spec is None or any(isinstance(a, ast.Starred) for a in n.args):
                    continue
                sc = self._scope_of(n)
                for i, (a, want) in enumerate(zip(n.args, spec[0])):
                    got = self.kind(a, sc)
                    if want and isinstance(got, str) and got in CONTAINERS + (LOCAL,):
                        yield a, f"argument {i + 1} of `{tail}` in `{au.src(n)}` must be an index of {want}", want, got


def attr_container_of(fn, mesh_names=("mesh",)):
    """Container K on which an attribute-building function creates its attribute
    (all `mesh.K.create_attribute(...)` calls agree), else None."""
    ks = set()
    for c in au.calls(fn):
        if au.call_tail(c) == "create_attribute" and isinstance(c.func, ast.Attribute):
            ch = au.chain(c.func.value)
            if ch and len(ch) >= 2 and ch[-1] in CONTAINERS:
                ks.add(ch[-1])
    return ks.pop() if len(ks) == 1 else None


def make_attr_func_kind(repo, modname):
    """callee resolver: a call to a function of mouette.attributes.* -> container of the attribute it returns"""
    cache = {}

    def resolve(call):
        f = call.func
        target = None
        if isinstance(f, ast.Name):
            target = repo.resolve_func(modname, f.id)
        elif isinstance(f, ast.Attribute) and isinstance(f.value, ast.Name):
            r = repo.resolve(modname, f.value.id)
            if r and r[0] == "module" and r[1] in repo.modules:
                target = repo.resolve_func(r[1], f.attr)
        if not target or target[1] is None:
            return None
        m, fn = target
        if not m.name.startswith("mouette.attributes"):
            return None
        key = (m.name, fn.name)
        if key not in cache:
            k = attr_container_of(fn)
            if k is None:
                try:        # the constructor may sit in a helper: read the view of the function
                    k = attr_container_of(he_norm.view(repo, m.name, fn))
                except Exception:
                    k = None
            cache[key] = k
        return cache[key]
    return resolve


# --------------------------------------------------------------------------- factor forms
def factors(e):
    """Multiplicative normal form of a term: (sign, [numerator factors], [denominator factors]) with
    numeric constants folded into a Fraction coefficient: returns (coef, num, den)."""
    coef = Fraction(1)
    num, den = [], []

    def rec(x, inv):
        nonlocal coef
        if isinstance(x, ast.UnaryOp) and isinstance(x.op, ast.USub):
            coef = -coef
            rec(x.operand, inv)
        elif isinstance(x, ast.UnaryOp) and isinstance(x.op, ast.UAdd):
            rec(x.operand, inv)
        elif isinstance(x, ast.BinOp) and isinstance(x.op, ast.Mult):
            rec(x.left, inv)
            rec(x.right, inv)
        elif isinstance(x, ast.BinOp) and isinstance(x.op, ast.Div):
            rec(x.left, inv)
            rec(x.right, not inv)
        elif isinstance(x, ast.Constant) and isinstance(x.value, (int, float)) and not isinstance(x.value, bool):
            if x.value == 0:
                coef = Fraction(0)
            else:
                c = Fraction(x.value).limit_denominator(10 ** 9)
                coef = coef / c if inv else coef * c
        else:
            (den if inv else num).append(x)
    rec(e, False)
    return coef, num, den


def factor_key(num, den):
    return (tuple(sorted(au.norm(x) for x in num)), tuple(sorted(au.norm(x) for x in den)))


def additive_terms(e):
    """flatten a +/- expression into [(sign, term)]"""
    out = []

    def rec(x, s):
        if isinstance(x, ast.BinOp) and isinstance(x.op, ast.Add):
            rec(x.left, s)
            rec(x.right, s)
        elif isinstance(x, ast.BinOp) and isinstance(x.op, ast.Sub):
            rec(x.left, s)
            rec(x.right, -s)
        elif isinstance(x, ast.UnaryOp) and isinstance(x.op, ast.USub):
            rec(x.operand, -s)
        else:
            out.append((s, x))
    rec(e, 1)
    return out


def rename(expr, mapping):
    """rename Names (both Load and Store) according to mapping name->name"""
    e = copy.deepcopy(expr)
    for n in ast.walk(e):
        if isinstance(n, ast.Name) and n.id in mapping:
            n.id = mapping[n.id]
    return e


# --------------------------------------------------------------------------- stencils
class Emit:
    """one matrix entry emitted by the assembly code"""
    __slots__ = ("row", "col", "val", "mode", "node", "slot")

    def __init__(self, row, col, val, mode, node, slot=None):
        self.row, self.col, self.val, self.mode, self.node, self.slot = row, col, val, mode, node, slot

    def __repr__(self):
        return f"({au.src(self.row)}, {au.src(self.col)}) {self.mode} {au.src(self.val)}"


def coo_arrays(fn):
    """(data, rows, cols) array names from the sparse constructor `sp.xxx_matrix((data, (rows, cols)), ...)`;
    also returns the constructor call."""
    for c in au.calls(fn):
        if au.call_tail(c) in ("csc_matrix", "csr_matrix", "coo_matrix", "lil_matrix") and c.args \
                and isinstance(c.args[0], ast.Tuple) and len(c.args[0].elts) == 2 \
                and isinstance(c.args[0].elts[1], ast.Tuple) and len(c.args[0].elts[1].elts) == 2:
            d, (r, cc) = c.args[0].elts[0], c.args[0].elts[1].elts
            if all(isinstance(x, ast.Name) for x in (d, r, cc)):
                return (d.id, r.id, cc.id), c
    return None, None


def lil_names(fn):
    """names bound to `sp.lil_matrix(...)`"""
    out = set()
    for st in au.stmts(fn.body):
        if isinstance(st, ast.Assign) and isinstance(st.value, ast.Call) and au.call_tail(st.value) == "lil_matrix":
            for t in st.targets:
                if isinstance(t, ast.Name):
                    out.add(t.id)
    return out


def add_helper(fn, arrays):
    """local `def add(k, i, j, x): data[k] = x; rows[k] = i; cols[k] = j; return k+1`
    -> (name, role->param index, slot param index) or None"""
    if not arrays:
        return None
    d, r, c = arrays
    for st in fn.body:
        if isinstance(st, ast.FunctionDef):
            ps = au.params(st)
            role = {}
            slot = None
            for s in au.stmts(st.body):
                if isinstance(s, ast.Assign) and len(s.targets) == 1 and isinstance(s.targets[0], ast.Subscript) \
                        and isinstance(s.targets[0].value, ast.Name) and isinstance(s.value, ast.Name) \
                        and isinstance(s.targets[0].slice, ast.Name):
                    arr = s.targets[0].value.id
                    if arr in (d, r, c) and s.value.id in ps and s.targets[0].slice.id in ps:
                        role[{d: "val", r: "row", c: "col"}[arr]] = ps.index(s.value.id)
                        slot = ps.index(s.targets[0].slice.id)
            if set(role) == {"val", "row", "col"}:
                ret = [s for s in au.stmts(st.body) if isinstance(s, ast.Return)]
                bumps = len(ret) == 1 and ret[0].value is not None and \
                    sym.to_poly(ret[0].value) == Poly.atom(ps[slot]) + 1
                return st.name, role, slot, bumps
    return None


class Stencil:
    """Emits of one assembly loop, per control path.

    ``paths(loop_body)`` forks at every ``if`` (and at the literal-list ``for (i,j,v) in [..]`` it keeps the
    body symbolic in the loop variables), returning a list of (conditions, [Emit])."""

    def __init__(self, fn):
        self.fn = fn
        self.arrays, self.ctor = coo_arrays(fn)
        self.lils = lil_names(fn)
        self.helper = add_helper(fn, self.arrays)
        self.problems = []       # shape problems of the idiom itself (reported by callers)

    # ---- single statement -> emits
    def emits_of(self, st):
        out = []
        if isinstance(st, ast.Assign) and len(st.targets) == 1:
            t, v = st.targets[0], st.value
            # idiom 1: rows[k], cols[k], vals[k] (, k) = i, j, x (, k+1)
            if self.arrays and isinstance(t, ast.Tuple) and isinstance(v, ast.Tuple) and len(t.elts) == len(v.elts):
                d, r, c = self.arrays
                got = {}
                slots = []
                for a, b in zip(t.elts, v.elts):
                    if isinstance(a, ast.Subscript) and isinstance(a.value, ast.Name) and a.value.id in (d, r, c):
                        got[{d: "val", r: "row", c: "col"}[a.value.id]] = b
                        slots.append(a.slice)
                if got:
                    if set(got) != {"val", "row", "col"}:
                        self.problems.append((st, "parallel store does not fill rows, cols and values together"))
                    elif not all(au.same(s, slots[0]) for s in slots):
                        self.problems.append((st, "rows / cols / values of one entry are stored at different slots"))
                    else:
                        em = Emit(got["row"], got["col"], got["val"], "coo", st, slots[0])
                        # running counter: the slot variable must be advanced by one in the same statement
                        if isinstance(slots[0], ast.Name):
                            adv = [b for a, b in zip(t.elts, v.elts) if isinstance(a, ast.Name) and a.id == slots[0].id]
                            if not adv or not (sym.to_poly(adv[0]) == Poly.atom(slots[0].id) + 1):
                                nxt = self._next_stmt_bumps(st, slots[0].id)
                                if not nxt:
                                    self.problems.append((st, f"slot counter {slots[0].id} is not advanced by one after the entry"))
                        out.append(em)
            # idiom 2: k = add(k, i, j, x)
            if self.helper and isinstance(v, ast.Call) and isinstance(v.func, ast.Name) and v.func.id == self.helper[0]:
                name, role, slot, bumps = self.helper
                if len(v.args) == 4 and not v.keywords:
                    em = Emit(v.args[role["row"]], v.args[role["col"]], v.args[role["val"]], "coo", st, v.args[slot])
                    if not (bumps and isinstance(t, ast.Name) and isinstance(v.args[slot], ast.Name) and t.id == v.args[slot].id):
                        self.problems.append((st, "slot counter is not rebound to the value returned by the add helper"))
                    out.append(em)
            # idiom 3: lil[i, j] = x
            if isinstance(t, ast.Subscript) and isinstance(t.value, ast.Name) and t.value.id in self.lils \
                    and isinstance(t.slice, ast.Tuple) and len(t.slice.elts) == 2:
                out.append(Emit(t.slice.elts[0], t.slice.elts[1], v, "set", st))
        elif isinstance(st, ast.AugAssign) and isinstance(st.target, ast.Subscript) \
                and isinstance(st.target.value, ast.Name) and st.target.value.id in self.lils \
                and isinstance(st.target.slice, ast.Tuple) and len(st.target.slice.elts) == 2 \
                and isinstance(st.op, (ast.Add, ast.Sub)):
            v = st.value if isinstance(st.op, ast.Add) else ast.UnaryOp(op=ast.USub(), operand=st.value)
            out.append(Emit(st.target.slice.elts[0], st.target.slice.elts[1], v, "add", st))
        elif isinstance(st, ast.Expr) and self.helper and isinstance(st.value, ast.Call) \
                and isinstance(st.value.func, ast.Name) and st.value.func.id == self.helper[0]:
            self.problems.append((st, "result of the add helper (next free slot) is discarded"))
        return out

    def _next_stmt_bumps(self, st, name):
        blk, _ = au.enclosing_block(st)
        if not blk:
            return False
        i = [id(x) for x in blk].index(id(st))
        if i + 1 < len(blk):
            n = blk[i + 1]
            if isinstance(n, ast.AugAssign) and isinstance(n.target, ast.Name) and n.target.id == name \
                    and isinstance(n.op, ast.Add) and au.const(n.value) == 1:
                return True
            if isinstance(n, ast.Assign) and len(n.targets) == 1 and isinstance(n.targets[0], ast.Name) \
                    and n.targets[0].id == name and sym.to_poly(n.value) == Poly.atom(name) + 1:
                return True
        return False

    # ---- paths
    def paths(self, body):
        """all control paths through `body` (forking at if / if-expressions are left opaque); inner
        `for` loops are kept as a nested ('loop', For, paths) item so callers can treat neighbour loops."""
        results = [([], [])]     # (conditions, items)
        for st in body:
            new = []
            for conds, items in results:
                if items and items[-1] == "STOP":
                    new.append((conds, items))
                    continue
                if isinstance(st, ast.If):
                    for branch, pol in ((st.body, True), (st.orelse, False)):
                        for c2, i2 in self.paths(branch):
                            new.append((conds + [(st.test, pol)] + c2, items + i2))
                elif isinstance(st, (ast.For, ast.While)):
                    sub = self.paths(st.body)
                    new.append((conds, items + [("loop", st, sub)]))
                elif isinstance(st, (ast.Continue, ast.Break, ast.Return, ast.Raise)):
                    new.append((conds, items + ["STOP"]))
                else:
                    new.append((conds, items + self.emits_of(st)))
            results = new
        return results


def consistent(conds):
    """drop paths that take both polarities of the same test"""
    seen = {}
    for t, pol in conds:
        k = au.norm(t)
        if k in seen and seen[k] != pol:
            return False
        seen[k] = pol
    return True


def flat_emits(items):
    return [x for x in items if isinstance(x, Emit)]


def value_poly(e, binds=None, at=None, atom_of=None):
    return sym.to_poly(e, atom_of=atom_of)


# --------------------------------------------------------------------------- both sides of an edge
def _none_test_names(test):
    """names compared with None (is / is not / == / !=) anywhere in a test"""
    out = set()
    for n in ast.walk(test):
        if isinstance(n, ast.Compare) and len(n.ops) == 1 and isinstance(n.comparators[0], ast.Constant) \
                and n.comparators[0].value is None and isinstance(n.left, ast.Name):
            out.add(n.left.id)
    return out


def _nearest_loop(node):
    for a in au.ancestors(node):
        if isinstance(a, (ast.For, ast.While)):
            return a
        if isinstance(a, (ast.FunctionDef, ast.AsyncFunctionDef)):
            return None
    return None


# connectivity queries that answer for ONE side of an edge (the face / corner of the half-edge (u, v)) and return None when that side is the border
SIDE_QUERIES = {"direct_face", "half_edge_to_corner"}


def edge_side_sites(fn):
    """Per-edge loops that visit the faces on the two sides of an edge.  Returns a list of dicts
    {loop, ends, kind ('direct'|'e2f'), sides, problems[(node, text)]}."""
    out = []
    for loop in [s for s in au.stmts(fn.body) if isinstance(s, ast.For)]:
        it = loop.iter
        if not (isinstance(it, ast.Call) and au.call_tail(it) == "enumerate" and it.args and au.chain(it.args[0])
                and au.chain(it.args[0])[-1] == "edges" and isinstance(loop.target, ast.Tuple) and len(loop.target.elts) == 2
                and isinstance(loop.target.elts[1], (ast.Tuple, ast.List)) and len(loop.target.elts[1].elts) == 2
                and all(isinstance(x, ast.Name) for x in loop.target.elts[1].elts)):
            continue
        A, B = (x.id for x in loop.target.elts[1].elts)
        body = list(au.stmts(loop.body))
        side_loops, queries = [], []       # queries: (stmt, call, [(u, v), ...], face var)
        for st in body:
            if isinstance(st, ast.For) and isinstance(st.iter, ast.Call) and au.call_tail(st.iter) == "edge_to_faces" \
                    and {au.src(a) for a in st.iter.args[:2]} == {A, B}:
                side_loops.append(st)
        for st in body:
            for c in au.calls(st) if not isinstance(st, (ast.For, ast.While, ast.If)) else []:
                if au.call_tail(c) not in SIDE_QUERIES or len(c.args) < 2:
                    continue
                args = [au.src(a) for a in c.args[:2]]
                sides = None
                if set(args) == {A, B}:
                    sides = [tuple(args)]
                else:
                    for lp in [a for a in au.ancestors(st) if isinstance(a, ast.For) and a is not loop]:
                        if isinstance(lp.target, (ast.Tuple, ast.List)) and len(lp.target.elts) == 2 \
                                and isinstance(lp.iter, (ast.Tuple, ast.List)) \
                                and all(isinstance(x, (ast.Tuple, ast.List)) and len(x.elts) == 2 for x in lp.iter.elts):
                            tn = [au.src(x) for x in lp.target.elts]
                            if set(args) == set(tn):
                                perm = [tn.index(a) for a in args]
                                sides = [tuple(au.src(x.elts[i]) for i in perm) for x in lp.iter.elts]
                                if lp not in side_loops:
                                    side_loops.append(lp)
                if sides is None:
                    continue
                fv = None
                if isinstance(st, ast.Assign) and st.value is c:
                    t = st.targets[0]
                    fv = t.id if isinstance(t, ast.Name) else (t.elts[0].id if isinstance(t, ast.Tuple) and t.elts and isinstance(t.elts[0], ast.Name) else None)
                queries.append((st, c, sides, fv))
        if not queries and not side_loops:
            continue
        problems = []
        if queries:
            got = {s for q in queries for s in q[2]}
            if got != {(A, B), (B, A)}:
                qn = au.call_tail(queries[0][1])
                problems.append((queries[0][1], f"the faces of edge ({A}, {B}) are queried on the side(s) {sorted(got)} only: both {qn}({A}, {B}) "
                                                f"and {qn}({B}, {A}) must contribute (a side reached only through the other one is lost when that one is the border)"))
        for st in body:
            if isinstance(st, ast.Return):
                problems.append((st, "a `return` inside the per-edge loop abandons the remaining sides / edges"))
            if isinstance(st, ast.Break):
                nl = _nearest_loop(st)
                if nl is loop or any(nl is s for s in side_loops):
                    problems.append((st, "a `break` leaves the loop over the sides of the edge: when the face on one side is absent the face "
                                         "on the other side is never visited"))
            if isinstance(st, ast.Continue) and _nearest_loop(st) is loop and queries:
                tested = set()
                for t, pol in au.guards(st, stop=loop):
                    tested |= _none_test_names(t)
                later = [q for q in queries if q[0].lineno > st.lineno]
                if later and tested & {q[3] for q in queries if q[3]}:
                    problems.append((st, "a `continue` taken when one side has no face skips the query of the other side"))
        fvs = {q[3] for q in queries if q[3]}
        for st, c, sides, fv in queries:
            if any(st is s or any(st is x for x in au.stmts(sl.body)) for sl in side_loops for s in [sl]):
                continue     # inside a loop over the sides: each iteration handles its own face
            for t, pol in au.guards(st, stop=loop):
                if _none_test_names(t) & fvs:
                    problems.append((st, f"the query of side {sides[0]} is nested under a test on the face of the other side"))
        out.append({"loop": loop, "ends": (A, B), "kind": "direct" if queries else "e2f", "problems": problems,
                    "n_queries": len(queries), "side_loops": side_loops})
    return out


# --------------------------------------------------------------------------- physical degree (power of a length)
ZERO_DEG = {"angle_3pts", "cotan", "signed_angle_2vec3D", "signed_angle_3pts", "angle_2vec2D", "angle_2vec3D", "atan2", "arctan2",
            "aspect_ratio", "len", "normalized", "sign", "sign0", "cos", "sin", "tan", "phase"}


class Degrees:
    """degree in `length` of an expression built from mesh.vertices[...] (1), cross / dot (sum), norm (same), normalized (0) ...
    None = unknown (nothing is decided on it)."""

    def __init__(self, fn):
        self.b = sym.Bindings(fn)
        self.fn = fn
        # names unpacked from a generator / comprehension: `pA, pB, pC = (mesh.vertices[u] for u in T[:3])`
        self.unpacked = {}
        for st in au.stmts(fn.body):
            if isinstance(st, ast.Assign) and len(st.targets) == 1 and isinstance(st.targets[0], (ast.Tuple, ast.List)) \
                    and isinstance(st.value, (ast.GeneratorExp, ast.ListComp)):
                for t in st.targets[0].elts:
                    if isinstance(t, ast.Name):
                        self.unpacked.setdefault(t.id, []).append(st.value.elt)
        self.nbind = {}
        for st in au.stmts(fn.body):
            for t in au.assign_targets(st):
                for nm in au.assigned_names(t):
                    self.nbind[nm] = self.nbind.get(nm, 0) + 1
            if isinstance(st, ast.For):
                for nm in au.assigned_names(st.target):
                    self.nbind[nm] = self.nbind.get(nm, 0) + 1

    def deg(self, e, at):
        return self._d(self.b.resolve(e, at=at), at, 0)

    def _join(self, ds):
        ds = [d for d in ds]
        if not ds or any(d is None for d in ds):
            return None
        return ds[0] if all(d == ds[0] for d in ds) else None

    def _d(self, e, at, depth):
        if depth > 40:
            return None
        d = lambda x: self._d(x, at, depth + 1)
        if isinstance(e, ast.Constant):
            return "const" if isinstance(e.value, (int, float)) and not isinstance(e.value, bool) else None
        if isinstance(e, ast.Name):
            elts = self.unpacked.get(e.id)
            if elts and self.nbind.get(e.id, 0) == len(elts):
                return self._join([d(x) for x in elts])
            return None
        if isinstance(e, ast.Subscript):
            ch = au.chain(e.value)
            if ch and ch[-1] == "vertices" and not isinstance(e.slice, ast.Slice):
                return 1
            if isinstance(e.slice, ast.Slice) or isinstance(e.slice, (ast.Constant, ast.BinOp, ast.Name)):
                base = d(e.value)           # component / element of a vector or of a list of points
                return base if isinstance(base, (int, float)) and not isinstance(e.value, ast.Name) else None
            return None
        if isinstance(e, ast.Starred):
            return d(e.value)
        if isinstance(e, (ast.ListComp, ast.GeneratorExp)):
            return d(e.elt)
        if isinstance(e, (ast.List, ast.Tuple)):
            return self._join([d(x) for x in e.elts]) if e.elts else None
        if isinstance(e, ast.UnaryOp):
            return d(e.operand)
        if isinstance(e, ast.BinOp):
            l, r = d(e.left), d(e.right)
            if isinstance(e.op, (ast.Add, ast.Sub)):
                if l == "const":
                    return r if r != "const" else "const"
                if r == "const":
                    return l
                return l if l is not None and l == r else None
            if isinstance(e.op, ast.Mult):
                if l == "const":
                    return r
                if r == "const":
                    return l
                return l + r if l is not None and r is not None else None
            if isinstance(e.op, ast.Div):
                if r == "const":
                    return l
                if l == "const":
                    return -r if r is not None else None
                return l - r if l is not None and r is not None else None
            if isinstance(e.op, ast.Pow) and isinstance(e.right, ast.Constant) and isinstance(e.right.value, (int, float)):
                return l * e.right.value if isinstance(l, (int, float)) else l
            return None
        if isinstance(e, ast.Call):
            tail = au.call_tail(e)
            args = e.args
            recv = e.func.value if isinstance(e.func, ast.Attribute) else None
            if tail in ZERO_DEG:
                return 0
            if tail in ("Vec", "array", "asarray", "abs", "fabs", "float") and len(args) == 1:
                return d(args[0])
            if tail == "norm":
                if args:
                    return d(args[0])
                return d(recv) if recv is not None else None
            if tail in ("distance",) and len(args) >= 2:
                return self._join([d(args[0]), d(args[1])])
            if tail in ("cross", "dot", "det_2x2", "outer") and len(args) == 2:
                a, c = d(args[0]), d(args[1])
                return a + c if isinstance(a, (int, float)) and isinstance(c, (int, float)) else None
            if tail == "dot" and len(args) == 1 and recv is not None:
                a, c = d(recv), d(args[0])
                return a + c if isinstance(a, (int, float)) and isinstance(c, (int, float)) else None
            if tail == "det_3x3" and len(args) == 3:
                ds = [d(a) for a in args]
                return sum(ds) if all(isinstance(x, (int, float)) for x in ds) else None
            if tail in ("triangle_area", "quad_area", "triangle_area_2D"):
                ds = [d(a) for a in args]
                j = self._join(ds)
                return 2 * j if isinstance(j, (int, float)) else None
            if tail == "circumcenter":
                return self._join([d(a) for a in args])
            if tail == "sqrt" and len(args) == 1:
                a = d(args[0])
                return a / 2 if isinstance(a, (int, float)) else None
            if tail in ("sum", "max", "min", "amax", "amin", "mean") and args:
                return self._join([d(a) for a in args]) if len(args) > 1 or tail != "sum" else d(args[0])
            return None
        return None


def threshold_compares(fn):
    """(node, dimensional side, literal, degree) for every comparison of an expression of known degree with a non-zero
    numeric literal"""
    from .. import order as _order
    D = Degrees(fn)
    for n in au.walk(fn):
        if not isinstance(n, ast.Compare):
            continue
        seq = [n.left] + list(n.comparators)
        for (l, r), op in zip(zip(seq, seq[1:]), n.ops):
            if not isinstance(op, (ast.Lt, ast.LtE, ast.Gt, ast.GtE, ast.Eq, ast.NotEq)):
                continue
            for expr, lit in ((l, r), (r, l)):
                c = _order.fold_const(lit)
                if c is None or c == 0 or _order.fold_const(expr) is not None:
                    continue
                dg = D.deg(expr, n)
                if isinstance(dg, (int, float)):
                    yield n, expr, c, dg


# --------------------------------------------------------------------------- layout independent helpers (hardening round)
from contextlib import contextmanager
from . import he_norm


def fview(ctx_or_repo, modname, fn, **kw):
    """the view of a function (private helpers inlined, aliases propagated, literal loops unrolled): see he_norm"""
    repo = getattr(ctx_or_repo, "repo", ctx_or_repo)
    m = repo.module(modname)
    return he_norm.view(repo, m.name, fn, **kw)


def facts(node, stop=None, toplevel=True):
    """(test, polarity) that hold when `node` runs: enclosing if / while / conditional expression tests and the negation of earlier
    early exits, `not`s folded"""
    return [au.strip_not(t, p) for t, p in au.conditions(node, stop=stop, toplevel=toplevel)]


def canon_facts(node, stop=None, toplevel=True):
    return {au.canon_test(t, p) for t, p in au.conditions(node, stop=stop, toplevel=toplevel)}


_BIND_CACHE = {}


def _alias_of(test, pol, node):
    """a test on a local that merely copies an option (`use_cotan = cotan`, `flat = not dense`, `inv = bool(inverse)`) is a test on the option"""
    fn = au.enclosing_func(node)
    if fn is None:
        return test, pol
    b = _BIND_CACHE.get(id(fn))
    if b is None or b[0] is not fn:
        b = (fn, sym.Bindings(fn))
        if len(_BIND_CACHE) > 500:
            _BIND_CACHE.clear()
        _BIND_CACHE[id(fn)] = b
    b = b[1]
    for _ in range(3):
        if isinstance(test, ast.Name) and test.id not in au.params(fn) and b.single(test.id):
            d = b.defs[test.id]
            while isinstance(d, ast.Call) and isinstance(d.func, ast.Name) and d.func.id == "bool" and len(d.args) == 1:
                d = d.args[0]
            d, p2 = au.strip_not(d, True)
            if isinstance(d, (ast.Name, ast.Compare, ast.BoolOp)):
                test, pol = d, (pol if p2 else not pol)
                continue
        break
    return test, pol


def flag_polarity(node, name, stop=None):
    """True / False when the boolean option `name` is known to hold / not to hold at node, None otherwise"""
    for t, pol in facts(node, stop=stop):
        t, pol = _alias_of(t, pol, node)
        if isinstance(t, ast.Name) and t.id == name:
            return pol
        if isinstance(t, ast.BoolOp):
            vals = [au.strip_not(v) for v in t.values]
            if isinstance(t.op, ast.And) and pol:
                for v, p in vals:
                    if isinstance(v, ast.Name) and v.id == name:
                        return p
            if isinstance(t.op, ast.Or) and not pol:
                for v, p in vals:
                    if isinstance(v, ast.Name) and v.id == name:
                        return not p
    return None


def param_defaults(fn):
    a = fn.args
    pos = [p.arg for p in a.posonlyargs + a.args]
    out = {}
    for p, d in zip(pos[len(pos) - len(a.defaults):], a.defaults):
        out[p] = d
    for p, d in zip(a.kwonlyargs, a.kw_defaults):
        if d is not None:
            out[p.arg] = d
    return out


@contextmanager
def guarded(ctx, rule, site, what="the rule"):
    """an internal failure of a recogniser on an unforeseen shape is an undecided obligation, never a crash and never an alarm"""
    try:
        yield
    except Exception as e:      # noqa
        from ..core import AnalysisError
        if isinstance(e, AnalysisError):
            raise
        ctx.undecided(rule, site, f"{what}: the construct has a shape the recogniser cannot read ({type(e).__name__})",
                      "the analysis gave up on this obligation")


def load_key(target):
    """structural key of a store target read back as a value (`A[k]` stored == `A[k]` loaded)"""
    return au.norm(target).replace("Store()", "Load()")


def callers_of(repo, modname, name):
    """(function, call) pairs of the module that call the module-level function `name`"""
    m = repo.module(modname)
    out = []
    for q, fn in m.funcs.items():
        for c in au.calls(fn):
            if isinstance(c.func, ast.Name) and c.func.id == name:
                out.append((fn, c))
    return out


def cstr(e):
    """canonical text of an expression: arithmetic is written as the sorted polynomial of its non-arithmetic parts, so that commuted,
    re-associated or algebraically rearranged index / weight expressions get the same text"""
    if isinstance(e, (ast.BinOp, ast.UnaryOp)) or (isinstance(e, ast.Constant) and isinstance(e.value, (int, float)) and not isinstance(e.value, bool)):
        arith = isinstance(e, ast.Constant) or (isinstance(e, ast.UnaryOp) and isinstance(e.op, (ast.USub, ast.UAdd))) \
            or (isinstance(e, ast.BinOp) and isinstance(e.op, (ast.Add, ast.Sub, ast.Mult, ast.Div, ast.Pow)))
        if arith:
            def atom(x):
                if isinstance(x, (ast.BinOp, ast.UnaryOp)) or isinstance(x, ast.Constant):
                    return None
                return cstr(x)
            try:
                return repr(sym.to_poly(e, atom_of=atom, opaque=True))
            except Exception:
                return au.src(e)
    if isinstance(e, ast.Subscript):
        return f"{cstr(e.value)}[{cstr(e.slice)}]"
    if isinstance(e, ast.Attribute):
        return f"{cstr(e.value)}.{e.attr}"
    if isinstance(e, ast.Call):
        args = [cstr(a) for a in e.args] + [f"{k.arg}={cstr(k.value)}" for k in e.keywords]
        return f"{cstr(e.func)}({', '.join(args)})"
    if isinstance(e, ast.Tuple):
        return "(" + ", ".join(cstr(x) for x in e.elts) + ")"
    if isinstance(e, ast.Starred):
        return "*" + cstr(e.value)
    return au.src(e)
