"""hf_roles - role-based views of a flattened function (group F: C09 / C10 / C16).

`FlatFn` wraps the result of `hf_flat.flatten`: bindings, structural statement order, conditions under which a node executes
(enclosing tests + earlier early exits, flattened into atoms with polarity and with scalar copies resolved), flag tables
(`visited[x]` / `x in seen` tests, `visited[x] = True` / `seen.add(x)` marks), initial values of a table."""
from __future__ import annotations
import ast
from .. import au, sym, order
from . import skel0910 as sk
from . import hf_flat
from .c1120_util import assign_deps, closure

INF_SRC = ("float('inf')", "math.inf", "np.inf", "numpy.inf", "inf", "float('Inf')", "float('infinity')", "float('INF')")


def load(e):
    e = sym.clone(e)
    for n in ast.walk(e):
        if hasattr(n, "ctx"):
            n.ctx = ast.Load()
    return e


def key(e):
    return au.norm(load(e))


def same(a, b):
    return key(a) == key(b)


def mentions_inf(e):
    return any(au.src(n) in INF_SRC for n in ast.walk(e))


def is_none(e):
    return isinstance(e, ast.Constant) and e.value is None


class _ScalarSubst(ast.NodeTransformer):
    """substitute names in *value* position (not the base of a subscript / attribute, not a callee)"""

    def __init__(self, lookup):
        self.lookup = lookup

    def visit_Subscript(self, node):
        if not isinstance(node.value, ast.Name):
            node.value = self.visit(node.value)
        node.slice = self.visit(node.slice)
        return node

    def visit_Attribute(self, node):
        if not isinstance(node.value, ast.Name):
            node.value = self.visit(node.value)
        return node

    def visit_Call(self, node):
        if not isinstance(node.func, ast.Name):
            node.func = self.visit(node.func)
        node.args = [self.visit(a) for a in node.args]
        for kw in node.keywords:
            kw.value = self.visit(kw.value)
        return node

    def visit_Lambda(self, node):
        return node

    def visit_Name(self, node):
        if isinstance(node.ctx, ast.Load):
            r = self.lookup(node.id)
            if r is not None:
                return r
        return node


class FlatFn:
    def __init__(self, repo, modname, fn, cls=None, flat=True, no_inline=()):
        self.repo, self.modname, self.orig = repo, modname, fn
        self.fn = hf_flat.flatten(repo, modname, fn, cls, no_inline) if flat else fn
        self.b = sym.Bindings(self.fn)
        self.idx = hf_flat.order_index(self.fn)
        self.params = au.params(self.fn)
        self._deps = None

    def refresh(self):
        """after the flattened tree was rewritten in place: rebuild parent links, bindings and the statement order"""
        hf_flat.link(self.fn)
        self.b = sym.Bindings(self.fn)
        self.idx = hf_flat.order_index(self.fn)
        self._deps = None

    # ---------------------------------------------------------------- module constants
    def module_constants(self):
        if getattr(self, "_mconsts", None) is None:
            out = {}
            for st in self.repo.module(self.modname).tree.body:
                if isinstance(st, ast.Assign) and len(st.targets) == 1 and isinstance(st.targets[0], ast.Name):
                    out.setdefault(st.targets[0].id, []).append(st.value)
                elif isinstance(st, ast.AnnAssign) and isinstance(st.target, ast.Name) and st.value is not None:
                    out.setdefault(st.target.id, []).append(st.value)
                elif isinstance(st, ast.ImportFrom) and st.module == "math":
                    for a in st.names:
                        if a.name == "inf":
                            out.setdefault(a.asname or a.name, []).append(ast.parse("float('inf')", mode="eval").body)
            self._mconsts = {k: v[0] for k, v in out.items() if len(v) == 1}
        return self._mconsts

    def is_inf(self, e):
        """the expression mentions +inf, directly or through a module-level constant"""
        if mentions_inf(e):
            return True
        mc = self.module_constants()
        return any(isinstance(n, ast.Name) and n.id in mc and n.id not in self.b.count and mentions_inf(mc[n.id]) for n in ast.walk(e))

    # ---------------------------------------------------------------- order
    def pos(self, n):
        return self.idx.get(id(n), -1)

    def before(self, a, b):
        return self.pos(a) < self.pos(b)

    def inside(self, n, anc):
        return any(a is anc for a in au.ancestors(n))

    # ---------------------------------------------------------------- resolution
    def resolve(self, expr, at, keep=(), depth=6):
        """names in value position replaced by the definition reaching `at` (containers, callees, receivers keep their names)"""
        if depth <= 0:
            return expr
        b = self.b

        def lookup(name):
            if name in keep:
                return None
            d = b.reaching(name, at)
            if d is None or name in au.names(d):
                return None
            if isinstance(d, (ast.Lambda, ast.Dict, ast.List, ast.ListComp, ast.DictComp, ast.Set, ast.SetComp, ast.GeneratorExp)):
                return None
            if isinstance(d, ast.Call) and au.call_tail(d) in ("dict", "list", "set", "deque", "defaultdict", "fromkeys", "PriorityQueue", "UnionFind"):
                return None
            return self.resolve(sym.clone(d), b._last_def_stmt, keep, depth - 1)
        return _ScalarSubst(lookup).visit(sym.clone(expr))

    def root(self, name, at):
        """follow `x = y` copies of plain names (also for container names): the oldest name this one is a copy of"""
        seen = set()
        cur, where = name, at
        if not self._attached(at):
            # a node of a copied expression: fall back on names bound exactly once
            while cur not in seen:
                seen.add(cur)
                d = self.b.defs.get(cur) if self.b.single(cur) else None
                if isinstance(d, ast.Name):
                    cur = d.id
                    continue
                break
            return cur
        while cur not in seen:
            seen.add(cur)
            d = self.b.reaching(cur, where)
            if isinstance(d, ast.Name):
                where = self.b._last_def_stmt
                cur = d.id
                continue
            break
        return cur

    def _attached(self, node):
        n = node
        while n is not None:
            if n is self.fn:
                return True
            n = getattr(n, "_parent", None)
        return False

    def definition(self, name, at):
        """defining expression of (the root of) a container name reaching `at`, or None"""
        cur, where = name, at
        for _ in range(8):
            d = self.b.reaching(cur, where)
            if isinstance(d, ast.Name):
                where = self.b._last_def_stmt
                cur = d.id
                continue
            return d
        return None

    def table_key(self, e, at):
        """source text identifying the object a table expression denotes at `at`: local names that are copies of a name or of an
        attribute chain (`adj = self.cut_adj`) are followed"""
        seen = 0
        where = at
        while isinstance(e, ast.Name) and seen < 8:
            seen += 1
            d = self.b.reaching(e.id, where)
            if isinstance(d, ast.Name) or (isinstance(d, ast.Attribute) and hf_flat._is_chain(d)):
                where = self.b._last_def_stmt
                e = d
                continue
            break
        if isinstance(e, ast.Attribute) and isinstance(e.value, (ast.Name, ast.Attribute)) and not au.is_self_attr(e):
            # a.b where a is a local alias
            base = self.table_key(e.value, at)
            return base + "." + e.attr
        return au.src(e)

    def same_table(self, a, b_, at):
        """two table expressions (names / attribute chains) denote the same object at `at` (copies followed)"""
        if isinstance(a, ast.Name) and isinstance(b_, ast.Name):
            return self.root(a.id, at) == self.root(b_.id, at)
        return same(a, b_)

    # ---------------------------------------------------------------- conditions
    def copies(self, expr, at):
        """names that are plain copies of another name (`x = y`) replaced by the oldest name of the chain"""
        me = self

        class T(ast.NodeTransformer):
            def visit_Name(self, n):
                if isinstance(n.ctx, ast.Load):
                    r = me.root(n.id, at)
                    if r != n.id:
                        return ast.copy_location(ast.Name(id=r, ctx=ast.Load()), n)
                return n

            def visit_Lambda(self, n):
                return n
        return T().visit(sym.clone(expr))

    def conds_resolved(self, node, stop=None, keep=()):
        """like conds, with the local names of every test replaced by the definitions that reach the *test* (not `node`):
        `best = label[nv]; if best > cand: best = cand; label[nv] = best` gives the atom `label[nv] > cand` for the store"""
        out = []
        for t, pol in sk.path_conds(node, stop=stop):
            origin = au.enclosing_stmt(t) if self._attached(t) else node
            for e, p in sk.atoms([(t, pol)]):
                out.append((self.resolve(e, origin if origin is not None else node, keep=keep), p))
        return out

    def conds(self, node, stop=None, keep=()):
        """[(expr, polarity)] atoms that hold whenever `node` executes (plain copies of names resolved), innermost first"""
        out = []
        for t, pol in sk.path_conds(node, stop=stop):
            origin = au.enclosing_stmt(t) if self._attached(t) else node
            for e, p in sk.atoms([(t, pol)]):
                out.append((self.copies(e, origin if origin is not None else node), p))
        # a loop over a list staged by an earlier loop (`L = []; for x in S: if c(x): L.append(x)` ... `for y in L:`): the conditions under
        # which an element entered the list (for predicates on immutable data: exclusion sets, border flags ..)
        for a in au.ancestors(node):
            if a is stop or a is self.fn:
                break
            if isinstance(a, ast.For) and isinstance(a.iter, ast.Name) and isinstance(a.target, ast.Name):
                src_list = self.root(a.iter.id, a)
                d = self.definition(src_list, a)
                dc = d.args[0] if isinstance(d, ast.Call) and au.call_tail(d) in ("list", "tuple") and len(d.args) == 1 else d
                if isinstance(dc, (ast.ListComp, ast.GeneratorExp)) and len(dc.generators) == 1 and isinstance(dc.generators[0].target, ast.Name) \
                        and isinstance(dc.elt, ast.Name) and dc.elt.id == dc.generators[0].target.id:
                    # L = [x for x in S if c(x)] ... for y in L: the filter of the comprehension holds for y
                    m = {dc.elt.id: ast.Name(id=a.target.id, ctx=ast.Load())}
                    for t_ in dc.generators[0].ifs:
                        for e, p in sk.atoms([(t_, True)]):
                            out.append((sym.subst(e, m), p))
                    continue
                if not ((isinstance(d, ast.List) and not d.elts) or (isinstance(d, ast.Call) and au.call_tail(d) == "list" and not d.args)):
                    continue
                apps = [c for c in au.calls(self.fn) if isinstance(c.func, ast.Attribute) and c.func.attr == "append" and isinstance(c.func.value, ast.Name)
                        and self.root(c.func.value.id, c) == src_list and len(c.args) == 1 and self.before(c, a)]
                if len(apps) != 1 or not isinstance(apps[0].args[0], ast.Name):
                    continue
                bl = [x for x in au.ancestors(apps[0]) if isinstance(x, ast.For)]
                if not bl:
                    continue
                m = {apps[0].args[0].id: ast.Name(id=a.target.id, ctx=ast.Load())}
                for e, p in sk.atoms(sk.path_conds(apps[0], stop=bl[0])):
                    out.append((self.copies(sym.subst(e, m), apps[0]), p))
        return out

    def unconditional(self, node, rel):
        """`node` executes whenever `rel` does: every condition of node is also a condition of rel (early exits included)"""
        kr = {(key(e), p) for e, p in self.conds(rel)}
        return all((key(e), p) in kr for e, p in self.conds(node))

    # ---------------------------------------------------------------- opaque helpers
    MUTATORS = {"append", "add", "extend", "insert", "remove", "discard", "pop", "popleft", "appendleft", "update", "clear", "push", "union",
                "setdefault", "sort", "reverse", "popitem"}

    def _callee(self, call):
        fl = hf_flat.flattener(self.repo)
        mod = self.repo.module(self.modname)
        q = getattr(self.orig, "_qualname", "")
        cls = None
        if "." in q:
            cq = q.split(".<locals>.")[0]
            if "." in cq:
                cls = mod.classes.get(cq.rsplit(".", 1)[0])
        scope = hf_flat.Scope(self.repo, mod, (mod, cls) if cls is not None else None)
        local_defs = {st.name: st for st in au.stmts(self.fn.body) if isinstance(st, ast.FunctionDef)}
        try:
            r = fl._resolve(call, scope, local_defs)
        except Exception:
            return None
        return r[0] if r else None

    def _own_method(self, name):
        """the class of the analysed method (or one of its bases) defines a method `name`"""
        q = getattr(self.orig, "_qualname", "")
        if "." not in q:
            return False
        cq = q.split(".<locals>.")[0].rsplit(".", 1)[0]
        mod = self.repo.module(self.modname)
        cls = mod.classes.get(cq)
        if cls is None:
            return False
        try:
            return name in self.repo.methods(mod, cls)
        except Exception:
            return any(isinstance(x, ast.FunctionDef) and x.name == name for x in cls.body)

    @classmethod
    def _is_pure(cls, callee):
        """the helper neither stores into nor calls a mutating method on anything but its own fresh locals"""
        ps = set(au.params(callee)) | {"self"}
        for n in au.walk(callee, into_funcs=True):
            if isinstance(n, (ast.Subscript, ast.Attribute)) and isinstance(getattr(n, "ctx", None), (ast.Store, ast.Del)):
                return False
            if isinstance(n, ast.Call) and isinstance(n.func, ast.Attribute) and n.func.attr in cls.MUTATORS:
                return False
            if isinstance(n, (ast.Global, ast.Nonlocal)):
                return False
        return True

    KNOWN_FUNCS = {"len", "range", "enumerate", "zip", "list", "set", "tuple", "dict", "sorted", "min", "max", "sum", "abs", "float", "int", "bool",
                   "isinstance", "print", "iter", "next", "reversed", "any", "all", "str", "repr", "format", "isinf", "isnan", "id", "keyify", "deque",
                   "type", "round", "map", "filter", "frozenset", "defaultdict", "PriorityQueue", "UnionFind", "Attribute", "ArrayAttribute", "RawMeshData",
                   "SurfaceMesh", "PolyLine", "Exception", "ValueError", "TypeError", "KeyError", "IndexError", "distance", "super", "hasattr", "getattr",
                   "randint", "shortest_path", "shortest_path_to_border", "shortest_path_to_vertex_set", "build_path", "heappush", "heappop", "PriorityItem"}
    KNOWN_METHODS = {"append", "appendleft", "add", "pop", "popleft", "get", "items", "keys", "values", "extend", "remove", "discard", "insert", "reverse",
                     "sort", "clear", "update", "copy", "setdefault", "index", "count", "push", "empty", "union", "find", "connected", "format", "join",
                     "startswith", "endswith", "fromkeys", "difference", "intersection", "issubset", "log", "debug", "info", "warning", "traverse", "compute",
                     "has_attribute", "get_attribute", "create_attribute", "front"}

    CONTAINER_METHODS = {"append", "appendleft", "add", "pop", "popleft", "get", "items", "keys", "values", "extend", "remove", "discard", "insert", "reverse",
                         "sort", "clear", "update", "copy", "setdefault", "index", "count", "push", "union", "find", "connected", "empty"}

    def residue(self, node, known=()):
        """what the rules cannot see through below `node`: calls of helpers that were not inlined (and are not provably free of effects),
        method calls with unknown names on local objects, loops over a list that was staged by an earlier loop.  An absence ("X is
        missing") may only be reported when the region has no residue."""
        out = []
        local_names = set(self.b.count) | set(self.params)
        nodes = node if isinstance(node, list) else [node]
        for nd in nodes:
            for c in au.calls(nd):
                f = c.func
                if isinstance(f, ast.Name):
                    if f.id in self.KNOWN_FUNCS or f.id in known:
                        continue
                    callee = self._callee(c)
                    if callee is not None and self._is_pure(callee):
                        continue
                    if f.id in local_names and f.id not in {st.name for st in au.stmts(self.fn.body) if isinstance(st, ast.FunctionDef)}:
                        # a local callable (lambda bound on sibling branches, a bound method alias, a callable parameter): an expression, no effect we track
                        d = [v for st in au.stmts(self.fn.body) for nm, v in sym.split_assign(st) if nm == f.id]
                        if d and all(isinstance(v, ast.Lambda) or (isinstance(v, ast.Constant) and v.value is None) for v in d):
                            continue
                        if d and all(isinstance(v, ast.Attribute) and v.attr in ("__getitem__", "get", "find", "connected", "edge_id", "is_edge_on_border",
                                                                                 "vertex_to_vertices", "face_to_edges", "opposite_face", "other_edge_end") for v in d):
                            continue          # a bound *query* method
                        if f.id in self.params and not d:
                            continue
                    mod = self.repo.module(self.modname)
                    defined_here = f.id in mod.funcs or f.id in {st.name for st in au.stmts(self.fn.body) if isinstance(st, ast.FunctionDef)}
                    if not defined_here:
                        # a class / a function of another module: transparent unless it is handed one of the local containers
                        def is_container(a):
                            if not isinstance(a, ast.Name) or a.id not in self.b.count:
                                return False
                            dd = self.definition(a.id, c)
                            return isinstance(dd, (ast.List, ast.Dict, ast.Set, ast.ListComp, ast.DictComp, ast.SetComp)) or \
                                (isinstance(dd, ast.Call) and au.call_tail(dd) in ("list", "dict", "set", "deque", "defaultdict", "fromkeys", "PriorityQueue", "UnionFind"))
                        if not any(is_container(a) for a in list(c.args) + [k.value for k in c.keywords]):
                            continue
                    out.append(c)
                elif isinstance(f, ast.Attribute):
                    r = f.value
                    if isinstance(r, ast.Name) and r.id in ("self", "cls"):
                        if f.attr in self.KNOWN_METHODS and not (f.attr in self.CONTAINER_METHODS and (self._callee(c) is not None or self._own_method(f.attr))):
                            continue        # (a method of the class itself that is merely *named* like a container method is not transparent)
                        callee = self._callee(c)
                        if callee is not None and self._is_pure(callee):
                            continue
                        out.append(c)
                    elif isinstance(r, ast.Name) and r.id in local_names and f.attr not in self.KNOWN_METHODS:
                        # a method of a local object: a mesh / connectivity parameter is a query, anything else is unknown
                        if r.id in ("mesh", "geom", "np", "math", "connectivity", "hq", "heapq", "attributes"):
                            continue
                        d = self.definition(r.id, c)
                        if isinstance(d, ast.Attribute) and "mesh" in au.src(d):
                            continue
                        out.append(c)
        return out

    # ---------------------------------------------------------------- the subset of Python the rules model
    FUNCTIONAL = {"partial", "methodcaller", "attrgetter", "itemgetter", "starmap", "reduce", "accumulate", "setattr", "delattr", "vars", "globals", "locals",
                  "eval", "exec", "compile", "__import__", "iter", "next", "getattr", "apply", "chain", "tee", "islice", "takewhile", "dropwhile", "filterfalse",
                  "groupby", "zip_longest", "product", "permutations", "combinations", "cycle", "repeat"}

    def foreign(self):
        """[(node, text)] constructs of the flattened function that are outside the subset of Python the rules model: a contradiction
        (`fail`) reported for a function that contains one is not trusted (the construct may carry the obligation in a way no rule reads)"""
        cached = getattr(self, "_foreign", None)
        if cached is not None:
            return cached
        out = []
        local_names = set(self.b.count) | set(self.params)
        for n in ast.walk(self.fn):
            if n is self.fn:
                continue
            if isinstance(n, (ast.Try, ast.With, ast.AsyncWith, ast.AsyncFor, ast.Global, ast.Nonlocal, ast.ClassDef, ast.Await, ast.NamedExpr)) or \
                    type(n).__name__ in ("Match", "TryStar"):
                out.append((n, type(n).__name__.lower() + " statement"))
            elif isinstance(n, (ast.For, ast.While)) and n.orelse:
                out.append((n, "loop with an else clause"))
            elif isinstance(n, ast.Delete) and not all(isinstance(t, ast.Subscript) and not isinstance(t.slice, ast.Slice) for t in n.targets):
                out.append((n, "del of a name / a slice"))
            elif isinstance(n, ast.AugAssign) and not isinstance(n.op, (ast.Add, ast.Sub, ast.Mult)):
                out.append((n, "augmented assignment with a bit / set operator"))
            elif isinstance(n, ast.Assign) and any(isinstance(x, ast.Starred) for t in n.targets for x in ast.walk(t)):
                out.append((n, "star-unpacking assignment"))
            elif isinstance(n, (ast.Assign, ast.AugAssign, ast.Delete)) and any(isinstance(x, ast.Subscript) and isinstance(x.slice, ast.Slice)
                                                                                 for t in (n.targets if isinstance(n, (ast.Assign, ast.Delete)) else [n.target])
                                                                                 for x in [t]):
                out.append((n, "slice assignment"))
            elif isinstance(n, ast.Attribute) and n.attr.startswith("__") and n.attr.endswith("__") and n.attr not in ("__init__", "__name__", "__class__", "__doc__"):
                out.append((n, f"access to {n.attr}"))
            elif isinstance(n, ast.Call):
                f = n.func
                if isinstance(f, ast.Call) and isinstance(f.func, (ast.Name, ast.Attribute)):
                    pass            # Tree(mesh, x)() : the object returned by a constructor / factory is called (the inner call is judged on its own)
                elif not isinstance(f, (ast.Name, ast.Attribute)):
                    out.append((n, "call of a computed callable"))
                    continue
                if (any(isinstance(a, ast.Starred) for a in n.args) or any(k.arg is None for k in n.keywords)) and \
                        not (t_ := au.call_tail(n)) in ("is_edge_on_border", "opposite_face", "edge_id", "print", "log", "distance", "format"):
                    out.append((n, "call with unpacked arguments"))
                    continue
                t = au.call_tail(n)
                if t in self.FUNCTIONAL and not (t == "getattr" and len(n.args) >= 2 and isinstance(n.args[1], ast.Constant)):
                    out.append((n, f"{t}(..)"))
                    continue
                if t in ("map", "filter") and n.args and (isinstance(n.args[0], ast.Lambda) or
                                                          (isinstance(n.args[0], ast.Attribute) and n.args[0].attr in self.MUTATORS)):
                    out.append((n, f"{t}(..) with a lambda / a mutating method"))
                    continue
                if isinstance(f, ast.Attribute) and isinstance(f.value, ast.Call) and au.call_tail(f.value) != "super" and f.attr in self.MUTATORS:
                    out.append((n, "mutating method called on the result of a call"))
                    continue
                if isinstance(f, ast.Attribute) and isinstance(f.value, ast.Name) and f.value.id in local_names and f.value.id not in ("self", "cls") \
                        and f.attr not in self.KNOWN_METHODS and f.attr not in self.LOCAL_OK:
                    d = self.definition(f.value.id, n)
                    container = isinstance(d, (ast.List, ast.Dict, ast.Set, ast.ListComp, ast.DictComp, ast.SetComp)) or \
                        (isinstance(d, ast.Call) and au.call_tail(d) in ("list", "dict", "set", "deque", "defaultdict", "fromkeys", "PriorityQueue", "UnionFind"))
                    if container:
                        out.append((n, f"method .{f.attr}(..) of a local container"))
        self._foreign = out
        return out

    LOCAL_OK = {"is_edge_on_border", "is_vertex_on_border", "edge_id", "vertex_to_vertices", "face_to_edges", "opposite_face", "other_face_side", "cell_to_face",
                "direct_face", "face_id", "vertex_to_faces", "other_edge_end", "n_comps", "isdisjoint", "issuperset", "most_common", "lower", "upper", "strip"}

    def aliases_of(self, names):
        """local names whose (single or repeated) definitions mention one of `names` as the object they are taken from:
        `add = path.append`, `row = table[i]`, `p = q` ..."""
        out = set(names)
        changed = True
        while changed:
            changed = False
            for st in au.stmts(self.fn.body):
                for nm, v in sym.split_assign(st):
                    if nm in out:
                        continue
                    r = v
                    while isinstance(r, (ast.Attribute, ast.Subscript)):
                        r = r.value
                    if isinstance(r, ast.Name) and r.id in out:
                        out.add(nm)
                        changed = True
        return out

    def other_touches(self, names, region, known=()):
        """places below `region` where one of the objects `names` (or an alias / a bound method of it) may be changed or handed away, other than
        the nodes in `known`: method calls on it, calls through a bound-method alias, item stores, augmented assignments, the object passed as
        an argument.  A rule may report that an operation on the object is *missing* only when there is no such place it has not understood."""
        al = self.aliases_of(set(names))
        kn = {id(k) for k in known}
        out = []
        nodes = region if isinstance(region, list) else [region]
        for nd in nodes:
            for n in au.walk(nd):
                if isinstance(n, ast.Call) and id(n) not in kn:
                    f = n.func
                    r = f.value if isinstance(f, ast.Attribute) else f
                    while isinstance(r, (ast.Attribute, ast.Subscript)):
                        r = r.value
                    if isinstance(r, ast.Name) and r.id in al and not (isinstance(f, ast.Attribute) and f.attr in ("get", "items", "keys", "values", "index", "count", "copy")):
                        out.append(n)
                        continue
                    if au.call_tail(n) not in ("len", "print", "isinstance", "bool", "str", "repr", "enumerate", "zip", "iter", "sorted", "reversed", "list", "tuple", "set", "isinf") \
                            and any(isinstance(a, ast.Name) and a.id in al for a in list(n.args) + [k.value for k in n.keywords]):
                        out.append(n)
                elif isinstance(n, (ast.Assign, ast.AugAssign, ast.AnnAssign, ast.Delete)) and id(n) not in kn:
                    ts = n.targets if isinstance(n, (ast.Assign, ast.Delete)) else [n.target]
                    for t in ts:
                        for tt in (t.elts if isinstance(t, (ast.Tuple, ast.List)) else [t]):
                            r = tt
                            sub = False
                            while isinstance(r, (ast.Subscript, ast.Attribute)):
                                r, sub = r.value, True
                            if sub and isinstance(r, ast.Name) and r.id in al:
                                out.append(n)
        return out

    def opaque(self, node, names=(), known=()):
        """closed-world gate: what the rules cannot see through below `node` (see `residue`)"""
        return self.residue(node, known=known)

    def impure_self_calls(self, node):
        """calls `self._helper(..)` below node that were not inlined and may change the object"""
        out = []
        for c in au.calls(node):
            if isinstance(c.func, ast.Attribute) and isinstance(c.func.value, ast.Name) and c.func.value.id == "self" and hf_flat.is_private(c.func.attr):
                callee = self._callee(c)
                if callee is not None and self._is_pure(callee):
                    continue
                out.append(c)
        return out

    @staticmethod
    def has(conds, expr, pol):
        k = key(expr)
        return any(key(e) == k and p == pol for e, p in conds)

    # ---------------------------------------------------------------- dependence
    def deps(self):
        """assignment-only data dependence, plus: a container depends on what is appended / added to it"""
        if self._deps is None:
            d = assign_deps(self.fn)
            for c in au.calls(self.fn):
                if isinstance(c.func, ast.Attribute) and c.func.attr in ("append", "add", "appendleft", "extend", "insert") and isinstance(c.func.value, ast.Name):
                    for a in c.args:
                        d.setdefault(c.func.value.id, set()).update(au.names(a))
            self._deps = d
        return self._deps

    def depends(self, names, on):
        return on in closure(self.deps(), names)

    # ---------------------------------------------------------------- table initial values
    def initial_values(self, table, before_node, singles=False):
        """expressions giving the initial content of table `table` (a Name id): values of its constructor and of the item stores
        inside loops (bulk fills) that precede `before_node` (with singles=True also the stores at one key); (values, recognised)"""
        vals = []
        roots = {self.root(table, before_node)}
        found_ctor = False
        for st in au.stmts(self.fn.body):
            if st is before_node or not self.before(st, before_node):
                continue
            for nm, v in sym.split_assign(st):
                if nm in roots or self.root(nm, before_node) in roots:
                    if isinstance(v, ast.Name):
                        continue
                    found_ctor = True
                    vals.extend(ctor_values(v))
            if isinstance(st, ast.Expr) and isinstance(st.value, ast.Call) and isinstance(st.value.func, ast.Attribute) \
                    and isinstance(st.value.func.value, ast.Name) and self.root(st.value.func.value.id, st) in roots:
                # fills by growth: t.append(v) / t.insert(i, v) / t.extend(ctor) / t.setdefault(k, v)
                c = st.value
                if c.func.attr == "append" and len(c.args) == 1:
                    vals.append(c.args[0])
                elif c.func.attr in ("insert", "setdefault") and len(c.args) == 2:
                    vals.append(c.args[1])
                elif c.func.attr in ("extend", "update") and len(c.args) == 1:
                    vals.extend(ctor_values(c.args[0]))
                elif c.func.attr == "fill" and len(c.args) == 1:
                    vals[:] = [c.args[0]]          # np array filled with one value: replaces what the constructor put in
            if isinstance(st, ast.AugAssign) and isinstance(st.op, ast.Add) and isinstance(st.target, ast.Name) \
                    and self.root(st.target.id, st) in roots:
                vals.extend(ctor_values(st.value))
            if isinstance(st, ast.Assign):
                for t in st.targets:
                    ts = t.elts if isinstance(t, (ast.Tuple, ast.List)) else [t]
                    vs = st.value.elts if isinstance(t, (ast.Tuple, ast.List)) and isinstance(st.value, (ast.Tuple, ast.List)) \
                        and len(st.value.elts) == len(ts) else [st.value] * len(ts)
                    for tt, vv in zip(ts, vs):
                        if isinstance(tt, ast.Subscript) and isinstance(tt.value, ast.Name) and self.root(tt.value.id, st) in roots:
                            bulk = any(isinstance(a, (ast.For, ast.While)) and any(x in au.names(tt.slice) for x in
                                                                                    (au.assigned_names(a.target) if isinstance(a, ast.For) else []))
                                       for a in au.ancestors(st))
                            if bulk or singles:
                                vals.append(vv)
        return vals, found_ctor


def _general_value(e):
    """`a if k == <the root / start element> else b` : the value given to every *other* element (b); any other conditional: both branches"""
    if isinstance(e, ast.IfExp):
        t = e.test
        if isinstance(t, ast.Compare) and len(t.ops) == 1 and isinstance(t.ops[0], (ast.Eq, ast.NotEq, ast.Is, ast.IsNot)):
            return _general_value(e.orelse if isinstance(t.ops[0], (ast.Eq, ast.Is)) else e.body)
        return _general_value(e.body) + _general_value(e.orelse)
    return [e]


def ctor_values(v):
    """value expressions a container constructor puts in: dict comprehension values, dict([(k, val) ..]), dict.fromkeys(k, val),
    [val] * n, [val for ..], np.full(n, val) ...  (a conditional value that singles out one element - `0 if v == root else inf` - gives
    the value of the other elements)"""
    out = []
    for x in _ctor_values(v):
        out.extend(_general_value(x))
    return out


def _ctor_values(v):
    if isinstance(v, ast.DictComp):
        return [v.value]
    if isinstance(v, (ast.ListComp, ast.GeneratorExp)):
        return [v.elt]
    if isinstance(v, ast.Dict):
        return list(v.values)
    if isinstance(v, ast.BinOp) and isinstance(v.op, ast.Mult):
        out = []
        for side in (v.left, v.right):
            if isinstance(side, (ast.List, ast.Tuple)):
                out += list(side.elts)
        return out or [v]
    if isinstance(v, (ast.List, ast.Tuple)):
        return list(v.elts)
    if isinstance(v, ast.Call):
        t = au.call_tail(v)
        if t == "fromkeys":
            return [v.args[1]] if len(v.args) > 1 else [ast.Constant(value=None)]
        if t in ("dict", "list") and len(v.args) == 1 and isinstance(v.args[0], (ast.ListComp, ast.GeneratorExp)):
            e = v.args[0].elt
            if isinstance(e, ast.Tuple) and len(e.elts) == 2:
                return [e.elts[1]]
            return [e]
        if t in ("dict", "list", "set", "defaultdict") and not v.args:
            return []
        if t in ("full", "full_like") and len(v.args) >= 2:
            return [v.args[1]]
        if t in ("zeros", "zeros_like"):
            return [ast.Constant(value=0)]
        if t in ("ones", "ones_like"):
            return [ast.Constant(value=1)]
        if t == "ArrayAttribute" and v.args:
            # mouette ArrayAttribute(type, n): default value of the type (False / 0)
            return [ast.Constant(value=False if au.src(v.args[0]) == "bool" else 0)]
        if t == "Attribute" and v.args:
            return [ast.Constant(value=False if au.src(v.args[0]) == "bool" else 0)]
    return [v]


# --------------------------------------------------------------------- flag tables (visited / seen)
def flag_test(e, pol):
    """(table expr, key expr, is_set) when the atom (e, pol) tests a per-element flag: `T[k]`, `k in T`, `T[k] == True / is False / != 0 / > 0 ..`,
    `T.get(k)` / `T.get(k, False)`, `bool(T[k])`, or None"""
    if isinstance(e, ast.Call) and isinstance(e.func, ast.Name) and e.func.id == "bool" and len(e.args) == 1 and not e.keywords:
        return flag_test(e.args[0], pol)
    if isinstance(e, ast.Call) and isinstance(e.func, ast.Attribute) and e.func.attr == "get" and not e.keywords and \
            (len(e.args) == 1 or (len(e.args) == 2 and isinstance(e.args[1], ast.Constant) and not e.args[1].value)):
        return e.func.value, e.args[0], pol           # a missing key reads as unset
    if isinstance(e, ast.Compare) and len(e.ops) == 1 and isinstance(e.ops[0], (ast.Gt, ast.LtE, ast.GtE, ast.Lt)) and isinstance(e.comparators[0], ast.Constant) \
            and not isinstance(e.comparators[0].value, bool) and e.comparators[0].value in (0, 1):
        inner = flag_test(e.left, True)
        if inner is not None and isinstance(e.left, (ast.Subscript, ast.Call)):
            c_ = e.comparators[0].value
            # counts / 0-1 flags:  x > 0, x >= 1 : set ;  x <= 0, x < 1 : unset
            is_set = (isinstance(e.ops[0], ast.Gt) and c_ == 0) or (isinstance(e.ops[0], ast.GtE) and c_ == 1)
            is_unset = (isinstance(e.ops[0], ast.LtE) and c_ == 0) or (isinstance(e.ops[0], ast.Lt) and c_ == 1)
            if is_set or is_unset:
                return inner[0], inner[1], pol == is_set
    if isinstance(e, ast.Subscript) and not isinstance(e.slice, ast.Slice):
        return e.value, e.slice, pol
    if isinstance(e, ast.Compare) and len(e.ops) == 1 and isinstance(e.ops[0], (ast.Eq, ast.NotEq, ast.Is, ast.IsNot)) and isinstance(e.comparators[0], ast.Constant) \
            and (isinstance(e.comparators[0].value, bool) or e.comparators[0].value in (0, 1)) and not isinstance(e.comparators[0].value, float):
        inner = flag_test(e.left, True) if isinstance(e.left, (ast.Subscript, ast.Call)) else None
        if inner is not None and not isinstance(e.left, ast.Compare):
            truth = bool(e.comparators[0].value)
            same = isinstance(e.ops[0], (ast.Eq, ast.Is))
            return inner[0], inner[1], pol == (truth == same)
    if isinstance(e, ast.Compare) and len(e.ops) == 1 and isinstance(e.ops[0], (ast.In, ast.NotIn)):
        return e.comparators[0], e.left, pol == isinstance(e.ops[0], ast.In)
    return None


def flag_mark(st):
    """(table expr, key expr, value) for `T[k] = True/False` (or 1 / 0) or `T.add(k)` (value True), else None"""
    if isinstance(st, ast.Assign) and len(st.targets) == 1 and isinstance(st.targets[0], ast.Subscript) \
            and isinstance(st.value, ast.Constant) and (isinstance(st.value.value, bool) or st.value.value in (0, 1)) and not isinstance(st.value.value, float):
        return st.targets[0].value, st.targets[0].slice, bool(st.value.value)
    if isinstance(st, ast.Expr) and isinstance(st.value, ast.Call) and isinstance(st.value.func, ast.Attribute) \
            and st.value.func.attr == "add" and len(st.value.args) == 1:
        return st.value.func.value, st.value.args[0], True
    return None


def item_stores(node):
    """(stmt, target Subscript, value) for every `T[k] = v` below node (tuple assignments split)"""
    out = []
    for st in au.stmts(node.body if hasattr(node, "body") and isinstance(node.body, list) else [node]):
        if isinstance(st, ast.Assign):
            for t in st.targets:
                if isinstance(t, ast.Subscript):
                    out.append((st, t, st.value))
                elif isinstance(t, (ast.Tuple, ast.List)):
                    vs = st.value.elts if isinstance(st.value, (ast.Tuple, ast.List)) and len(st.value.elts) == len(t.elts) else [None] * len(t.elts)
                    for tt, vv in zip(t.elts, vs):
                        if isinstance(tt, ast.Subscript):
                            out.append((st, tt, vv))
        elif isinstance(st, ast.AugAssign) and isinstance(st.target, ast.Subscript):
            out.append((st, st.target, None))
        elif isinstance(st, ast.AnnAssign) and isinstance(st.target, ast.Subscript) and st.value is not None:
            out.append((st, st.target, st.value))
    return out


def add_terms(e):
    if isinstance(e, ast.BinOp) and isinstance(e.op, ast.Add):
        return add_terms(e.left) + add_terms(e.right)
    return [e]


def effective_cmp(e, pol, lhs_key):
    """relation `lhs OP other` expressed by the comparison atom (e, pol) where one side has key `lhs_key`:
    returns (op class, other expr) or None"""
    if not (isinstance(e, ast.Compare) and len(e.ops) == 1):
        return None
    l, r, op = e.left, e.comparators[0], type(e.ops[0])
    mirror = {ast.Gt: ast.Lt, ast.Lt: ast.Gt, ast.GtE: ast.LtE, ast.LtE: ast.GtE, ast.Eq: ast.Eq, ast.NotEq: ast.NotEq}
    neg = {ast.Gt: ast.LtE, ast.LtE: ast.Gt, ast.Lt: ast.GtE, ast.GtE: ast.Lt, ast.Eq: ast.NotEq, ast.NotEq: ast.Eq}
    if op not in mirror:
        return None
    if key(l) == lhs_key:
        other = r
    elif key(r) == lhs_key:
        other, op = l, mirror[op]
    else:
        return None
    if not pol:
        op = neg[op]
    return op, other


# --------------------------------------------------------------------- gate: contradictions are only reported for code inside the modelled subset
class Gate:
    """view of a Ctx that turns `fail` into `undecided` when the function the finding is about contains a construct outside the subset of
    Python the rules model (FlatFn.foreign): the obligation may be carried by that construct, no rule can tell"""

    def __init__(self, ctx):
        self._ctx = ctx
        self._cache = {}

    def __getattr__(self, k):
        return getattr(self._ctx, k)

    def _foreign(self, site):
        key = (site.module, site.qualname.split(".<locals>.")[0])
        if key not in self._cache:
            res = []
            try:
                from ..core import PKG
                mod = site.module[len(PKG) + 1:] if site.module.startswith(PKG + ".") else site.module
                q = key[1]
                repo = self._ctx.repo
                if repo.has_func(mod, q):
                    fn = repo.func(mod, q)
                    cache = getattr(repo, "_hf_gate", None)
                    if cache is None:
                        cache = repo._hf_gate = {}
                    k2 = (mod, id(fn))
                    if k2 not in cache:
                        cache[k2] = FlatFn(repo, mod, fn).foreign()
                    res = cache[k2]
            except Exception:
                res = []
            self._cache[key] = res
        return self._cache[key]

    def ok(self, rule, site, note=""):
        return self._ctx.ok(rule, site, note)

    def undecided(self, rule, site, construct, what="", **detail):
        return self._ctx.undecided(rule, site, construct, what, **detail)

    def fail(self, rule, site, construct, what, **detail):
        fo = self._foreign(site)
        if fo:
            kinds = sorted({t for n, t in fo})
            return self._ctx.undecided(rule, site, "the function uses a construct the rules do not model: a contradiction found here is not trusted",
                                       "; ".join(kinds)[:200] + " -- would-be finding: " + construct)
        return self._ctx.fail(rule, site, construct, what, **detail)

    def check(self, cond, rule, site, construct, what, note="", **detail):
        if cond:
            self._ctx.ok(rule, site, note or construct)
        else:
            self.fail(rule, site, construct, what, **detail)
        return cond
