"""Forward abstract interpretation of the small geometric functions (owned by the C07/C08 checker).

Every value carries
  deg   power of a length: number | "const" (numeric literal, polymorphic) | None (unknown)
  a     affine descriptor:
          ("P", w, ex)     vector-like quantity (2-D or 3-D) with affine weight w (Poly): 1 = point, 0 = vector;
                           ex = {axis: extra weight} for parts expressed as  coordinate * basis vector
          ("C", axis, w)   a scalar that is the coordinate along `axis` of something of affine weight w
          ("V2", x, y)     pair of scalars built with Vec(a, b)
          ("B", axis)      unit vector of an orthonormal frame returned by face_basis (axis = "<frame>:<k>")
          ("S", poly)      plain scalar with a symbolic value
          ("T", [vals])    tuple;   ("L", val, key)  homogeneous list over collection `key`
          ("ERR", text)    a construction that cannot be a point (coordinate along one axis applied to another axis)
          None             unknown
Statements are executed in order (rebinding of names is followed), both branches of an `if` are executed and joined,
loop bodies are executed once.  Calls to functions of the same module / of geometry.py are interpreted with the abstract
arguments of the call site, which also yields the parameter degrees of the callee for the threshold rule.
Nothing of the repository is executed."""
from __future__ import annotations
import ast
from fractions import Fraction
from .. import au, sym, order
from ..sym import Poly

ZERO, ONE = Poly(), Poly.const(1)
ZERO_DEG = {"angle_3pts", "cotan", "signed_angle_2vec3D", "signed_angle_3pts", "angle_2vec2D", "angle_2vec3D", "atan2", "arctan2",
            "aspect_ratio", "sign", "sign0", "cos", "sin", "tan", "phase"}
NUM = (int, float, Fraction)


class Val:
    __slots__ = ("deg", "a")

    def __init__(self, deg=None, a=None):
        self.deg, self.a = deg, a

    def __repr__(self):
        return f"Val(deg={self.deg}, a={self.a})"


UNK = Val()


def isnum(d):
    return isinstance(d, NUM) and not isinstance(d, bool)


def same_val(x, y):
    return repr(x) == repr(y)


def join(x, y):
    if x is None or y is None:
        return UNK
    if same_val(x, y):
        return x
    return Val(x.deg if x.deg == y.deg else None, x.a if repr(x.a) == repr(y.a) else None)


# ---------------------------------------------------------------- degree algebra
def d_add(l, r):
    if l == "const":
        return r
    if r == "const":
        return l
    return l if l is not None and l == r else None


def d_mul(l, r):
    if l == "const":
        return r
    if r == "const":
        return l
    return l + r if isnum(l) and isnum(r) else None


def d_div(l, r):
    if r == "const":
        return l
    if l == "const":
        return -r if isnum(r) else None
    return l - r if isnum(l) and isnum(r) else None


# ---------------------------------------------------------------- affine algebra
def P(w, ex=None):
    return ("P", w, dict(ex or {}))


def is_zero_vec(a):
    return a is not None and a[0] == "P" and a[1].is_zero() and all(v.is_zero() for v in a[2].values())


def as_vec(a):
    """view V2 with weight-free components as a plain vector-like P"""
    if a is not None and a[0] == "V2":
        cx, cy = a[1], a[2]
        if cx is not None and cy is not None and cx[0] == "C" and cy[0] == "C":
            if cx[2] == cy[2] and (cx[2].is_zero() or {cx[1], cy[1]} == {"x", "y"}):
                return P(cx[2])
    return a


def a_add(x, y, sign):
    if x is None or y is None:
        return None
    if x[0] == "ERR":
        return x
    if y[0] == "ERR":
        return y
    if x[0] == "K" and y[0] == "K":
        return ("K", x[1] + sign * y[1])
    if x[0] in ("S", "K") and y[0] in ("S", "K"):
        px = x[1] if x[0] == "S" else Poly.const(x[1])
        py = y[1] if y[0] == "S" else Poly.const(y[1])
        return ("S", px + py.scale(sign))
    if x[0] == "C" and y[0] == "C":
        w = x[2] + y[2].scale(sign)
        if x[1] == y[1] or y[1] is None or x[1] is None:
            return ("C", x[1] if x[1] is not None else y[1], w)
        if x[2].is_zero() and y[2].is_zero():
            return ("C", None, ZERO)
        return None
    if x[0] == "V2" and y[0] == "V2":
        return ("V2", a_add(x[1], y[1], sign), a_add(x[2], y[2], sign))
    if x[0] == "V2" and y[0] == "P" or x[0] == "P" and y[0] == "V2":
        x, y = as_vec(x), as_vec(y)
        if x[0] != "P" or y[0] != "P":
            return None
    if x[0] == "P" and y[0] == "P":
        ex = dict(x[2])
        for k, v in y[2].items():
            ex[k] = ex.get(k, ZERO) + v.scale(sign)
        return P(x[1] + y[1].scale(sign), ex)
    return None


def scalar_poly(a):
    if a is None:
        return None
    if a[0] == "K":
        return Poly.const(a[1])
    if a[0] == "S":
        return a[1]
    return None


def a_scale(vec, sc):
    """vec (P / V2 / C) multiplied by scalar descriptor sc"""
    if vec is None or sc is None:
        return None
    if vec[0] == "ERR":
        return vec
    if vec[0] == "V2":
        return ("V2", a_scale(vec[1], sc), a_scale(vec[2], sc))
    if vec[0] == "B":
        if sc[0] == "C":
            if sc[2].is_zero():
                return P(ZERO)
            if sc[1] == vec[1]:
                return P(ZERO, {vec[1]: sc[2]})
            return ("ERR", f"a coordinate measured along {axis_name(sc[1])} multiplies the basis vector {axis_name(vec[1])}")
        return P(ZERO)
    p = scalar_poly(sc)
    if vec[0] == "P":
        if is_zero_vec(vec):
            return P(ZERO)
        if p is not None:
            return P(vec[1] * p, {k: v * p for k, v in vec[2].items()})
        return None
    if vec[0] == "C":
        if vec[2].is_zero():
            return ("C", None, ZERO) if sc[0] in ("S", "K", "C") else None
        if p is not None:
            return ("C", vec[1], vec[2] * p)
        return None
    return None


def poly_div(num, den):
    """exact quotient num / den when it is a polynomial (den constant, equal, or a common monomial factor)"""
    if den is None or den.is_zero():
        return None
    if den.is_const():
        return num.scale(1 / den.const_value())
    if num.is_zero():
        return ZERO
    if len(den.t) == 1:
        (mono, c), = den.t.items()
        out = {}
        for k, v in num.t.items():
            kk = list(k)
            for a in mono:
                if a not in kk:
                    return None
                kk.remove(a)
            out[tuple(kk)] = v / c
        return Poly(out)
    # proportional polynomials
    (k0, v0) = next(iter(den.t.items()))
    if k0 in num.t:
        r = num.t[k0] / v0
        if num == den.scale(r):
            return Poly.const(r)
    return None


def a_div(x, sc):
    if x is None or sc is None:
        return None
    if x[0] == "ERR":
        return x
    p = scalar_poly(sc)
    if x[0] in ("S", "K"):
        px = scalar_poly(x)
        if p is not None and px is not None:
            q = poly_div(px, p)
            if q is not None:
                return ("S", q)
        return ("S", Poly.atom("?"))
    if x[0] == "V2":
        return ("V2", a_div(x[1], sc), a_div(x[2], sc))
    if x[0] == "C":
        if x[2].is_zero():
            return ("C", None, ZERO)
        if p is not None:
            q = poly_div(x[2], p)
            return ("C", x[1], q) if q is not None else None
        return None
    if x[0] == "P":
        if is_zero_vec(x):
            return P(ZERO)
        if p is None:
            return None
        w = poly_div(x[1], p)
        ex = {k: poly_div(v, p) for k, v in x[2].items()}
        if w is None or any(v is None for v in ex.values()):
            return None
        return P(w, ex)
    return None


def axis_name(ax):
    if ax is None:
        return "?"
    if ":" in str(ax):
        return "XYZ"[int(str(ax).split(":")[1])] + " of the face frame"
    return str(ax)


# ---------------------------------------------------------------- interpreter
class Interp:
    """interprets one function; `world` resolves callees and records call-site argument values / threshold compares"""

    def __init__(self, world, modname, fn, args=None, depth=0):
        self.world, self.modname, self.fn, self.depth = world, modname, fn, depth
        self.env = {}
        self.returns = []
        self.compares = []          # (node, expr, literal, degree)
        self.mixed = []             # (node, left, degree, right, degree): both sides dimensional
        self.frames = {}            # frame id -> [axes]
        self.nframe = 0
        ps = au.params(fn)
        args = args or {}
        for p in ps:
            self.env[p] = args.get(p, UNK)
        if fn.args.vararg is not None and "*" in args:
            self.env[fn.args.vararg.arg] = args["*"]

    # ---- statements
    def run(self):
        self.block(self.fn.body)
        return self

    def block(self, body):
        for st in body:
            self.stmt(st)

    def check_compares(self, node):
        for n in ast.walk(node) if node is not None else []:
            if isinstance(n, ast.Compare):
                seq = [n.left] + list(n.comparators)
                for (l, r), op in zip(zip(seq, seq[1:]), n.ops):
                    if not isinstance(op, (ast.Lt, ast.LtE, ast.Gt, ast.GtE, ast.Eq, ast.NotEq)):
                        continue
                    if order.fold_const(l) is None and order.fold_const(r) is None:
                        dl, dr = self.ev(l).deg, self.ev(r).deg
                        if isnum(dl) and isnum(dr):
                            self.mixed.append((n, l, dl, r, dr))
                    for expr, lit in ((l, r), (r, l)):
                        c = order.fold_const(lit)
                        if c is None or c == 0 or order.fold_const(expr) is not None:
                            continue
                        dg = self.ev(expr).deg
                        if isnum(dg):
                            self.compares.append((n, expr, c, dg))

    def stmt(self, st):
        if isinstance(st, ast.Assign):
            self.check_compares(st.value)
            for t in st.targets:
                self.assign(t, st.value)
        elif isinstance(st, ast.AnnAssign) and st.value is not None:
            self.check_compares(st.value)
            self.assign(st.target, st.value)
        elif isinstance(st, ast.AugAssign):
            self.check_compares(st.value)
            if isinstance(st.target, ast.Name):
                cur = ast.BinOp(left=ast.Name(id=st.target.id, ctx=ast.Load()), op=st.op, right=st.value)
                self.env[st.target.id] = self.ev(cur)
        elif isinstance(st, ast.If):
            self.check_compares(st.test)
            base = dict(self.env)
            self.block(st.body)
            e1 = self.env
            self.env = dict(base)
            self.block(st.orelse)
            e2 = self.env
            self.env = {k: join(e1.get(k), e2.get(k)) for k in set(e1) | set(e2)}
        elif isinstance(st, (ast.For, ast.AsyncFor)):
            it = self.ev(st.iter)
            self.bind_iter(st.target, st.iter, it)
            base = dict(self.env)
            self.block(st.body)
            self.env = {k: join(base.get(k, self.env[k]) if k in base else self.env[k], self.env[k]) for k in self.env}
            self.block(st.orelse)
        elif isinstance(st, ast.While):
            self.check_compares(st.test)
            self.block(st.body)
        elif isinstance(st, ast.Return):
            self.check_compares(st.value)
            if st.value is not None and not (isinstance(st.value, ast.Constant) and st.value.value is None):
                self.returns.append((st, self.ev(st.value)))
        elif isinstance(st, ast.Expr):
            self.check_compares(st.value)
            self.ev(st.value)
        elif isinstance(st, (ast.With, ast.Try)):
            self.block(st.body)
            for h in getattr(st, "handlers", []):
                self.block(h.body)
            self.block(getattr(st, "orelse", []) or [])
            self.block(getattr(st, "finalbody", []) or [])
        elif isinstance(st, ast.Assert):
            self.check_compares(st.test)

    def bind_iter(self, target, iter_expr, itv):
        if isinstance(target, ast.Name):
            v = UNK
            if itv.a is not None and itv.a[0] == "L":
                v = itv.a[1]
            elif itv.a is not None and itv.a[0] == "T" and itv.a[1]:
                v = itv.a[1][0]
                for x in itv.a[1][1:]:
                    v = join(v, x)
            elif isnum(itv.deg):
                v = Val(itv.deg, None)      # elements / components of a dimensional value keep its degree
            self.env[target.id] = v
        else:
            for n in au.assigned_names(target):
                self.env[n] = UNK

    def assign(self, target, value):
        if isinstance(target, ast.Name):
            self.env[target.id] = self.ev(value)
            return
        if isinstance(target, (ast.Tuple, ast.List)):
            names = target.elts
            vals = None
            if isinstance(value, (ast.Tuple, ast.List)) and len(value.elts) == len(names):
                vals = [self.ev(x) for x in value.elts]
            elif isinstance(value, (ast.GeneratorExp, ast.ListComp)) and len(value.generators) == 1 and not value.generators[0].ifs \
                    and isinstance(value.generators[0].target, ast.Name):
                g = value.generators[0]
                var = g.target.id
                if isinstance(g.iter, (ast.Tuple, ast.List)) and len(g.iter.elts) == len(names):
                    srcs = [self.ev(x) for x in g.iter.elts]      # evaluated before any target is rebound
                    vals = []
                    saved = self.env.get(var)
                    for sv in srcs:
                        self.env[var] = sv
                        vals.append(self.ev(value.elt))
                    if saved is None:
                        self.env.pop(var, None)
                    else:
                        self.env[var] = saved
                else:
                    one = self.ev(value)
                    ev = one.a[1] if one.a is not None and one.a[0] == "L" else (Val(one.deg, None) if isnum(one.deg) else UNK)
                    vals = [ev] * len(names)
            else:
                v = self.ev(value)
                if v.a is not None and v.a[0] == "T" and len(v.a[1]) == len(names):
                    vals = list(v.a[1])
                elif v.a is not None and v.a[0] == "L":
                    vals = [v.a[1]] * len(names)
            for i, t in enumerate(names):
                if isinstance(t, ast.Name):
                    self.env[t.id] = vals[i] if vals else UNK
                else:
                    for n in au.assigned_names(t):
                        self.env[n] = UNK
        # subscript / attribute stores: the stored value is still interpreted (for its calls)
        elif isinstance(target, (ast.Subscript, ast.Attribute)):
            v = self.ev(value)
            self.world.stored(self, target, value, v)

    # ---- expressions
    def ev(self, e):
        if e is None:
            return UNK
        try:
            return self._ev(e)
        except RecursionError:
            return UNK

    def _ev(self, e):
        if isinstance(e, ast.Constant):
            if isinstance(e.value, (int, float)) and not isinstance(e.value, bool):
                return Val("const", ("K", Fraction(e.value).limit_denominator(10 ** 12)))
            return UNK
        if isinstance(e, ast.Name):
            return self.env.get(e.id, UNK)
        if isinstance(e, ast.Starred):
            return self.ev(e.value)
        if isinstance(e, ast.UnaryOp):
            v = self.ev(e.operand)
            if isinstance(e.op, ast.USub):
                return Val(v.deg, a_scale(v.a, ("K", Fraction(-1))) if v.a is not None and v.a[0] not in ("S", "K") else
                           (("S", scalar_poly(v.a).scale(-1)) if scalar_poly(v.a) is not None else None))
            return v
        if isinstance(e, ast.IfExp):
            self.check_compares(e.test)
            return join(self.ev(e.body), self.ev(e.orelse))
        if isinstance(e, (ast.Tuple, ast.List)):
            vals = [self.ev(x) for x in e.elts]
            dg = None
            if vals and all(v.deg == vals[0].deg for v in vals):
                dg = vals[0].deg
            return Val(dg, ("T", vals))
        if isinstance(e, (ast.ListComp, ast.GeneratorExp)):
            g = e.generators[0]
            itv = self.ev(g.iter)
            saved = {n: self.env.get(n) for n in au.assigned_names(g.target)}
            self.bind_iter(g.target, g.iter, itv)
            v = self.ev(e.elt)
            for n, s in saved.items():
                if s is None:
                    self.env.pop(n, None)
                else:
                    self.env[n] = s
            return Val(v.deg, ("L", v, au.src(g.iter)))
        if isinstance(e, ast.Attribute):
            ch = au.chain(e)
            if ch and ch[-1] == "pi":
                return Val("const", ("S", Poly.atom("pi")))
            if ch and ch[-1] == "vertices":
                return Val(1, ("L", Val(1, P(ONE)), au.src(e)))
            v = self.ev(e.value)
            if e.attr == "_data":
                return v            # raw storage of a container: the same elements
            if e.attr in ("x", "y", "z", "real", "imag"):
                a = None
                if v.a is not None and v.a[0] == "V2" and e.attr in ("x", "y"):
                    a = v.a[1] if e.attr == "x" else v.a[2]
                elif v.a is not None and v.a[0] == "P" and not v.a[2]:
                    a = ("C", e.attr, v.a[1])
                return Val(v.deg, a)
            return UNK
        if isinstance(e, ast.Subscript):
            ch = au.chain(e.value)
            if ch and ch[-1] == "vertices" and not isinstance(e.slice, ast.Slice):
                return Val(1, P(ONE))
            v = self.ev(e.value)
            if isinstance(e.slice, ast.Slice):
                if v.a is not None and v.a[0] in ("P", "V2", "L"):
                    return v
                return Val(v.deg, None)
            k = au.const(e.slice)
            if v.a is not None and v.a[0] == "V2" and k in (0, 1):
                return Val(v.deg, v.a[1 + k])
            if v.a is not None and v.a[0] == "T" and isinstance(k, int) and -len(v.a[1]) <= k < len(v.a[1]):
                return v.a[1][k]
            if v.a is not None and v.a[0] == "L":
                return v.a[1]
            if v.a is not None and v.a[0] == "P" and not v.a[2] and k in (0, 1, 2):
                return Val(v.deg, ("C", "xyz"[k], v.a[1]))
            if v.a is not None and v.a[0] == "P" and k is None and isinstance(e.slice, (ast.Name, ast.Subscript, ast.Attribute)):
                # rows of a batch of vector-like values computed at once (numpy vectorised form): components are read with
                # literal indices / .x .y .z in this code base, a variable index selects one element of the batch
                return v
            return Val(v.deg if isnum(v.deg) else None, None)
        if isinstance(e, ast.BinOp):
            return self.binop(e)
        if isinstance(e, ast.Compare):
            self.check_compares(e)
            return UNK
        if isinstance(e, ast.Call):
            return self.call(e)
        return UNK

    def scalar_of(self, v, e):
        """scalar descriptor of a value used as a factor / divisor"""
        if v.a is not None and v.a[0] in ("K", "S", "C"):
            return v.a
        if v.a is None or v.a[0] in ("T", "L"):
            return ("S", Poly.atom("<" + au.src(e) + ">"))
        return None

    def binop(self, e):
        l, r = self.ev(e.left), self.ev(e.right)
        if isinstance(e.op, (ast.Add, ast.Sub)):
            sign = 1 if isinstance(e.op, ast.Add) else -1
            return Val(d_add(l.deg, r.deg), a_add(l.a, r.a, sign))
        if isinstance(e.op, ast.Mult):
            dg = d_mul(l.deg, r.deg)
            veclike = lambda v: v.a is not None and v.a[0] in ("P", "V2", "B", "ERR")
            if veclike(l) and not veclike(r):
                return Val(dg, a_scale(l.a, self.scalar_of(r, e.right)))
            if veclike(r) and not veclike(l):
                return Val(dg, a_scale(r.a, self.scalar_of(l, e.left)))
            if not veclike(l) and not veclike(r):
                pl, pr = scalar_poly(l.a), scalar_poly(r.a)
                if l.a is not None and l.a[0] == "C" and pr is not None:
                    return Val(dg, a_scale(l.a, r.a))
                if r.a is not None and r.a[0] == "C" and pl is not None:
                    return Val(dg, a_scale(r.a, l.a))
                if pl is not None and pr is not None:
                    return Val(dg, ("S", pl * pr))
                return Val(dg, ("S", Poly.atom("<" + au.src(e) + ">")))
            return Val(dg, None)
        if isinstance(e.op, ast.Div):
            dg = d_div(l.deg, r.deg)
            return Val(dg, a_div(l.a, self.scalar_of(r, e.right)))
        if isinstance(e.op, ast.Pow):
            k = au.const(e.right)
            return Val(l.deg * k if isnum(l.deg) and isnum(k) else l.deg if l.deg == "const" else None, None)
        return UNK

    # ---- calls
    def call(self, e):
        tail = au.call_tail(e)
        recv = e.func.value if isinstance(e.func, ast.Attribute) else None
        args = [self.ev(a) for a in e.args]
        for k in e.keywords:
            self.ev(k.value)
        A = lambda i: args[i] if i < len(args) else UNK
        seen = getattr(self.world, "seen", None)
        if seen is not None:
            seen.append((self, e, tail, args, self.ev(recv) if recv is not None and not (isinstance(recv, ast.Name) and recv.id in ("geom", "geometry", "np", "numpy", "math", "Vec")) else None))
        if tail in ZERO_DEG:
            # dimensionless result; a library function is still interpreted with these arguments for the tests / clamps it contains
            target = self.world.resolve(self.modname, e)
            if target is not None and self.depth < 4:
                sub = Interp(self.world, target[0], target[1], self.bind_args(target[1], e, args), self.depth + 1)
                sub.nframe = self.nframe + 10 * (self.depth + 1)
                sub.run()
                self.world.visited(target[0], target[1], {}, sub)
            return Val(0, ("S", Poly.atom("<" + au.src(e) + ">")))
        if tail == "len":
            return Val(0, ("S", Poly.atom("len(" + self.coll_key(e.args[0]) + ")"))) if e.args else UNK
        if tail in ("Vec", "array", "asarray") and len(args) == 1:
            return args[0]
        if tail == "Vec" and len(args) == 2:
            dg = args[0].deg if args[0].deg == args[1].deg else d_add(args[0].deg, args[1].deg)
            ok = all(v.a is not None and v.a[0] in ("C", "S", "K") for v in args)
            comps = [v.a if v.a is not None and v.a[0] == "C" else (("C", None, ZERO) if v.a is not None else None) for v in args]
            return Val(dg, ("V2", comps[0], comps[1]) if ok and None not in comps else None)
        if tail in ("abs", "fabs", "float") and len(args) == 1:
            return Val(args[0].deg, ("S", Poly.atom("<" + au.src(e) + ">")))
        if tail == "norm":
            v = args[0] if args else (self.ev(recv) if recv is not None else UNK)
            return Val(v.deg, ("S", Poly.atom("<" + au.src(e) + ">")))
        if tail == "normalized" and len(args) == 1:
            a = args[0].a
            return Val(0, P(ZERO) if a is not None and a[0] in ("P", "V2") and is_zero_vec(as_vec(a)) else None)
        if tail == "distance" and len(args) >= 2:
            return Val(d_add(A(0).deg, A(1).deg) if A(0).deg == A(1).deg else None, ("S", Poly.atom("<" + au.src(e) + ">")))
        if tail == "cross" and len(args) == 2:
            ok = all(v.a is not None and is_zero_vec(as_vec(v.a)) or (v.a is not None and v.a[0] == "B") for v in args)
            return Val(d_mul(A(0).deg, A(1).deg) if isnum(A(0).deg) and isnum(A(1).deg) else None, P(ZERO) if ok else None)
        if tail == "dot" and (len(args) == 2 or (len(args) == 1 and recv is not None)):
            u, v = (args[0], args[1]) if len(args) == 2 else (self.ev(recv), args[0])
            dg = d_mul(u.deg, v.deg) if isnum(u.deg) and isnum(v.deg) else None
            a = ("S", Poly.atom("<" + au.src(e) + ">"))
            for b, p in ((u, v), (v, u)):
                if b.a is not None and b.a[0] == "B" and p.a is not None and p.a[0] == "P":
                    a = ("C", b.a[1], p.a[1] + p.a[2].get(b.a[1], ZERO))
            return Val(dg, a)
        if tail in ("det_2x2", "outer") and len(args) == 2:
            return Val(d_mul(A(0).deg, A(1).deg) if isnum(A(0).deg) and isnum(A(1).deg) else None, ("S", Poly.atom("<" + au.src(e) + ">")))
        if tail == "det_3x3" and len(args) == 3:
            ds = [v.deg for v in args]
            return Val(sum(ds) if all(isnum(x) for x in ds) else None, ("S", Poly.atom("<" + au.src(e) + ">")))
        if tail in ("triangle_area", "quad_area", "triangle_area_2D"):
            ds = self.spread_degs(e, args)
            return Val(2 * ds[0] if ds and all(isnum(x) and x == ds[0] for x in ds) else None, ("S", Poly.atom("<" + au.src(e) + ">")))
        if tail == "sqrt" and len(args) == 1:
            return Val(args[0].deg / 2 if isnum(args[0].deg) else None, ("S", Poly.atom("<" + au.src(e) + ">")))
        if tail == "sum" and len(args) >= 1:
            v = args[0]
            if v.a is not None and v.a[0] == "L":
                el = v.a[1]
                n = ("S", Poly.atom("len(" + self.coll_key_of_list(e.args[0], v) + ")"))
                return Val(el.deg, a_scale(el.a, n) if el.a is not None and el.a[0] in ("P", "V2", "C") else None)
            return Val(v.deg if isnum(v.deg) else None, None)
        if tail in ("mean", "average") and len(args) >= 1:
            v = args[0]
            if v.a is not None and v.a[0] == "L":
                el = v.a[1]
                return Val(el.deg, el.a if el.a is not None and el.a[0] in ("P", "V2", "C") else None)
            return Val(v.deg if isnum(v.deg) else None, None)
        if tail in ("max", "min", "maximum", "minimum", "fmax", "fmin", "clip") and len(args) >= 2:
            # a dimensional quantity bounded by an absolute non-zero literal: the same defect as comparing it with that literal
            for i, (a, v) in enumerate(zip(e.args, args)):
                if isnum(v.deg):
                    for j, other in enumerate(e.args):
                        c = order.fold_const(other) if j != i else None
                        if c is not None and c != 0 and order.fold_const(a) is None:
                            self.compares.append((e, a, c, v.deg))
        if tail in ("max", "min", "amax", "amin", "maximum", "minimum", "fmax", "fmin") and args:
            dg = args[0].deg
            for v in args[1:]:
                dg = d_add(dg, v.deg)
            return Val(dg, ("S", Poly.atom("<" + au.src(e) + ">")))
        if tail == "face_basis":
            target = self.world.resolve(self.modname, e)
            if target is not None and self.depth < 4:      # interpreted for the comparisons it contains; its value is the frame below
                sub = Interp(self.world, target[0], target[1], self.bind_args(target[1], e, args), self.depth + 1).run()
                self.world.visited(target[0], target[1], {}, sub)
            self.nframe += 1
            fid = f"f{self.nframe}"
            axes = [f"{fid}:{k}" for k in range(3)]
            self.frames[fid] = axes
            return Val(0, ("T", [Val(0, ("B", ax)) for ax in axes]))
        # interprocedural: functions of geometry.py (or of the current module)
        target = self.world.resolve(self.modname, e)
        if target is not None and self.depth < 4:
            m, fn = target
            amap = self.bind_args(fn, e, args)
            sub = Interp(self.world, m, fn, amap, self.depth + 1)
            sub.nframe = self.nframe + 10 * (self.depth + 1)
            sub.run()
            self.world.visited(m, fn, amap, sub)
            out = None
            for st, v in sub.returns:
                out = v if out is None else join(out, v)
            for fid, axes in sub.frames.items():
                self.frames.setdefault(fid, axes)
            return out if out is not None else UNK
        return UNK

    def spread_degs(self, call, args):
        out = []
        for a, v in zip(call.args, args):
            if isinstance(a, ast.Starred) and v.a is not None and v.a[0] == "L":
                out.append(v.a[1].deg)
            else:
                out.append(v.deg)
        return out

    def bind_args(self, fn, call, args):
        ps = [p.arg for p in fn.args.posonlyargs + fn.args.args]
        amap = {}
        i = 0
        for a, v in zip(call.args, args):
            if isinstance(a, ast.Starred):
                el = v.a[1] if v.a is not None and v.a[0] == "L" else (UNK if v.a is None or v.a[0] != "T" else None)
                if el is None:       # tuple: spread element-wise
                    for x in v.a[1]:
                        if i < len(ps):
                            amap[ps[i]] = x
                            i += 1
                    continue
                if fn.args.vararg is not None and i >= len(ps):
                    amap["*"] = Val(el.deg, ("L", el, "args"))
                while i < len(ps):
                    amap[ps[i]] = el
                    i += 1
                if fn.args.vararg is not None:
                    amap["*"] = Val(el.deg, ("L", el, "args"))
            else:
                if i < len(ps):
                    amap[ps[i]] = v
                    i += 1
                elif fn.args.vararg is not None:
                    prev = amap.get("*")
                    amap["*"] = Val(v.deg, ("L", v, "args")) if prev is None else Val(prev.deg if prev.deg == v.deg else None, ("L", join(prev.a[1], v), "args"))
        return amap

    def coll_key(self, e):
        v = self.ev(e)
        if v.a is not None and v.a[0] == "L":
            return self.coll_key_of_list(e, v)
        return au.src(e)

    def coll_key_of_list(self, e, v):
        return v.a[2]


class World:
    """callee resolution + collection of what the interpreters saw"""

    def __init__(self, repo, geom_mod="geometry.geometry"):
        self.repo = repo
        self.geom = repo.module(geom_mod)
        self.calls = {}        # (module name, function name) -> list of (amap, Interp)
        self.stores = []       # (Interp, target, value expr, Val)

    def resolve(self, modname, call):
        f = call.func
        name = None
        if isinstance(f, ast.Name):
            name = f.id
            r = self.repo.resolve_func(modname, name)
            if r and r[1] is not None and r[0].name == self.geom.name:
                return r[0].name, r[1]
            return None
        if isinstance(f, ast.Attribute) and isinstance(f.value, ast.Name) and f.value.id in ("geom", "geometry"):
            fn = self.geom.funcs.get(f.attr)
            if fn is not None:
                return self.geom.name, fn
        return None

    def visited(self, modname, fn, amap, interp):
        self.calls.setdefault((modname, fn.name), []).append((amap, interp))

    def stored(self, interp, target, value, v):
        self.stores.append((interp, target, value, v))


# ---------------------------------------------------------------- verdict on a value that must be a point
def point_verdict(v, frames):
    """-> (decided?, ok?, text)"""
    a = v.a
    if a is None:
        return False, True, "affine weight unknown"
    if a[0] == "ERR":
        return True, False, a[1]
    if a[0] == "V2":
        cs = [a[1], a[2]]
        if any(c is None or c[0] != "C" for c in cs):
            return False, True, "components unknown"
        bad = [c for c in cs if c[2] != ONE]
        if bad:
            return True, False, f"its 2-D components have affine weights ({cs[0][2]}, {cs[1][2]}) instead of (1, 1)"
        return True, True, "2-D point"
    if a[0] != "P":
        return False, True, "not a vector-like value"
    w, ex = a[1], {k: p for k, p in a[2].items() if not p.is_zero()}
    if not ex:
        if w == ONE:
            return True, True, "affine weight 1"
        return True, False, f"the weights of the input points sum to {w}, not to 1" + (": it is a pure vector (a displacement), not a position" if w.is_zero() else "")
    fids = {str(k).split(":")[0] for k in ex}
    if len(fids) != 1 or fids.copy().pop() not in frames:
        return False, True, "components in several frames"
    axes = frames[fids.pop()]
    tot = {ax: w + ex.get(ax, ZERO) for ax in axes}
    bad = [ax for ax in axes if tot[ax] != ONE]
    if not bad:
        return True, True, "coordinates along the three vectors of the orthonormal frame"
    return True, False, ("; ".join(f"the component along {axis_name(ax)} has affine weight {tot[ax]}" for ax in bad)
                          + ": the result is rebuilt from coordinates in the face frame but "
                          + ("the offset of the plane along the missing basis vector is dropped" if all(tot[ax].is_zero() for ax in bad) else "not all three coordinates carry weight 1"))
