"""R-STRIDE / R-RANGE / R-COUNT / R-TABLE machinery for C14 and C19 (agent c1419).

A generator function is walked *symbolically* once per assignment of its boolean switches.
The walk never executes repository code: it reads the statements that touch the mesh under
construction (`X = RawMeshData()`), and derives

  * |V| as a polynomial in the integer parameters (vertex appends x loop trip counts),
  * every index tuple stored into faces / edges / cells and every vertex-attribute key as a
    polynomial over parameters, loop variables (with ranges) and `e % N` atoms (range [0, N-1]),
  * element counts |F_k| from the (guard-tightened) iteration boxes.

"For all parameters" claims are decided by evaluating the polynomial at the corners of the iteration
box (the forms are multilinear in the bounded atoms) and checking coefficient signs after shifting every
parameter to its minimum.  An *alarm* is only produced together with a concrete witness found by
evaluating the extracted index expression on small integers (parameters <= 6)."""
from __future__ import annotations
import ast, copy, itertools
from collections import Counter
from fractions import Fraction
from .. import au, sym
from ..sym import Poly

CONTAINERS = ("vertices", "edges", "faces", "cells")
MAXPARAM = 6


class Unsupported(Exception):
    pass


# ------------------------------------------------------------------ parent-free copies / fast resolution
def clone(e):
    """Copy of an expression without the loader's `_parent` links (copy.deepcopy would follow them and copy
    the whole module)."""
    return ast.parse(ast.unparse(e), mode="eval").body


class _Subst(ast.NodeTransformer):
    def __init__(self, mapping):
        self.mapping = mapping

    def visit_Name(self, node):
        if isinstance(node.ctx, ast.Load) and node.id in self.mapping:
            return clone(self.mapping[node.id])
        return node


def fast_subst(expr, mapping):
    return _Subst(mapping).visit(clone(expr))


def reaching_sw(b, name, at, env):
    """Like sym.Bindings.reaching, but an `if <switch>:` statement whose test is decided by the switch
    assignment `env` contributes the definition made in the branch that is taken.
    -> (defining expression, defining statement) or (None, None)."""
    def in_block(block):
        """scan a block backwards: ('def', expr, stmt) | ('kill',) | None (name untouched)"""
        for s in reversed(block):
            direct = [v for n, v in sym.split_assign(s) if n == name]
            if direct:
                return ("def", direct[-1], s)
            if isinstance(s, ast.If) and env is not None:
                r = sw_eval(s.test, env)
                if r is not None:
                    got = in_block(s.body if r else s.orelse)
                    if got is not None:
                        return got
                    continue
            if b._assigns(s, name):
                return ("kill",)
        return None

    cur = au.enclosing_stmt(at)
    while cur is not None and not isinstance(cur, (ast.FunctionDef, ast.AsyncFunctionDef, ast.Module)):
        blk, owner = au.enclosing_block(cur)
        if blk is None:
            return None, None
        idx = [id(x) for x in blk].index(id(cur))
        got = in_block(blk[:idx])
        if got is not None:
            return (got[1], got[2]) if got[0] == "def" else (None, None)
        if isinstance(owner, (ast.For, ast.AsyncFor, ast.While)):
            if isinstance(owner, (ast.For, ast.AsyncFor)) and name in au.assigned_names(owner.target):
                return None, None
            if any(b._assigns(s, name) for s in owner.body):
                return None, None
        if isinstance(owner, ast.ExceptHandler):
            owner = au.parent(owner)
        cur = owner
    return None, None


def fast_resolve(b, expr, at, keep=(), depth=8, env=None):
    """Same result as sym.Bindings.resolve(expr, at=at, keep=keep) (plus switch-decided definitions when
    `env` is given), with parent-free copies (local version: sym.py is shared and must not be edited)."""
    if depth <= 0:
        return clone(expr)
    mapping = {}
    for n in sorted(au.names(expr)):
        if n in keep:
            continue
        d, dst = reaching_sw(b, n, at, env)
        if d is not None and n not in au.names(d):
            mapping[n] = fast_resolve(b, d, dst, keep, depth - 1, env)
    e = clone(expr)
    return _Subst(mapping).visit(e) if mapping else e


# ------------------------------------------------------------------ polynomial helpers
def psubst(P, atom, Q):
    out = Poly()
    Q = sym._p(Q)
    for k, v in P.t.items():
        n = k.count(atom)
        term = Poly({tuple(a for a in k if a != atom): v})
        for _ in range(n):
            term = term * Q
        out = out + term
    return out


def nonneg(P, mins):
    """P >= 0 whenever every atom a >= mins.get(a, 1) (sufficient test: coefficient signs after shifting)."""
    Q = P
    for a in sorted(P.atoms()):
        Q = psubst(Q, a, Poly.atom(a) + mins.get(a, 1))
    return all(v >= 0 for v in Q.t.values())


def parse_poly(src):
    return sym.to_poly(ast.parse(src, mode="eval").body, opaque=False)


# ------------------------------------------------------------------ switches
def bool_switches(fn):
    """Parameters whose default is a literal True / False."""
    a = fn.args
    pos = a.posonlyargs + a.args
    out = []
    for p, d in zip(pos[len(pos) - len(a.defaults):], a.defaults):
        if isinstance(d, ast.Constant) and isinstance(d.value, bool):
            out.append(p.arg)
    for p, d in zip(a.kwonlyargs, a.kw_defaults):
        if d is not None and isinstance(d, ast.Constant) and isinstance(d.value, bool):
            out.append(p.arg)
    return out


def sw_eval(test, env):
    if isinstance(test, ast.Name) and test.id in env:
        return env[test.id]
    if isinstance(test, ast.Constant) and isinstance(test.value, bool):
        return test.value
    if isinstance(test, ast.UnaryOp) and isinstance(test.op, ast.Not):
        v = sw_eval(test.operand, env)
        return None if v is None else (not v)
    if isinstance(test, ast.BoolOp):
        vals = [sw_eval(v, env) for v in test.values]
        if isinstance(test.op, ast.And):
            if any(v is False for v in vals):
                return False
            return True if all(v is True for v in vals) else None
        if any(v is True for v in vals):
            return True
        return False if all(v is False for v in vals) else None
    if isinstance(test, ast.Compare) and len(test.ops) == 1 and isinstance(test.ops[0], (ast.Is, ast.Eq, ast.IsNot, ast.NotEq)):
        l, r = sw_eval(test.left, env), sw_eval(test.comparators[0], env)
        if l is not None and r is not None:
            return (l == r) if isinstance(test.ops[0], (ast.Is, ast.Eq)) else (l != r)
    return None


class FoldSwitch(ast.NodeTransformer):
    def __init__(self, env):
        self.env = env

    def visit_IfExp(self, node):
        self.generic_visit(node)
        v = sw_eval(node.test, self.env)
        if v is None:
            return node
        return node.body if v else node.orelse


# ------------------------------------------------------------------ walk records
class Loop:
    def __init__(self, node, var, lo, trip, lo_e=None, trip_e=None):
        self.node, self.var, self.lo, self.trip = node, var, lo, trip
        self.lo_e, self.trip_e = lo_e or ast.Constant(0), trip_e   # resolved AST of the bounds

    @property
    def hi(self):
        return self.lo + self.trip - 1


class Emit:
    def __init__(self, kind, stmt, tup, idx, loops, guards, vnow):
        self.kind, self.stmt, self.tup, self.idx = kind, stmt, tup, idx
        self.loops, self.guards, self.vnow = loops, guards, vnow
        self.pos = 0    # position of the tuple inside its statement (`faces += [t0, t1]`)

    @property
    def key(self):
        return (id(self.stmt), self.pos)


class VSite:
    def __init__(self, stmt, loops, base, n):
        self.stmt, self.loops, self.base, self.n = stmt, loops, base, n


class Run:
    def __init__(self, env):
        self.env = env
        self.V = Poly()
        self.emits, self.vsites = [], []
        self.modinfo = {}

    def label(self):
        return ", ".join(f"{k}={v}" for k, v in sorted(self.env.items())) or "no switches"


class GridFn:
    """Symbolic walk of one generator function."""

    def __init__(self, fn, mesh_ctor=("RawMeshData",)):
        self.fn = fn
        self.b = sym.Bindings(fn)
        self.mesh = set()
        for st in au.stmts(fn.body):
            for name, v in sym.split_assign(st):
                if isinstance(v, ast.Call) and au.call_tail(v) in mesh_ctor:
                    self.mesh.add(name)
        self.switches = bool_switches(fn)
        self.params = set(au.params(fn))
        self.param_min = {}
        for st in fn.body:
            if isinstance(st, ast.If) and not st.orelse and st.body and isinstance(st.body[0], ast.Raise) \
                    and isinstance(st.test, ast.Compare) and len(st.test.ops) == 1 \
                    and isinstance(st.test.left, ast.Name) and st.test.left.id in self.params:
                c = au.const(st.test.comparators[0])
                if isinstance(c, int):
                    if isinstance(st.test.ops[0], ast.Lt):
                        self.param_min[st.test.left.id] = c
                    elif isinstance(st.test.ops[0], ast.LtE):
                        self.param_min[st.test.left.id] = c + 1

    # ---------------------------------------------------------------- effects
    def _container(self, e):
        """`M.K` with M a mesh under construction -> K"""
        if isinstance(e, ast.Attribute) and e.attr in CONTAINERS and isinstance(e.value, ast.Name) and e.value.id in self.mesh:
            return e.attr
        return None

    def effects(self, st, handles=None):
        """Mesh effects of a simple statement: list of (what, K, payload)."""
        out = []
        if isinstance(st, ast.Expr) and isinstance(st.value, ast.Call) and isinstance(st.value.func, ast.Attribute):
            c = st.value
            K = self._container(c.func.value)
            if K and c.func.attr == "append" and len(c.args) == 1:
                out.append(("append", K, c.args[0]))
            elif K and c.func.attr == "extend" and len(c.args) == 1:
                out.append(("extend", K, c.args[0]))
            elif K and c.func.attr in ("insert", "pop", "remove", "clear"):
                out.append(("other", K, c))
        elif isinstance(st, ast.AugAssign):
            K = self._container(st.target)
            if K and isinstance(st.op, ast.Add):
                out.append(("extend", K, st.value))
            elif K:
                out.append(("other", K, st))
        elif isinstance(st, ast.Assign) and len(st.targets) == 1:
            t = st.targets[0]
            if isinstance(t, ast.Subscript):
                K = self._container(t.value)
                if K:
                    out.append(("setitem", K, t.slice))
                elif isinstance(t.value, ast.Name) and handles is not None and t.value.id in handles:
                    out.append(("attrkey", handles[t.value.id], t.slice))
                elif isinstance(t.value, ast.Name) and handles is None and t.value.id in self._all_handles():
                    out.append(("attrkey", self._all_handles()[t.value.id], t.slice))
            elif isinstance(t, ast.Name) and isinstance(st.value, ast.Call) and au.call_tail(st.value) == "create_attribute" \
                    and isinstance(st.value.func, ast.Attribute):
                K = self._container(st.value.func.value)
                if K:
                    out.append(("handle", K, t.id))
        return out

    def _all_handles(self):
        if not hasattr(self, "_handles"):
            self._handles = {}
            for st in au.stmts(self.fn.body):
                if isinstance(st, ast.Assign) and len(st.targets) == 1 and isinstance(st.targets[0], ast.Name) \
                        and isinstance(st.value, ast.Call) and au.call_tail(st.value) == "create_attribute" \
                        and isinstance(st.value.func, ast.Attribute):
                    K = self._container(st.value.func.value)
                    if K:
                        self._handles[st.targets[0].id] = K
        return self._handles

    def has_effects(self, st, only_vertices=False):
        for s in au.stmts([st]):
            for what, K, _ in self.effects(s):
                if what == "handle":
                    continue
                if not only_vertices or (K == "vertices" and what in ("append", "extend", "other")):
                    return True
        return False

    # ---------------------------------------------------------------- polynomials of expressions
    def poly(self, expr, at, run, vnow=None, resolved=False, loops=None):
        e = expr if resolved else self.resolved(expr, at, run, loops)
        me = self

        def atom_of(n):
            if isinstance(n, ast.BinOp) and isinstance(n.op, ast.Mod):
                name = "⟨" + au.src(n) + "⟩"
                run.modinfo[name] = (n.left, n.right, sym.to_poly(n.right, atom_of))
                return name
            if isinstance(n, ast.Call) and au.call_tail(n) == "len" and len(n.args) == 1 and me._container(n.args[0]) == "vertices":
                if vnow is None:
                    raise Unsupported("len(vertices) read while vertices are being appended")
                return vnow
            return None
        return sym.to_poly(e, atom_of)

    def resolved(self, expr, at, run, loops=None):
        keep = tuple(self.mesh) + tuple(self._all_handles())
        e = fast_resolve(self.b, expr, at, keep, env=run.env)
        e = FoldSwitch(run.env).visit(e)
        if loops is not None:
            cs = {n for n in au.names(e) if n in self.counters()}
            if cs:
                e = fast_subst(e, {n: self.counter_value(n, at, loops, run) for n in cs})
        return e

    # ---------------------------------------------------------------- running counters (k = 0 ... k += 1)
    def counters(self):
        """Locals that are initialised once to a constant at the top level and advanced by exactly one
        unconditional `k += c` statement: name -> (init stmt, init value, aug stmt, step)."""
        if hasattr(self, "_counters"):
            return self._counters
        out = {}
        inits, augs, other = {}, {}, set()
        def self_increment(st):
            """`k = k + c` / `k = c + k` -> c"""
            if isinstance(st, ast.Assign) and len(st.targets) == 1 and isinstance(st.targets[0], ast.Name) \
                    and isinstance(st.value, ast.BinOp) and isinstance(st.value.op, ast.Add):
                k = st.targets[0].id
                l, r = st.value.left, st.value.right
                if isinstance(l, ast.Name) and l.id == k and isinstance(au.const(r), int):
                    return au.const(r)
                if isinstance(r, ast.Name) and r.id == k and isinstance(au.const(l), int):
                    return au.const(l)
            return None
        steps = {}
        for st in au.stmts(self.fn.body):
            if isinstance(st, ast.AugAssign) and isinstance(st.target, ast.Name):
                augs.setdefault(st.target.id, []).append(st)
                steps[id(st)] = au.const(st.value) if isinstance(st.op, ast.Add) else None
            elif self_increment(st) is not None:
                augs.setdefault(st.targets[0].id, []).append(st)
                steps[id(st)] = self_increment(st)
            elif isinstance(st, (ast.For, ast.AsyncFor)):
                other |= set(au.assigned_names(st.target))
            else:
                for t in au.assign_targets(st):
                    for n in au.assigned_names(t):
                        if isinstance(st, ast.Assign) and isinstance(t, ast.Name) and isinstance(au.const(st.value), int) \
                                and any(st is x for x in self.fn.body):
                            inits.setdefault(n, []).append(st)
                        else:
                            other.add(n)
        for n, a in augs.items():
            if n in other or n in self.params or len(a) != 1 or len(inits.get(n, [])) != 1:
                continue
            st = a[0]
            step = steps.get(id(st))
            if not isinstance(step, int):
                continue
            out[n] = (inits[n][0], au.const(inits[n][0].value), st, step)
        self._counters = out
        return out

    def counter_value(self, name, at, loops, run):
        """AST of the value of counter `name` at statement `at` (same block as its increment)."""
        init, c0, aug, step = self.counters()[name]
        blk, owner = au.enclosing_block(aug)
        at_st = au.enclosing_stmt(at)
        if blk is None or not any(x is at_st for x in blk):
            raise Unsupported(f"counter {name} is read outside the block that advances it")
        enclosing = [a for a in au.ancestors(aug) if isinstance(a, (ast.For, ast.AsyncFor, ast.While, ast.If, ast.Try, ast.With))]
        if [id(x) for x in reversed(enclosing)] != [id(l.node) for l in loops]:
            raise Unsupported(f"counter {name} is advanced conditionally or in another nest")
        # init must precede the outermost loop at the top level
        top = self.fn.body
        pos = {id(x): i for i, x in enumerate(top)}
        outer = loops[0].node if loops else aug
        if id(outer) not in pos or pos[id(init)] > pos[id(outer)]:
            raise Unsupported(f"counter {name} is not initialised before its loop nest")
        e = ast.Constant(c0)
        for m, l in enumerate(loops):
            if not l.var:
                raise Unsupported(f"counter {name} advanced in a value loop")
            term = ast.BinOp(ast.Name(l.var, ast.Load()), ast.Sub(), clone(l.lo_e))
            for l2 in loops[m + 1:]:
                term = ast.BinOp(term, ast.Mult(), clone(l2.trip_e))
            e = ast.BinOp(e, ast.Add(), ast.BinOp(ast.Constant(step), ast.Mult(), term))
        before = [id(x) for x in blk].index(id(aug)) < [id(x) for x in blk].index(id(at_st))
        if before:
            e = ast.BinOp(e, ast.Add(), ast.Constant(step))
        return ast.fix_missing_locations(e)

    def length_of(self, expr, at, run):
        """AST of the length of an iterable (linspace sample count, literal tuple, range)."""
        e = self.resolved(expr, at, run)
        if isinstance(e, ast.Call) and au.call_tail(e) == "linspace":
            n = e.args[2] if len(e.args) >= 3 else next((k.value for k in e.keywords if k.arg == "num"), None)
            if n is None:
                raise Unsupported("linspace without a sample count")
            return n
        if isinstance(e, (ast.Tuple, ast.List)) and not any(isinstance(x, ast.Starred) for x in e.elts):
            return ast.Constant(len(e.elts))
        if isinstance(e, ast.Call) and au.call_tail(e) == "range" and len(e.args) == 1:
            return e.args[0]
        raise Unsupported(f"length of `{au.src(expr)}` not derivable")

    def parse_loop(self, st, run):
        it = st.iter

        def mk(var, lo_e, hi_e):
            lo_r = self.resolved(lo_e, st, run) if lo_e is not None else None
            hi_r = self.resolved(hi_e, st, run)
            lo = self.poly(lo_r, st, run, resolved=True) if lo_r is not None else Poly()
            hi = self.poly(hi_r, st, run, resolved=True)
            trip_e = hi_r if lo_r is None else ast.BinOp(hi_r, ast.Sub(), lo_r)
            return Loop(st, var, lo, hi - lo, lo_r, trip_e)
        if isinstance(it, ast.Call) and au.call_tail(it) == "range" and isinstance(it.func, ast.Name):
            if not isinstance(st.target, ast.Name):
                raise Unsupported("range loop without a simple target")
            if len(it.args) == 1:
                return mk(st.target.id, None, it.args[0])
            if len(it.args) == 2:
                return mk(st.target.id, it.args[0], it.args[1])
            raise Unsupported("range with a step")
        if isinstance(it, ast.Call) and au.call_tail(it) == "enumerate" and isinstance(it.func, ast.Name) and len(it.args) == 1 \
                and not it.keywords:
            if isinstance(st.target, ast.Tuple) and len(st.target.elts) == 2 and isinstance(st.target.elts[0], ast.Name):
                return mk(st.target.elts[0].id, None, self.length_of(it.args[0], st, run))
            raise Unsupported("enumerate loop without (index, value) target")
        return mk(None, None, self.length_of(it, st, run))

    # ---------------------------------------------------------------- the walk
    def runs(self):
        out = []
        for vals in itertools.product((False, True), repeat=len(self.switches)):
            run = Run(dict(zip(self.switches, vals)))
            self._handles_now = {}
            self._walk(self.fn.body, [], [], run, top=True)
            out.append(run)
        return out

    def _loopvars(self, loops):
        return {l.var for l in loops if l.var}

    def _walk(self, body, loops, guards, run, top=False):
        for st in body:
            if isinstance(st, ast.If):
                r = sw_eval(st.test, run.env)
                if r is not None:
                    if self._walk(st.body if r else st.orelse, loops, guards, run, top) == "return":
                        return "return"
                    continue
                if not self.has_effects(st):
                    continue
                keep = tuple(self.mesh) + tuple(self._all_handles())
                cons = parse_guard(st.test, self._loopvars(loops),
                                   lambda e, st=st: fast_resolve(self.b, e, st, keep, env=run.env))   # raises Unsupported
                self._walk(st.body, loops, guards + [(st.test, True, cons)], run)
                self._walk(st.orelse, loops, guards + [(st.test, False, cons)], run)
                continue
            if isinstance(st, (ast.For, ast.AsyncFor)):
                if not self.has_effects(st):
                    continue
                if st.orelse or any(isinstance(s, (ast.Break, ast.Continue, ast.Return)) for s in au.stmts(st.body)):
                    raise Unsupported("loop with break / continue / else around mesh updates")
                lp = self.parse_loop(st, run)
                if lp.var and lp.var in self._loopvars(loops):
                    raise Unsupported("loop variable reused in a nest")
                if any(a in self._loopvars(loops) for a in (lp.lo.atoms() | lp.trip.atoms())):
                    raise Unsupported("non-rectangular loop nest")
                self._walk(st.body, loops + [lp], guards, run)
                continue
            if isinstance(st, (ast.While, ast.Try, ast.With, ast.AsyncWith)) or (hasattr(ast, "Match") and isinstance(st, ast.Match)):
                if self.has_effects(st):
                    raise Unsupported(f"mesh updates inside a {type(st).__name__} statement")
                continue
            if isinstance(st, ast.Return):
                if top or not loops:
                    return "return"
                raise Unsupported("return inside a loop")
            for what, K, payload in self.effects(st, self._handles_now):
                self._effect(what, K, payload, st, loops, guards, run)

    def _mult(self, loops):
        m = Poly.const(1)
        for l in loops:
            m = m * l.trip
        return m

    def _effect(self, what, K, payload, st, loops, guards, run):
        if what == "handle":
            self._handles_now[payload] = K
            return
        if what == "other":
            raise Unsupported(f"unrecognised update of {K}")
        vnow = run.V if not (loops and self.has_effects(loops[0].node, only_vertices=True)) else None
        if what == "attrkey":
            run.emits.append(Emit(K + "-attr", st, payload, [payload], loops, guards, vnow))
            return
        if what == "setitem":
            if K == "vertices":
                run.emits.append(Emit("vertices-store", st, payload, [payload], loops, guards, vnow))
            return
        if K == "vertices":
            if guards:
                raise Unsupported("conditional vertex append")
            if what == "append":
                n = 1
            else:
                n = self._literal_len(payload, st, run)
            run.vsites.append(VSite(st, loops, None, n))
            run.V = run.V + self._mult(loops).scale(n)
            return
        # faces / edges / cells
        tuples = []
        val = self.resolved(payload, st, run)
        if what == "append":
            tuples = [val]
        else:
            if isinstance(val, (ast.List, ast.Tuple)):
                tuples = list(val.elts)
            else:
                raise Unsupported(f"{K} extended with a non-literal list")
        for pos, t in enumerate(tuples):
            if not isinstance(t, (ast.Tuple, ast.List)) or any(isinstance(x, ast.Starred) for x in t.elts):
                raise Unsupported(f"{K} receives `{au.src(t)}`, not an index tuple")
            em = Emit(K, st, t, list(t.elts), loops, guards, vnow)
            em.pos = pos
            run.emits.append(em)

    def _literal_len(self, payload, st, run):
        v = self.resolved(payload, st, run)
        if isinstance(v, (ast.List, ast.Tuple)) and not any(isinstance(x, ast.Starred) for x in v.elts):
            return len(v.elts)
        if isinstance(v, ast.ListComp) and len(v.generators) == 1 and not v.generators[0].ifs \
                and isinstance(v.generators[0].iter, (ast.List, ast.Tuple)):
            return len(v.generators[0].iter.elts)
        raise Unsupported(f"vertices extended with `{au.src(payload)}` of unknown length")

    # ---------------------------------------------------------------- per-emit analysis
    def mins_for(self, em, run):
        mins = dict(self.param_min)

        def derive(p):
            # p >= 0 with p = a + c  =>  a >= -c
            ats = sorted(p.atoms())
            if len(ats) == 1 and p.degree_in(ats[0]) == 1 and p.coeff(ats[0]) == Poly.const(1):
                c = p.without(ats[0]).const_value()
                if c.denominator == 1:
                    mins[ats[0]] = max(mins.get(ats[0], 1), int(-c))
        for l in em.loops:
            derive(l.trip - 1)
        rng, exact = self.ranges(em, mins)
        for v, (lo, hi) in rng.items():
            derive(hi - lo)
        return mins

    def ranges(self, em, mins):
        rng = {l.var: [l.lo, l.hi] for l in em.loops if l.var}
        exact = True
        for test, pol, cons in em.guards:
            if not pol:
                exact = False
                continue
            for var, op, bp in cons:
                if var not in rng or (bp.atoms() & set(rng)):
                    exact = False
                    continue
                lo, hi = rng[var]
                if op in ("<", "<="):
                    nh = bp - 1 if op == "<" else bp
                    if nonneg(hi - nh, mins):
                        rng[var][1] = nh
                    elif not nonneg(nh - hi, mins):
                        exact = False
                elif op in (">", ">="):
                    nl = bp + 1 if op == ">" else bp
                    if nonneg(nl - lo, mins):
                        rng[var][0] = nl
                    elif not nonneg(lo - nl, mins):
                        exact = False
                else:
                    exact = False
        return {k: tuple(v) for k, v in rng.items()}, exact

    def count(self, em, run):
        """Number of executions of the emitting statement as a polynomial (exact) or Unsupported."""
        mins = self.mins_for(em, run)
        rng, exact = self.ranges(em, mins)
        if not exact:
            raise Unsupported("guard of the emitting statement is not a box constraint")
        c = Poly.const(1)
        for l in em.loops:
            if l.var:
                lo, hi = rng[l.var]
                c = c * (hi - lo + 1)
            else:
                c = c * l.trip
        return c

    def running_vnow(self, em, run):
        """|V| at the emitting statement when it sits in the loop nest that appends the vertices:
        base + (completed iterations) * n + (n if the append precedes the statement)."""
        sites = [v for v in run.vsites if v.loops and em.loops and v.loops[0].node is em.loops[0].node]
        if len(sites) != 1:
            raise Unsupported("len(vertices) read in a loop with several vertex appends")
        v = sites[0]
        if [id(l.node) for l in v.loops] != [id(l.node) for l in em.loops] or any(not l.var for l in v.loops):
            raise Unsupported("len(vertices) read at another depth than the vertex append")
        blk, _ = au.enclosing_block(v.stmt)
        anchor = em.stmt
        while anchor is not None and blk is not None and not any(x is anchor for x in blk):
            anchor = au.parent(anchor)
            if isinstance(anchor, (ast.For, ast.While, ast.FunctionDef)):
                anchor = None
        if blk is None or anchor is None:
            raise Unsupported("len(vertices) read outside the block of the vertex append")
        P = nest_base(self, run, v)
        for m, l in enumerate(v.loops):
            term = Poly.atom(l.var) - l.lo
            for l2 in v.loops[m + 1:]:
                term = term * l2.trip
            P = P + term.scale(v.n)
        ids = [id(x) for x in blk]
        if ids.index(id(v.stmt)) < ids.index(id(anchor)):
            P = P + v.n
        return P

    def vnow_of(self, em, run):
        if em.vnow is None and em.loops and not hasattr(em, "_vnow"):
            try:
                em._vnow = self.running_vnow(em, run)
            except Unsupported:
                em._vnow = None
        return em.vnow if em.vnow is not None else getattr(em, "_vnow", None)

    def index_polys(self, em, run):
        em.vnow = self.vnow_of(em, run)
        return [self.poly(x, em.stmt, run, vnow=em.vnow, loops=em.loops) for x in em.idx]

    def index_expr(self, em, k, run):
        return self.resolved(em.idx[k], em.stmt, run, em.loops)

    def prove_in_range(self, P, em, run, V):
        mins = self.mins_for(em, run)
        rng, _ = self.ranges(em, mins)
        bounded = {}
        for a in P.atoms():
            if a in rng:
                bounded[a] = rng[a]
            elif a in run.modinfo:
                bounded[a] = (Poly(), run.modinfo[a][2] - 1)
        for a, (lo, hi) in bounded.items():
            if P.degree_in(a) > 1 or ((lo.atoms() | hi.atoms()) & set(bounded)):
                return False
        names = sorted(bounded)
        for corner in itertools.product((0, 1), repeat=len(names)):
            Q = P
            for a, c in zip(names, corner):
                Q = psubst(Q, a, bounded[a][c])
            if not nonneg(V - 1 - Q, mins) or not nonneg(Q, mins):
                return False
        return True

    # ---------------------------------------------------------------- concrete evaluation (witnesses)
    def ceval(self, e, env, vnow):
        if isinstance(e, ast.Constant) and isinstance(e.value, (int, float)):
            return e.value
        if isinstance(e, ast.Name):
            if e.id in env:
                return env[e.id]
            raise Unsupported(f"free name {e.id}")
        if isinstance(e, ast.UnaryOp) and isinstance(e.op, (ast.USub, ast.UAdd, ast.Not)):
            v = self.ceval(e.operand, env, vnow)
            return -v if isinstance(e.op, ast.USub) else (not v) if isinstance(e.op, ast.Not) else v
        if isinstance(e, ast.BinOp):
            a, b = self.ceval(e.left, env, vnow), self.ceval(e.right, env, vnow)
            try:
                if isinstance(e.op, ast.Add): return a + b
                if isinstance(e.op, ast.Sub): return a - b
                if isinstance(e.op, ast.Mult): return a * b
                if isinstance(e.op, ast.Mod): return a % b
                if isinstance(e.op, ast.FloorDiv): return a // b
                if isinstance(e.op, ast.Pow) and 0 <= b <= 4: return a ** b
            except ZeroDivisionError:
                raise Unsupported("division by zero")
        if isinstance(e, ast.Compare):
            left = self.ceval(e.left, env, vnow)
            from ..order import CMP
            for op, c in zip(e.ops, e.comparators):
                right = self.ceval(c, env, vnow)
                if type(op) not in CMP or not CMP[type(op)](left, right):
                    if type(op) not in CMP:
                        raise Unsupported("comparison")
                    return False
                left = right
            return True
        if isinstance(e, ast.BoolOp):
            vals = [self.ceval(v, env, vnow) for v in e.values]
            return all(vals) if isinstance(e.op, ast.And) else any(vals)
        if isinstance(e, ast.Call) and au.call_tail(e) == "len" and len(e.args) == 1 and self._container(e.args[0]) == "vertices" \
                and vnow is not None:
            return int(vnow.eval(env))
        key = "⟨" + au.src(e) + "⟩"
        if key in env:
            return env[key]
        raise Unsupported(f"cannot evaluate `{au.src(e)}`")

    def _guard_expr(self, test, em):
        cache = self.__dict__.setdefault("_gcache", {})
        k = (id(test), id(em.stmt))
        if k not in cache:
            cache[k] = fast_resolve(self.b, test, em.stmt)
        return cache[k]

    def param_atoms(self, em, run):
        ats = set(run.V.atoms())
        for l in em.loops:
            ats |= l.lo.atoms() | l.trip.atoms()
        lv = self._loopvars(em.loops)
        for x in em.idx:
            e = self.resolved(x, em.stmt, run, em.loops)
            ats |= {n for n in value_names(e) if n not in lv and n not in self.mesh}
        for test, pol, cons in em.guards:
            ats |= {n for n in value_names(fast_resolve(self.b, test, em.stmt)) if n not in lv}
        if em.vnow is not None:
            ats |= {a for a in em.vnow.atoms() if a not in lv}
        return sorted(a for a in ats if a not in run.modinfo)

    def iterate(self, em, run, penv):
        """Yield concrete environments of the executions of em under the parameter assignment penv."""
        def rec(k, env):
            if k == len(em.loops):
                for test, pol, cons in em.guards:
                    if bool(self.ceval(self._guard_expr(test, em), env, em.vnow)) != pol:
                        return
                yield env
                return
            l = em.loops[k]
            lo, trip = int(l.lo.eval(env)), int(l.trip.eval(env))
            for v in range(lo, lo + max(trip, 0)):
                e2 = dict(env)
                if l.var:
                    e2[l.var] = v
                yield from rec(k + 1, e2)
                if not l.var:
                    break  # value loops do not change the indices
        yield from rec(0, dict(penv))

    def param_envs(self, atoms, mins, maxv=MAXPARAM):
        doms = [range(mins.get(a, 1), maxv + 1) for a in atoms]
        if len(atoms) > 4:
            raise Unsupported("too many parameters for the witness search")
        envs = sorted(itertools.product(*doms), key=lambda t: (sum(t), t))
        for vals in envs:
            yield dict(zip(atoms, vals))

    def witness_out_of_range(self, em, k, run, want=None):
        """Smallest parameter assignment for which index k of em is outside [0, |V|) - or None."""
        mins = self.mins_for(em, run)
        atoms = self.param_atoms(em, run)
        e = self.resolved(em.idx[k], em.stmt, run, em.loops)
        free = [a for a in atoms if not a.startswith("⟨") and a not in self.params]
        if free:
            raise Unsupported(f"index uses the local name(s) {free} that have no closed form")
        for penv in self.param_envs(atoms, mins):
            if want is not None and not want(penv):
                continue
            V = int(run.V.eval(penv))
            worst = None
            for env in self.iterate(em, run, penv):
                val = self.ceval(e, env, em.vnow)
                if val < 0 or val >= V:
                    if worst is None or val > worst[0]:
                        worst = (val, {l.var: env[l.var] for l in em.loops if l.var})
            if worst:
                return {"params": penv, "index": int(worst[0]), "n_vertices": V, "iteration": worst[1]}
        return None


def value_names(e):
    """Names read as values (callee names and names under `len(M.vertices)` excluded)."""
    skip = set()
    for n in au.walk(e):
        if isinstance(n, ast.Call):
            if isinstance(n.func, ast.Name):
                skip.add(id(n.func))
            if au.call_tail(n) == "len":
                skip |= {id(x) for x in ast.walk(n)}
    return {n.id for n in au.walk(e) if isinstance(n, ast.Name) and id(n) not in skip}


def parse_guard(test, loopvars, resolve=None):
    """A conjunction of comparisons that are affine in one loop variable with coefficient +-1
    (`i < nu-1`, `j+1 < nv`, `nu-1 > i`) -> [(var, op, bound polynomial)]; anything else Unsupported."""
    conj = test.values if isinstance(test, ast.BoolOp) and isinstance(test.op, ast.And) else [test]
    ops = {ast.Lt: "<", ast.LtE: "<=", ast.Gt: ">", ast.GtE: ">="}
    flip = {"<": ">", "<=": ">=", ">": "<", ">=": "<="}
    out = []
    for c in conj:
        if not isinstance(c, ast.Compare):
            raise Unsupported(f"mesh updates guarded by `{au.src(test)}`")
        terms = [c.left] + list(c.comparators)
        for l, op, r in zip(terms, c.ops, terms[1:]):
            if type(op) not in ops:
                raise Unsupported(f"mesh updates guarded by `{au.src(test)}`")
            o = ops[type(op)]
            try:
                D = sym.to_poly(resolve(l) if resolve else l, opaque=False) - sym.to_poly(resolve(r) if resolve else r, opaque=False)
            except sym.NotPoly:
                raise Unsupported(f"mesh updates guarded by `{au.src(test)}`")
            vs = [a for a in D.atoms() if a in loopvars]
            if len(vs) != 1 or D.degree_in(vs[0]) != 1 or not D.coeff(vs[0]).is_const() or abs(D.coeff(vs[0]).const_value()) != 1:
                raise Unsupported(f"mesh updates guarded by `{au.src(test)}`")
            x = vs[0]
            cf = D.coeff(x).const_value()
            rest = D.without(x)
            # cf*x + rest <o> 0
            if cf == 1:
                out.append((x, o, -rest))
            else:
                out.append((x, flip[o], rest))
    return out


def fmt_env(d):
    return ", ".join(f"{k}={v}" for k, v in sorted(d.items()))


# ------------------------------------------------------------------ vertex nest / stride
def rect_nest(run):
    """The unique vertex-append site inside a two-level indexed loop nest -> (site, outer Loop, inner Loop) or None."""
    c = [v for v in run.vsites if len(v.loops) == 2 and v.n == 1]
    if len(c) != 1:
        return None
    v = c[0]
    # no other vertex site inside the same outer loop
    if any(w is not v and w.loops and w.loops[0].node is v.loops[0].node for w in run.vsites):
        return None
    return v, v.loops[0], v.loops[1]


def nest_base(g, run, vsite):
    """|V| before the outermost loop of the vertex nest (sum of the sites that precede it in the walk)."""
    base = Poly()
    for w in run.vsites:
        if w is vsite:
            break
        base = base + g._mult(w.loops).scale(w.n)
    return base


def stride_obligations(g, run, nest):
    """For every stored vertex index: coefficient of row-like atoms == inner trip B, of column-like atoms == 1.
    Yields (emit, k, atom, role, coeff, expected, ok)."""
    vsite, outer, inner = nest
    A, B = outer.trip, inner.trip
    aA, aB = A.atoms(), B.atoms()
    if not aA or not aB or (aA & aB):
        raise Unsupported("the two resolutions of the vertex nest are not independent parameters")
    for em in run.emits:
        if em.kind not in ("faces", "edges", "cells", "vertices-attr", "vertices-store"):
            continue
        same_nest = len(em.loops) >= 2 and em.loops[0].node is outer.node and em.loops[1].node is inner.node
        for k, P in enumerate(g.index_polys(em, run)):
            for a in sorted(P.atoms()):
                if a in run.modinfo:
                    R = run.modinfo[a][2].atoms()
                elif any(l.var == a for l in em.loops):
                    l = next(l for l in em.loops if l.var == a)
                    if same_nest and l.node is outer.node:
                        R = aA
                    elif same_nest and l.node is inner.node:
                        R = aB
                    else:
                        R = l.trip.atoms()
                else:
                    continue
                role = "row" if R and R <= aA else "column" if R and R <= aB else None
                if role is None:
                    continue
                c = P.coeff(a)
                lin = P.degree_in(a) == 1
                exp = B if role == "row" else Poly.const(1)
                yield em, k, a, role, c, exp, (lin and c == exp)


def stride_witness(g, run, nest, em, k, coeff, expected):
    """Concrete parameters where the stride differs from the row length, preferring an out-of-range index."""
    def differs(penv):
        try:
            return coeff.eval(penv) != expected.eval(penv)
        except KeyError:
            return True
    w = g.witness_out_of_range(em, k, run, want=differs)
    if w:
        return (f"{fmt_env(w['params'])}: stored index {w['index']} at iteration ({fmt_env(w['iteration'])}) "
                f">= {w['n_vertices']} vertices")
    mins = g.mins_for(em, run)
    for penv in g.param_envs(g.param_atoms(em, run), mins):
        if differs(penv):
            try:
                return (f"{fmt_env(penv)}: the index advances by {coeff.eval(penv)} per step where the vertex numbering advances by "
                        f"{expected.eval(penv)} (the index addresses a vertex of another row/column)")
            except KeyError:
                break
    return None


def attr_key_check(g, run, nest, em, P):
    """A vertex-attribute key written in the iteration that appends a vertex must be that vertex's index.
    -> (applicable, ok, expected polynomial, witness text)"""
    vsite, outer, inner = nest
    same = len(em.loops) == 2 and em.loops[0].node is outer.node and em.loops[1].node is inner.node
    if not same:
        return False, True, None, ""
    want = nest_base(g, run, vsite) + (Poly.atom(outer.var) - outer.lo) * inner.trip + (Poly.atom(inner.var) - inner.lo)
    if P == want:
        return True, True, want, ""
    try:
        for penv in g.param_envs(g.param_atoms(em, run), g.mins_for(em, run)):
            for env in g.iterate(em, run, penv):
                if P.eval(env) != want.eval(env):
                    return True, False, want, (f"witness {fmt_env(penv)}: at iteration ({outer.var}={env[outer.var]}, {inner.var}={env[inner.var]}) "
                                               f"vertex {want.eval(env)} is appended but key {P.eval(env)} is written")
    except (Unsupported, KeyError):
        pass
    return True, True, want, ""   # differs syntactically only (mod atoms ...): no concrete witness, no alarm


# ------------------------------------------------------------------ literal tables
def directed_edges(f):
    return [(f[i], f[(i + 1) % len(f)]) for i in range(len(f))]


def table_problems(faces, nverts, closed):
    probs = []
    for f in faces:
        if len(set(f)) != len(f):
            probs.append(("face repeats a vertex", f"face {f}"))
        if any(not (0 <= v < nverts) for v in f):
            probs.append(("face index out of range", f"face {f} with {nverts} vertices appended"))
    rot = Counter()
    for f in faces:
        m = f.index(min(f))
        rot[tuple(f[m:] + f[:m])] += 1
    dup = [f for f, c in rot.items() if c > 1]
    if dup:
        probs.append(("face listed twice", f"{dup}"))
    de = Counter(e for f in faces for e in directed_edges(f))
    bad = sorted(e for e, c in de.items() if c > 1)
    if bad:
        probs.append(("a directed edge is used by two faces (faces not consistently oriented)",
                      f"directed edges {bad} occur twice"))
    und = Counter(tuple(sorted(e)) for f in faces for e in directed_edges(f))
    if closed:
        badu = {e: c for e, c in sorted(und.items()) if c != 2}
        if badu:
            probs.append(("an edge of the closed shape is not shared by exactly two faces", f"{badu}"))
        used = {v for f in faces for v in f}
        if set(range(nverts)) - used:
            probs.append(("a vertex of the closed shape is not referenced by any face", f"unused {sorted(set(range(nverts)) - used)}"))
        chi = nverts - len(und) + len(faces)
        if not badu and chi != 2:
            probs.append(("Euler characteristic of the closed table is not 2", f"V-E+F = {nverts}-{len(und)}+{len(faces)} = {chi}"))
    else:
        badu = {e: c for e, c in sorted(und.items()) if c > 2}
        if badu:
            probs.append(("an edge is shared by more than two faces", f"{badu}"))
    return probs


def literal_tuple(t):
    vals = [au.const(x) for x in t]
    return tuple(vals) if all(isinstance(v, int) and not isinstance(v, bool) for v in vals) else None


# ------------------------------------------------------------------ positional forwarding (R-RESOLVE)
def defaulted_params(fn):
    a = fn.args
    pos = a.posonlyargs + a.args
    return {p.arg for p in pos[len(pos) - len(a.defaults):]}


def forwarding_sites(repo, module):
    """Calls in `module` to functions defined in the package where a plain variable is passed positionally.
    Yields (caller fn, call, callee fn, position, variable name, receiving parameter name)."""
    for q, fn in module.funcs.items():
        for c in au.calls(fn):
            if not isinstance(c.func, ast.Name):
                continue
            r = repo.resolve_func(module.name, c.func.id)
            if not r or r[1] is None:
                continue
            callee = r[1]
            pos = [p.arg for p in callee.args.posonlyargs + callee.args.args]
            for i, a in enumerate(c.args):
                if isinstance(a, ast.Starred):
                    break
                if isinstance(a, ast.Name) and i < len(pos):
                    yield fn, c, callee, i, a.id, pos[i]
