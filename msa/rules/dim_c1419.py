"""R-DIM for C14 / C19 (agent c1419): a forward abstract interpretation of one function over

  deg    physical dimension in "length" (Fraction) | ANY (pure literal, polymorphic) | None (unknown)
  aff    affine weight: 1 = point (moves with the centre), 0 = vector / scalar | ANY | None
  deps   the geometric parameters the value must depend on (must-dependence: union through
         operators, intersection over control-flow joins and over the elements of a container)
  shape  tuple of polynomials (leading dimension = number of rows) | None

Nothing of the repository is executed: the interpreter reads the AST, statement by statement."""
from __future__ import annotations
import ast, itertools
from fractions import Fraction
from .. import au, sym
from ..sym import Poly

ANY = "any"
F0, F1 = Fraction(0), Fraction(1)
TOP = None  # deps of an empty container
UNKNOWN_DEP = "?"
ALL = frozenset([UNKNOWN_DEP])  # marker inside a dependence set: the value may also depend on things the interpreter did not see (never refutes)


def has_dep(deps, name):
    return deps is not None and name in deps


class AV:
    __slots__ = ("deg", "aff", "deps", "shape", "items", "verts", "missing", "unit", "sym", "val", "_empty", "ref", "rec", "fn", "seq")

    def __init__(self, deg=None, aff=None, deps=frozenset(), shape=None, items=None, verts=None, missing=None, unit=False):
        self.deg, self.aff, self.deps, self.shape = deg, aff, deps, shape
        self.items, self.verts, self.missing = items, verts, dict(missing or {})
        self.unit = unit   # True for values known to lie in [0, 1] (not used for alarms)
        self.sym = None    # SV: symbolic scalar / unit-vector facts (only filled when Config.unit is on)
        self.val = None    # Poly: symbolic value of an integer scalar (sizes are named in the caller's parameters)
        self._empty = False
        self.seq = None    # "list" for a python list / tuple (its `+` concatenates, its `*` repeats); None for arrays and unknown values
        self.fn = None     # (Lambda | FunctionDef, environment it closes over, Interp that owns it) for a callable value
        self.rec = None    # (ClassDef, {field: AV}) for an instance of a NamedTuple / dataclass of the package
        self.ref = None    # name of the parameter of the analysed function this value *is* (an object whose attributes are geometric inputs)

    @property
    def empty(self):
        """an array with no row / a mesh with no vertex / an empty list: carries no coordinates"""
        if self._empty:
            return True
        v = self.verts if self.verts is not None else self
        return bool(v.shape) and isinstance(v.shape[0], Poly) and v.shape[0].is_zero()

    def copy(self, **kw):
        o = AV(self.deg, self.aff, self.deps, self.shape, self.items, self.verts, self.missing, self.unit)
        o.sym = self.sym
        o.val = self.val
        o.ref = self.ref
        o.rec = self.rec
        o.fn = self.fn
        o.seq = self.seq
        for k, v in kw.items():
            setattr(o, k, v)
        return o

    @property
    def opaque(self):
        return self.deps is not None and UNKNOWN_DEP in self.deps

    def __repr__(self):
        return f"AV(deg={self.deg}, aff={self.aff}, deps={self.deps if self.deps is None else sorted(self.deps)}, shape={self.shape})"


# ------------------------------------------------------------------ symbolic scalars / unit vectors (R-DIM "unit vector" fact)
class Rat:
    """rational function num/den over named atoms (Poly / Poly)"""
    __slots__ = ("num", "den")

    def __init__(self, num, den=None):
        self.num, self.den = sym._p(num), sym._p(den if den is not None else 1)

    def __add__(self, o):
        return Rat(self.num * o.den + o.num * self.den, self.den * o.den) if self.den != o.den else Rat(self.num + o.num, self.den)

    def __sub__(self, o):
        return self + Rat(-o.num, o.den)

    def __mul__(self, o):
        return Rat(self.num * o.num, self.den * o.den)

    def __truediv__(self, o):
        return Rat(self.num * o.den, self.den * o.num)

    def __neg__(self):
        return Rat(-self.num, self.den)

    def same(self, o):
        return (self.num * o.den) == (o.num * self.den)

    def key(self):
        return f"({self.num})/({self.den})"

    __repr__ = key


class SV:
    """sx: symbolic value of a scalar; comps: components of an explicit vector; isvec: a 3-vector; unorm: proved to
    have norm 1; israd: a bare radius parameter; vid: identity of an opaque vector (for its .x/.y/.z atoms);
    normof: source text of x when the value is norm(x)."""
    __slots__ = ("sx", "comps", "isvec", "unorm", "israd", "vid", "normof", "refuted", "arr")

    def __init__(self, sx=None, comps=None, isvec=False, unorm=False, israd=False, vid=None, normof=None, refuted=None):
        self.sx, self.comps, self.isvec, self.unorm, self.israd, self.vid, self.normof = sx, comps, isvec, unorm, israd, vid, normof
        self.refuted = refuted      # text of the squared norm when it is provably not 1 (a vector that is provably not unit)
        self.arr = False            # an array: the facts describe its generic element (atoms marked with GEN, instantiated per loop)


GEN = "•"
UNK = "¿"      # prefix of the atom of a scalar whose value is unknown (it may be constrained: proofs may use it, refutations may not)
_VID = itertools.count(1)


def rename_poly(P, f):
    t = {}
    for k, v in P.t.items():
        kk = tuple(sorted(f(a) for a in k))
        t[kk] = t.get(kk, 0) + v
    return Poly(t)


def join_sv(a, b):
    if a is None or b is None:
        return None
    if a is b:
        return a
    sx = a.sx if (a.sx is not None and b.sx is not None and a.sx.same(b.sx)) else None
    comps = None
    if a.comps is not None and b.comps is not None and len(a.comps) == len(b.comps) \
            and all(x is not None and y is not None and x.same(y) for x, y in zip(a.comps, b.comps)):
        comps = a.comps
    out = SV(sx, comps, a.isvec and b.isvec, a.unorm and b.unorm, a.israd and b.israd, a.vid if a.vid == b.vid else None, None,
             a.refuted or b.refuted)
    out.arr = bool(a.arr and b.arr)
    return out


def subst_square(P, a, Q):
    """replace every a**2 in P by the polynomial Q"""
    out = Poly()
    for k, v in P.t.items():
        n = k.count(a)
        rest = tuple(x for x in k if x != a)
        term = Poly({rest + ((a,) if n % 2 else ()): v})
        term = Poly({tuple(sorted(kk)): vv for kk, vv in term.t.items()})
        for _ in range(n // 2):
            term = term * Q
        out = out + term
    return out


def lit():
    return AV(ANY, ANY, frozenset(), ())


def scalar0(deps=frozenset()):
    return AV(F0, F0, deps, ())


def unk(deps=frozenset()):
    return AV(None, None, deps, None)


def dunion(*ds):
    out = frozenset()
    for d in ds:
        if d is not None:
            out |= d
    return out


# ---- degree algebra
def add_deg(a, b):
    """degree of a sum; returns (deg, mismatch)"""
    if a == ANY:
        return b, False
    if b == ANY:
        return a, False
    if a is None:
        return b, False
    if b is None:
        return a, False
    if a == b:
        return a, False
    return None, True


def mul_deg(a, b, sign=1):
    if a is None or b is None:
        return None
    if a == ANY and b == ANY:
        return ANY
    a = F0 if a == ANY else a
    b = F0 if b == ANY else b
    return a + sign * b


def join_deg(a, b):
    if isinstance(a, AffMix) or isinstance(b, AffMix):
        return a if a == b else None
    if a == ANY:
        return b
    if b == ANY:
        return a
    if a is None or b is None:
        return None
    return a if a == b else None


class AffMix(frozenset):
    """rows of one array with different known affine weights (a store through a proper part of the rows changed the weight of
    that part only): never equal to a number, unknown in arithmetic"""

    def __repr__(self):
        return "mixed{" + ", ".join(str(x) for x in sorted(self)) + "}"


def add_aff(a, b, sign=1):
    if a is None or b is None or isinstance(a, AffMix) or isinstance(b, AffMix):
        return None
    if a == ANY and b == ANY:
        return ANY
    a = F0 if a == ANY else a
    b = F0 if b == ANY else b
    return a + sign * b


def mul_aff(a, b):
    if isinstance(a, AffMix) or isinstance(b, AffMix):
        return None
    if a == ANY and b == ANY:
        return ANY
    if a in (F0, ANY) and b in (F0, ANY):
        return F0
    return None


# ---- shapes
def shape_of_size(e, topoly):
    if e is None:
        return ()
    if isinstance(e, (ast.Tuple, ast.List)):
        return tuple(topoly(x) for x in e.elts)
    return (topoly(e),)


def broadcast(s1, s2):
    if s1 is None:
        return s2
    if s2 is None:
        return s1
    if len(s1) < len(s2):
        s1, s2 = s2, s1
    s2 = (Poly.const(1),) * (len(s1) - len(s2)) + tuple(s2)
    out = []
    for a, b in zip(s1, s2):
        if a is None or b is None:
            out.append(a if b is None else b)
        elif isinstance(a, AltDim) or isinstance(b, AltDim):
            out.append(a if isinstance(a, AltDim) else b)
        elif a == b:
            out.append(a)
        elif a == Poly.const(1):
            out.append(b)
        elif b == Poly.const(1):
            out.append(a)
        else:
            out.append(None)
    return tuple(out)


class AltDim(frozenset):
    """a dimension that differs between control-flow paths (set of the alternative polynomials)"""

    def __str__(self):
        return " | ".join(sorted(str(x) for x in self))

    __repr__ = __str__


def same_dim(a, b):
    return isinstance(a, Poly) and isinstance(b, Poly) and a == b


def same_shape(a, b):
    """two shapes whose every dimension is known and equal"""
    return a is not None and b is not None and len(a) == len(b) and all(same_dim(x, y) for x, y in zip(a, b))


def _jdim(x, y):
    if x is None or y is None:
        return None
    xs = x if isinstance(x, AltDim) else AltDim([x])
    ys = y if isinstance(y, AltDim) else AltDim([y])
    u = AltDim(xs | ys)
    return next(iter(u)) if len(u) == 1 else u


def join_shape(a, b):
    if a is None or b is None:
        return None
    if len(a) != len(b):
        # e.g. a list of n points and an (n, 3) array: the leading dimension is what the two have in common
        return (_jdim(a[0], b[0]),) if a and b else None
    return tuple(_jdim(x, y) for x, y in zip(a, b))


def join_av(a, b, label_a="", label_b=""):
    """control-flow join"""
    if a is None:
        return b
    if b is None:
        return a
    if a.deps is None:
        deps = b.deps
    elif b.deps is None:
        deps = a.deps
    else:
        deps = (a.deps & b.deps) | ((a.deps | b.deps) & ALL)
    missing = dict(a.missing)
    missing.update(b.missing)
    if a.deps is not None and b.deps is not None and UNKNOWN_DEP not in (a.deps | b.deps):
        for d in a.deps - b.deps:
            missing.setdefault(d, label_b)
        for d in b.deps - a.deps:
            missing.setdefault(d, label_a)
    verts = join_av(a.verts, b.verts, label_a, label_b) if (a.verts is not None and b.verts is not None) else None
    if verts is None and (a.verts is None) != (b.verts is None):
        # `return as_point_cloud(pts) if flag else pts`: coordinates either way
        m, arr = (a, b) if a.verts is not None else (b, a)
        if arr.deg is not None and arr.items is None:
            verts = join_av(m.verts, arr, label_a, label_b)
    items = None
    if a.items is not None and b.items is not None and len(a.items) == len(b.items):
        items = [join_av(x, y, label_a, label_b) for x, y in zip(a.items, b.items)]
    if a.empty != b.empty:
        # an empty special-case value joined with the real result: the result carries the coordinates
        keep = b if a.empty else a
        out = keep.copy()
        return out
    shape = join_shape(a.shape, b.shape)
    if (a.items is None) != (b.items is None) and a.shape and b.shape and len(a.shape) != len(b.shape) and not same_dim(a.shape[0], b.shape[0]):
        shape = None        # a tuple of results on one side, a single result on the other: not one array with alternative row counts
    out = AV(join_deg(a.deg, b.deg), join_deg(a.aff, b.aff), deps, shape, items, verts, missing,
             a.unit and b.unit)
    out.sym = join_sv(a.sym, b.sym)
    out._empty = a.empty and b.empty
    out.seq = a.seq if a.seq == b.seq else None
    return out


def elem_join(container, new):
    """content of a container after one more element / row has been stored"""
    if container is None:
        return new, False
    deg, bad = add_deg(container.deg, new.deg)
    aff = join_deg(container.aff, new.aff) if not (container.aff == ANY) else new.aff
    # some element depends on d  <=>  d reaches the returned coordinates: union over the elements
    deps = dunion(container.deps, new.deps)
    missing = dict(container.missing)
    missing.update(new.missing)
    missing = {k: v for k, v in missing.items() if not has_dep(deps, k)}
    return AV(deg, aff, deps, container.shape, None, None, missing), bad


SAME = {"abs", "fabs", "round", "float", "int", "copy", "deepcopy", "array", "asarray", "list", "tuple", "Vec", "ravel", "flatten",
        "squeeze", "as_array", "astype", "sorted", "max", "min", "maximum", "minimum", "sum", "mean", "real", "clip", "view",
        "reversed", "ascontiguousarray", "asfarray", "atleast_2d", "nan_to_num"}
PURE0 = {"sin", "cos", "tan", "arcsin", "arccos", "arctan", "arctan2", "exp", "log", "tanh", "floor", "ceil", "radians", "degrees",
         "asin", "acos", "atan", "atan2"}
ZEROS = {"zeros", "ones", "empty"}
STACK = {"vstack", "hstack", "stack", "concatenate", "column_stack", "row_stack"}
MESHY = {"SurfaceMesh", "PolyLine", "PointCloud", "VolumeMesh", "_instanciate_raw_mesh_data", "SurfaceSubdivision", "RawMeshData",
         "from_arrays"}
ROT = {"rotate_around_axis", "rotate_2d"}
PROD = {"cross", "dot", "outer", "vdot"}


class Config:
    """geo: dotted name -> (deg, aff) of the geometric inputs of the function."""

    def __init__(self, geo=None, repo=None, modname=None, consts=None, unit=False):
        self.unit = unit   # derive symbolic scalars / unit-vector facts and the radius-times-direction obligations
        self.geo = {k: (Fraction(v[0]), Fraction(v[1])) for k, v in (geo or {}).items()}
        self.repo, self.modname = repo, modname
        self.consts = dict(consts or {})   # parameter name -> python constant (specialises `if p == "literal"` tests)

    def decide(self, test):
        """truth value of `name == const` / `name != const` tests on a specialised parameter, else None"""
        if isinstance(test, ast.Compare) and len(test.ops) == 1 and isinstance(test.left, ast.Name) and test.left.id in self.consts \
                and isinstance(test.comparators[0], ast.Constant) and isinstance(test.ops[0], (ast.Eq, ast.NotEq)):
            eq = self.consts[test.left.id] == test.comparators[0].value
            return eq if isinstance(test.ops[0], ast.Eq) else not eq
        if isinstance(test, ast.Call) and isinstance(test.func, ast.Attribute) and not test.args:
            return None
        return None


class Interp:
    def __init__(self, fn, cfg, args=None, depth=0, closure=None, local_funcs=None):
        self.fn, self.cfg, self.depth = fn, cfg, depth
        self.closure = dict(closure or {})          # environment of the enclosing function (nested helpers read its variables)
        self.local_funcs = dict(local_funcs or {})  # name -> nested FunctionDef / Lambda visible here
        self.events = []      # (node, kind, detail)
        self.returns = []     # (node, AV)
        self.fills = []       # (node, rows of the array, trip count of the loop whose index addresses the row)
        self.fn_imports = {}     # name bound by an import statement inside the function -> (module, original name)
        if isinstance(fn, (ast.FunctionDef, ast.AsyncFunctionDef)) and cfg.modname:
            full_ = cfg.modname if cfg.modname.startswith("mouette") else "mouette." + cfg.modname
            is_pkg_ = False
            try:
                is_pkg_ = bool(cfg.repo.module(full_).is_pkg) if cfg.repo is not None else False
            except Exception:
                pass
            for n_ in au.walk(fn):
                if isinstance(n_, ast.ImportFrom):
                    parts_ = full_.split(".")
                    base_ = parts_ if is_pkg_ else parts_[:-1]
                    if n_.level:
                        base_ = base_[:len(base_) - (n_.level - 1)] if n_.level > 1 else base_
                        src_ = ".".join(base_ + ([n_.module] if n_.module else []))
                    else:
                        src_ = n_.module or ""
                    for a_ in n_.names:
                        self.fn_imports[a_.asname or a_.name] = (src_, a_.name)
        self.pos_norms = []        # AVs that are the euclidean length of a position (affine weight 1)
        self.partial_stores = {}   # array name -> store through a proper part of its rows that changed the affine weight of that part
        self.yields = []         # (node, AV) values produced by a generator function
        self.appended = {}       # id(call) -> shape of the value appended by that call
        self.func_alias = {}     # local name -> the function / bound method it is an alias of (`rotate = rotate_around_axis`)
        if isinstance(fn, (ast.FunctionDef, ast.AsyncFunctionDef)):
            counts = {}
            for n_ in au.walk(fn):
                if isinstance(n_, ast.Name) and isinstance(n_.ctx, ast.Store):
                    counts[n_.id] = counts.get(n_.id, 0) + 1
            for st_ in au.stmts(fn.body):
                if isinstance(st_, ast.Assign) and len(st_.targets) == 1 and isinstance(st_.targets[0], ast.Name) and counts.get(st_.targets[0].id) == 1 \
                        and isinstance(st_.value, ast.IfExp) and all(isinstance(x_, (ast.Name, ast.Attribute)) and au.chain(x_) for x_ in (st_.value.body, st_.value.orelse)):
                    uses_ = [n_ for n_ in au.walk(fn) if isinstance(n_, ast.Name) and n_.id == st_.targets[0].id and isinstance(n_.ctx, ast.Load)]
                    if uses_ and all(isinstance(au.parent(u_), ast.Call) and au.parent(u_).func is u_ for u_ in uses_):
                        self.func_alias[st_.targets[0].id] = st_.value      # draw = random if rng is None else rng.random_sample
                elif isinstance(st_, ast.Assign) and len(st_.targets) == 1 and isinstance(st_.targets[0], ast.Name) and counts.get(st_.targets[0].id) == 1 \
                        and isinstance(st_.value, (ast.Name, ast.Attribute)) and au.chain(st_.value):
                    ch_ = au.chain(st_.value)
                    root_ = ch_[0]
                    # an alias of a callable: a module function / numpy function (root is not a local), or a bound method used only in calls
                    uses_ = [n_ for n_ in au.walk(fn) if isinstance(n_, ast.Name) and n_.id == st_.targets[0].id and isinstance(n_.ctx, ast.Load)]
                    only_called = uses_ and all(isinstance(au.parent(u_), ast.Call) and au.parent(u_).func is u_ for u_ in uses_)
                    if only_called and counts.get(root_, 0) <= 1:
                        self.func_alias[st_.targets[0].id] = st_.value
                elif isinstance(st_, ast.Assign) and len(st_.targets) == 1 and isinstance(st_.targets[0], ast.Name) and counts.get(st_.targets[0].id) == 1 \
                        and isinstance(st_.value, ast.Call) and au.call_tail(st_.value) == "partial" and st_.value.args:
                    self.func_alias[st_.targets[0].id] = st_.value
                elif isinstance(st_, ast.Assign) and len(st_.targets) == 1 and isinstance(st_.targets[0], ast.Name) and counts.get(st_.targets[0].id) == 1 \
                        and isinstance(st_.value, ast.Subscript) and isinstance(self._table_node(st_.value.value, counts), ast.Dict):
                    # a dispatch table indexed by a specialised parameter: `{"uniform": f, "grid": g}[mode]`
                    key_ = st_.value.slice
                    kv_ = cfg.consts.get(key_.id, KeyError) if isinstance(key_, ast.Name) else (key_.value if isinstance(key_, ast.Constant) else KeyError)
                    if kv_ is not KeyError:
                        tbl_ = self._table_node(st_.value.value, counts)
                        for k_, v_ in zip(tbl_.keys, tbl_.values):
                            if isinstance(k_, ast.Constant) and k_.value == kv_ and isinstance(v_, (ast.Name, ast.Attribute, ast.Lambda)):
                                self.func_alias[st_.targets[0].id] = v_
        self.vertex_stores = []  # (node, AV) coordinates written into a vertex container
        self.loop_len = {}
        self.unit_obl = {}     # id(node) -> [node, proved on every pass, kind, detail]
        self.sq, self.trig, self.triples = {}, {}, {}
        self._vid = 0
        self.params = au.params(fn)
        self.cur_env = {}
        # every name bound anywhere in the function (a read of such a name that the environment does not know comes from a binding
        # form the interpreter does not model: its provenance is unknown, not "independent of the parameters")
        self.assigned = set()
        for n in ast.walk(fn):
            if isinstance(n, ast.Name) and isinstance(n.ctx, (ast.Store, ast.Del)):
                self.assigned.add(n.id)
            elif isinstance(n, ast.ExceptHandler) and n.name:
                self.assigned.add(n.name)
            elif isinstance(n, (ast.FunctionDef, ast.AsyncFunctionDef, ast.ClassDef)) and n is not fn:
                self.assigned.add(n.name)
        self.attr_stores = set()
        for n in ast.walk(fn):
            if isinstance(n, ast.Attribute) and isinstance(n.ctx, ast.Store):
                c = au.chain(n)
                if c:
                    self.attr_stores.add(".".join(c))
        env = dict(self.closure)
        a = fn.args
        pos = a.posonlyargs + a.args
        defaults = dict(zip([p.arg for p in pos[len(pos) - len(a.defaults):]], a.defaults))
        for p, d in zip(a.kwonlyargs, a.kw_defaults):
            if d is not None:
                defaults[p.arg] = d
        for p in self.params:
            if args is not None and p in args:
                env[p] = args[p]
            elif args is not None and p in defaults:
                env[p] = self.ev(defaults[p], {})
            elif p in self.cfg.geo and args is None:
                d, f = self.cfg.geo[p]
                env[p] = AV(d, f, frozenset([p]), None)
            else:
                if _countlike(fn, p, defaults.get(p)):
                    env[p] = AV(F0, F0, frozenset([p]), ())
                    env[p].val = Poly.atom(p)
                else:
                    # neither declared geometric nor visibly a count / switch: nothing is assumed about its dimension
                    env[p] = AV(None, None, frozenset([p]), None)
                    if args is None and any(k_.startswith(p + ".") for k_ in self.cfg.geo):
                        env[p].ref = p      # an object (box ...) whose attributes are the geometric inputs: followed into helpers
        if self.cfg.unit:
            for p in self.params:
                if env[p].sym is not None:
                    continue
                env[p] = env[p].copy()
                if args is None and p in self.cfg.geo:
                    d, f = self.cfg.geo[p]
                    env[p].sym = SV(sx=Rat(Poly.atom(p)), israd=True) if f == 0 else SV(isvec=True, vid=p)
                elif args is None:
                    env[p].sym = SV(sx=Rat(Poly.atom(p)))
        self.env0 = env

    # ------------------------------------------------------------------ symbolic layer
    def new_vid(self):
        return f"v{next(_VID)}"

    def inst(self, v, tag, axis=None):
        """the element of an array taken by the loop `tag`: the generic atoms of its facts become atoms of that iteration.
        With `axis` the array stays generic but its entries are those along that axis of a grid (meshgrid / outer / x[:, None]):
        the generic index is renamed so that entries taken along different axes are different symbols."""
        if v is None or not v.arr:
            return v
        new = ("@" + str(tag)) if axis is None else (GEN + "a%d" % axis)

        def f(a):
            if GEN not in a:
                return a
            b = a.replace(GEN, new)
            if a in self.trig:
                self.trig[b] = self.trig[a].replace(GEN, new)
            if a in self.sq:
                self.sq[b] = rename_poly(self.sq[a], f)
            if a in self.triples:
                self.triples[b] = tuple(x.replace(GEN, new) for x in self.triples[a])
            return b

        def rr(x):
            return None if x is None else Rat(rename_poly(x.num, f), rename_poly(x.den, f))
        out = SV(rr(v.sx), [rr(c) for c in v.comps] if v.comps is not None else None, v.isvec, v.unorm, False,
                 v.vid.replace(GEN, new) if v.vid else None, None, v.refuted)
        out.arr = axis is not None
        return out

    def reduce(self, P):
        """normal form modulo sqrt(E)**2 = E, cos**2 = 1 - sin**2, |u| = 1 for proved unit vectors"""
        for _ in range(12):
            Q = P
            for a in sorted(P.atoms()):
                if P.degree_in(a) < 2:
                    continue
                if a in self.sq:
                    P = subst_square(P, a, self.sq[a])
                elif a in self.trig:
                    P = subst_square(P, a, Poly.const(1) - Poly.atom(self.trig[a]) * Poly.atom(self.trig[a]))
                elif a in self.triples:
                    x, y = self.triples[a]
                    P = subst_square(P, a, Poly.const(1) - Poly.atom(x) * Poly.atom(x) - Poly.atom(y) * Poly.atom(y))
            if P == Q:
                break
        return P

    def is_unit(self, comps):
        if comps is None or any(c is None for c in comps):
            return False
        tot = Rat(Poly())
        for c in comps:
            tot = tot + c * c
        return self.reduce(tot.num - tot.den).is_zero() and not tot.den.is_zero()

    def norm_residual(self, comps):
        """text of |v|^2 when the components are all known and |v|^2 - 1 does not reduce to 0 (provably not a unit vector:
        every atom of the symbolic layer is free up to the identities `reduce` applies); None otherwise"""
        if comps is None or any(c is None for c in comps):
            return None
        tot = Rat(Poly())
        for c in comps:
            tot = tot + c * c
        if tot.den.is_zero():
            return None
        res = self.reduce(tot.num - tot.den)
        if res.is_zero():
            return None
        if any(UNK in a for a in res.atoms()):
            return None         # involves a value the analysis does not know: not a refutation
        num = self.reduce(tot.num)
        return str(num) if tot.den == Poly.const(1) else f"({num})/({self.reduce(tot.den)})"

    def status(self, v):
        """(proved unit, refutation text | None) of a symbolic vector"""
        if v is None:
            return False, None
        if v.unorm or self.is_unit(v.comps):
            return True, None
        return False, v.refuted or self.norm_residual(v.comps)

    def comps_of(self, v):
        """components of a symbolic vector: explicit ones, or the atoms vid.x / vid.y / vid.z of a named opaque vector"""
        if v is None or not v.isvec:
            return None
        if v.comps is not None and len(v.comps) == 3 and all(c is not None for c in v.comps):
            return list(v.comps)
        if v.vid is not None and v.comps is None:
            if v.unorm:
                self.triples[f"{v.vid}.z"] = (f"{v.vid}.x", f"{v.vid}.y")
            return [Rat(Poly.atom(f"{v.vid}.{a}")) for a in "xyz"]
        return None

    def obligation(self, node, ok, kind, detail, tag="", refuted=None):
        cur = self.unit_obl.get((id(node), tag))
        if cur is None:
            self.unit_obl[(id(node), tag)] = [node, bool(ok), kind, detail, refuted if not ok else None]
        else:
            cur[1] = cur[1] and bool(ok)
            if not ok:
                cur[3] = detail
                cur[4] = cur[4] or refuted

    def merge_obligation(self, key, o):
        """an obligation recorded by the interpretation of a helper: every instance (call) must hold"""
        cur = self.unit_obl.get(key)
        if cur is None:
            self.unit_obl[key] = list(o)
        else:
            cur[1] = cur[1] and o[1]
            if not o[1]:
                cur[3] = o[3]
                cur[4] = cur[4] or o[4]

    def coeff_obligations(self, node, comps):
        """explicit coordinates that are linear in a radius: the coefficient vector of the radius must be a unit vector"""
        for r in sorted(self.radius_atoms()):
            if not any(r in x.num.atoms() or r in x.den.atoms() for x in comps):
                continue
            if any(r in x.den.atoms() or x.num.degree_in(r) > 1 for x in comps):
                continue   # not linear in the radius: left to the degree rule
            coeff = [Rat(x.num.coeff(r), x.den) for x in comps]
            self.obligation(node, self.is_unit(coeff), "radius-coefficient",
                            f"d/d{r} = ({', '.join(str(q.num) if q.den == Poly.const(1) else q.key() for q in coeff)})", tag=r,
                            refuted=self.norm_residual(coeff))

    def radius_atoms(self):
        return {p for p, (d, f) in self.cfg.geo.items() if d == 1 and f == 0 and "." not in p}

    def sv(self, e, env):
        """symbolic value of an expression (None = nothing known); records the unit obligations on the way"""
        if not self.cfg.unit or e is None:
            return None
        m = getattr(self, "sv_" + type(e).__name__, None)
        if m is None:
            for c in ast.iter_child_nodes(e):
                if isinstance(c, ast.expr) and not isinstance(c, (ast.ListComp, ast.GeneratorExp, ast.SetComp, ast.DictComp, ast.Lambda)):
                    self.sv(c, env)
            return None
        out = m(e, env)
        if out is not None and out.isvec and not out.unorm and out.refuted is None and out.comps is not None:
            # a vector with known components whose squared norm does not reduce to 1 is remembered as provably not unit
            out.refuted = self.norm_residual(out.comps)
        return out

    def sv_Constant(self, e, env):
        if isinstance(e.value, (int, float)) and not isinstance(e.value, bool):
            return SV(sx=Rat(Poly.const(Fraction(e.value).limit_denominator(10**9))))
        return None

    def sv_Name(self, e, env):
        if e.id in env:
            return env[e.id].sym
        if e.id == "pi":
            return SV(sx=Rat(Poly.atom("pi")))
        if e.id == "tau" and e.id not in self.assigned:
            return SV(sx=Rat(Poly.atom("pi").scale(2)))
        return None

    def sv_Attribute(self, e, env):
        c = au.chain(e)
        if c and c[-1] == "pi" and c[0] in ("np", "numpy", "math"):
            return SV(sx=Rat(Poly.atom("pi")))
        if c and c[-1] == "tau" and c[0] in ("np", "numpy", "math"):
            return SV(sx=Rat(Poly.atom("pi").scale(2)))
        if isinstance(e.value, ast.Name) and e.value.id in env and env[e.value.id].rec is not None and env[e.value.id].rec[0] != "elements" \
                and e.attr in env[e.value.id].rec[1]:
            return env[e.value.id].rec[1][e.attr].sym        # field of a record
        base = self.sv(e.value, env)
        if e.attr == "vertices":
            return None
        if base is not None and base.isvec and e.attr in ("x", "y", "z"):
            i = "xyz".index(e.attr)
            if base.comps is not None and i < len(base.comps):
                return SV(sx=base.comps[i])
            if base.vid is not None:
                if base.unorm:
                    self.triples[f"{base.vid}.z"] = (f"{base.vid}.x", f"{base.vid}.y")
                return SV(sx=Rat(Poly.atom(f"{base.vid}.{e.attr}")))
        return None

    def sv_Subscript(self, e, env):
        self.sv(e.slice, env) if not isinstance(e.slice, ast.Slice) else None
        base = self.sv(e.value, env)
        if isinstance(e.value, ast.Attribute) and e.value.attr == "vertices":
            return SV(isvec=True)
        if base is not None and base.isvec and base.comps is not None and isinstance(au.const(e.slice), int) \
                and 0 <= au.const(e.slice) < len(base.comps) and not base.arr:
            return SV(sx=base.comps[au.const(e.slice)])
        if base is not None and base.arr and isinstance(e.slice, ast.Tuple) and len(e.slice.elts) == 2 and base.sx is not None:
            a_, b_ = e.slice.elts
            isnew = lambda x: (isinstance(x, ast.Constant) and x.value is None) or (isinstance(x, ast.Attribute) and x.attr == "newaxis")
            full = lambda x: isinstance(x, ast.Slice) and x.lower is None and x.upper is None and x.step is None
            if full(a_) and isnew(b_):
                return self.inst(base, None, axis=0)
            if isnew(a_) and full(b_):
                return self.inst(base, None, axis=1)
        if base is not None and base.arr and base.isvec and base.comps is not None:
            last = e.slice.elts[-1] if isinstance(e.slice, ast.Tuple) and e.slice.elts else None
            k = au.const(last) if last is not None else None
            if isinstance(k, int) and not isinstance(k, bool) and 0 <= k < len(base.comps) and base.comps[k] is not None:
                out = SV(sx=base.comps[k])
                out.arr = True
                return out
        return None

    def sv_UnaryOp(self, e, env):
        v = self.sv(e.operand, env)
        if v is None or not isinstance(e.op, (ast.USub, ast.UAdd)):
            return None
        if isinstance(e.op, ast.UAdd):
            return v
        return SV(sx=-v.sx if v.sx is not None else None,
                  comps=[-c if c is not None else None for c in v.comps] if v.comps is not None else None,
                  isvec=v.isvec, unorm=v.unorm, refuted=v.refuted)

    def sv_BinOp(self, e, env):
        a, b = self.sv(e.left, env), self.sv(e.right, env)
        if isinstance(e.op, ast.Div) and b is not None and b.normof is not None and b.normof == "rows:" + au.src(e.left):
            # X / norm(X, axis=-1, keepdims=True): every row of X divided by its own length, whatever X is
            out = SV(isvec=True, unorm=True, vid=self.new_vid())
            out.arr = True
            return out
        if a is None or b is None:
            return None
        out = self._sv_BinOp(e, a, b)
        if out is not None and (a.arr or b.arr):
            out.arr = True
        return out

    def _sv_BinOp(self, e, a, b):
        op = e.op
        if isinstance(op, ast.Mult):
            for r, d, dn in ((a, b, e.right), (b, a, e.left)):
                if r.israd and d.isvec:
                    okd, ref = self.status(d)
                    self.obligation(e, okd, "radius-times-direction", au.src(dn), refuted=ref)
            if a.isvec and b.isvec:
                return None
            if a.isvec or b.isvec:
                v, k = (a, b) if a.isvec else (b, a)
                comps = [c * k.sx if c is not None else None for c in v.comps] if (v.comps is not None and k.sx is not None) else None
                return SV(comps=comps, isvec=True)
            if a.sx is not None and b.sx is not None:
                return SV(sx=a.sx * b.sx)
            return None
        if isinstance(op, (ast.Add, ast.Sub)):
            if a.isvec or b.isvec:
                comps = None
                if a.comps is not None and b.comps is not None and len(a.comps) == len(b.comps) \
                        and all(x is not None for x in a.comps + b.comps):
                    comps = [(x + y) if isinstance(op, ast.Add) else (x - y) for x, y in zip(a.comps, b.comps)]
                return SV(comps=comps, isvec=True)
            if a.sx is not None and b.sx is not None:
                return SV(sx=(a.sx + b.sx) if isinstance(op, ast.Add) else (a.sx - b.sx))
            return None
        if isinstance(op, ast.Div):
            if a.isvec and not b.isvec:
                if b.normof is not None and b.normof == au.src(e.left):
                    return SV(isvec=True, unorm=True, vid=self.new_vid())
                comps = [c / b.sx if c is not None else None for c in a.comps] if (a.comps is not None and b.sx is not None
                                                                                   and not b.sx.num.is_zero()) else None
                return SV(comps=comps, isvec=True)
            if not a.isvec and not b.isvec and a.sx is not None and b.sx is not None and not b.sx.num.is_zero():
                return SV(sx=a.sx / b.sx)
            return None
        if isinstance(op, ast.Pow) and isinstance(au.const(e.right), int) and 0 <= au.const(e.right) <= 4 and a.sx is not None:
            out = Rat(Poly.const(1))
            for _ in range(au.const(e.right)):
                out = out * a.sx
            return SV(sx=out)
        return None

    def sv_NamedExpr(self, e, env):
        s_ = self.sv(e.value, env)
        cur = env.get(e.target.id)
        env[e.target.id] = (cur.copy(sym=s_) if cur is not None else AV(None, None, ALL, None).copy(sym=s_))
        return s_

    def sv_Tuple(self, e, env):
        vals = [self.sv(x.value if isinstance(x, ast.Starred) else x, env) for x in e.elts]
        if vals and isinstance(e, ast.List) and all(v is not None and v.isvec and v.unorm and not v.arr for v in vals) \
                and not any(isinstance(x, ast.Starred) for x in e.elts):
            out = SV(isvec=True, unorm=True, vid=self.new_vid())       # a list of unit vectors
            out.arr = True
            return out
        if vals and all(v is not None and v.sx is not None and not v.isvec for v in vals):
            out = SV(comps=[v.sx for v in vals], isvec=False)      # a tuple of scalars (not a vector): unpacked by `assign`
            out.arr = any(v.arr for v in vals)
            return out
        return None

    sv_List = sv_Tuple

    def sv_ListComp(self, e, env):
        env2 = dict(env)
        for g in e.generators:
            self.bind_iter(g.target, g.iter, env2, e, GEN)
            for name in au.assigned_names(g.target):
                self.loop_len.pop(name, None)
            for c in g.ifs:
                self.sv(c, env2)
        s_ = self.sv(e.elt, env2)
        if s_ is None:
            return None
        out = SV(s_.sx, s_.comps, s_.isvec, s_.unorm, False, s_.vid, None, s_.refuted)
        out.arr = True
        return out

    sv_GeneratorExp = sv_ListComp

    def sv_Call(self, c, env):
        out = self._sv_Call(c, env)
        if out is not None and not out.arr:
            # element-wise functions of an array describe the generic element of the result
            srcs = [self.sv(a, env) for a in c.args[:1]]
            if any(x is not None and x.arr for x in srcs) and au.call_tail(c) in ("sin", "cos", "sqrt", "array", "asarray", "float", "abs"):
                out.arr = True
        return out

    def _sv_Call(self, c, env):
        d_ = self.desugar_call(c)
        if d_ is not None:
            return self.sv(d_, env)
        if isinstance(c.func, ast.Lambda) and not any(isinstance(a, ast.Starred) for a in c.args) and not c.func.args.vararg and not c.func.args.kwarg \
                and not c.keywords and len(c.args) == len(c.func.args.args) and self.cur_env is not None:
            env2 = dict(env)
            for p_, a_ in zip(c.func.args.args, c.args):
                self.sv(a_, env)
                env2[p_.arg] = self.ev(a_, env)
            return self.sv(c.func.body, env2)
        tail = au.call_tail(c)
        args = [self.sv(a.value if isinstance(a, ast.Starred) else a, env) for a in c.args]
        for k in c.keywords:
            self.sv(k.value, env)
        recv_node = c.func.value if isinstance(c.func, ast.Attribute) and not _is_module(c.func.value) else None
        recv = self.sv(recv_node, env) if recv_node is not None and not (isinstance(recv_node, ast.Name) and recv_node.id not in env) else None
        first = args[0] if args else recv
        first_node = c.args[0] if c.args else recv_node
        if tail == "Vec":
            if len(args) == 1:
                if args[0] is not None and args[0].isvec and args[0].comps is not None and all(x is not None for x in args[0].comps):
                    self.coeff_obligations(c, args[0].comps)       # a row of explicit coordinates turned into a point
                return args[0] if (args[0] is not None and args[0].isvec) else SV(isvec=True)
            if len(args) in (2, 3):
                comps = [a.sx if a is not None else None for a in args]
                known = all(x is not None for x in comps)
                out = SV(comps=comps if known else None, isvec=True, unorm=known and self.is_unit(comps))
                if known and not out.unorm:
                    out.refuted = self.norm_residual(comps)
                if known:
                    self.coeff_obligations(c, comps)
                return out
            return SV(isvec=True)
        if tail in ("normalized", "normalize"):
            src_ = first
            derived = src_ is not None and src_.comps is not None and any(
                c_ is not None and any("." in a_ and a_.rsplit(".", 1)[-1] in ("x", "y", "z") for a_ in (c_.num.atoms() | c_.den.atoms())) for c_ in src_.comps)
            # the normalisation of a vector built from the components of another named vector is a unit vector that is *not* independent
            # of that vector: its components may be used in proofs, never in refutations
            if derived and len(src_.comps) == 3 and all(c_ is not None and c_.den == Poly.const(1) for c_ in src_.comps):
                # exact components: v / sqrt(|v|^2) with the atom sqrt<|v|^2> (its square is |v|^2): frames built from it can be proved
                n2 = Poly()
                for c_ in src_.comps:
                    n2 = n2 + c_.num * c_.num
                n2 = self.reduce(n2)
                if not n2.is_zero() and not n2.is_const():
                    name = f"sqrt⟨{n2}⟩"
                    self.sq[name] = n2
                    out = SV(comps=[Rat(c_.num, Poly.atom(name)) for c_ in src_.comps], isvec=True, unorm=True)
                    return out
            return SV(isvec=True, unorm=True, vid=(UNK if derived else "") + self.new_vid())
        if tail == "outer" and len(args) == 2 and args[0] is not None and args[0].sx is not None and args[0].arr \
                and args[1] is not None and args[1].isvec and not args[1].arr:
            # np.outer(scalars, vector): one multiple of the vector per scalar
            cs_ = self.comps_of(args[1])
            out = SV(comps=[args[0].sx * c_ for c_ in cs_] if cs_ is not None else None, isvec=True)
            out.arr = True
            return out
        if tail == "meshgrid" and len(args) == 2 and all(a is not None and a.arr and a.sx is not None for a in args):
            ij = next((au.const(k.value) for k in c.keywords if k.arg == "indexing"), "xy") == "ij"
            ax = (0, 1) if ij else (1, 0)
            out = SV(comps=[self.inst(args[0], None, axis=ax[0]).sx, self.inst(args[1], None, axis=ax[1]).sx], isvec=False)
            out.arr = True
            return out
        if tail == "outer" and len(args) == 2 and all(a is not None and a.arr and a.sx is not None for a in args):
            out = SV(sx=self.inst(args[0], None, axis=0).sx * self.inst(args[1], None, axis=1).sx)
            out.arr = True
            return out
        if tail in ("column_stack", "stack", "array", "vstack") and c.args and isinstance(c.args[0], (ast.Tuple, ast.List)) \
                and 2 <= len(c.args[0].elts) <= 3:
            parts = [self.sv(x, env) for x in c.args[0].elts]
            axis_kw = next((au.const(k.value) for k in c.keywords if k.arg == "axis"), None)
            as_rows = tail == "column_stack" or (tail == "stack" and axis_kw in (-1, 1))
            if as_rows and all(p is not None and p.sx is not None and p.arr for p in parts):
                out = SV(comps=[p.sx for p in parts], isvec=True)
                out.arr = True
                return out
        if tail in ("empty", "zeros") and c.args and isinstance(c.args[0], (ast.Tuple, ast.List)) and c.args[0].elts \
                and au.const(c.args[0].elts[-1]) in (2, 3) and len(c.args[0].elts) >= 2:
            out = SV(comps=[None] * au.const(c.args[0].elts[-1]), isvec=True)
            out.arr = True
            return out
        if tail in ("ravel", "flatten", "reshape", "copy", "astype", "squeeze") and recv is not None and recv.arr:
            return recv
        if tail == "arange" and len(c.args) == 1 and not c.keywords:
            out = SV(sx=Rat(Poly.atom("idx" + GEN + "⟨" + au.src(c.args[0]) + "⟩")))
            out.arr = True
            return out
        if tail == "linspace" and len(c.args) >= 3 and args[0] is not None and args[1] is not None and args[2] is not None \
                and all(a.sx is not None for a in args[:3]):
            ep = next((k.value for k in c.keywords if k.arg == "endpoint"), None)
            ep = True if ep is None else au.const(ep)
            if isinstance(ep, bool):
                k = Rat(Poly.atom("idx" + GEN + "⟨" + au.src(c.args[2]) + "⟩"))
                den = args[2].sx if not ep else args[2].sx - Rat(Poly.const(1))
                if not den.num.is_zero():
                    out = SV(sx=args[0].sx + (args[1].sx - args[0].sx) * k / den)
                    out.arr = True
                    return out
        if tail in ROT and args:
            okd, ref = self.status(args[0])
            return SV(isvec=True, unorm=okd, vid=self.new_vid(), refuted=ref)
        if tail in ("X", "Y", "Z") and not c.args and isinstance(c.func, ast.Attribute) and au.src(c.func.value) == "Vec":
            k = "XYZ".index(tail)
            return SV(comps=[Rat(Poly.const(1 if i == k else 0)) for i in range(3)], isvec=True, unorm=True)
        if tail == "cross" and len(args) == 2:
            a, b = self.comps_of(args[0]), self.comps_of(args[1])
            if a is not None and b is not None:
                comps = [a[1] * b[2] - a[2] * b[1], a[2] * b[0] - a[0] * b[2], a[0] * b[1] - a[1] * b[0]]
                out = SV(comps=comps, isvec=True, unorm=self.is_unit(comps))
                if not out.unorm:
                    out.refuted = self.norm_residual(comps)
                return out
            return SV(isvec=True)
        if tail == "norm":
            ax_ = next((k.value for k in c.keywords if k.arg == "axis"), c.args[2] if len(c.args) > 2 else None)
            kd_ = next((k.value for k in c.keywords if k.arg == "keepdims"), None)
            rowwise = ax_ is not None and au.const(ax_) in (1, -1) and kd_ is not None and au.const(kd_) is True
            if ax_ is not None and not rowwise:
                return SV()
            return SV(normof=("rows:" if rowwise else "") + au.src(first_node) if first_node is not None else None)
        if tail in ("sin", "cos") and first is not None and first.sx is not None and len(c.args) == 1:
            k = first.sx.key()
            name = f"{tail}⟨{k}⟩"
            if tail == "cos":
                self.trig[name] = f"sin⟨{k}⟩"
            return SV(sx=Rat(Poly.atom(name)))
        if tail == "sqrt" and first is not None and first.sx is not None and first.sx.den == Poly.const(1) and len(c.args) == 1:
            name = f"sqrt⟨{first.sx.num}⟩"
            self.sq[name] = first.sx.num
            return SV(sx=Rat(Poly.atom(name)))
        if tail in ("float", "int", "abs", "array", "asarray", "asanyarray", "ascontiguousarray") and len(args) >= 1 and tail != "abs":
            return args[0]
        if tail in ("cross",):
            return SV(isvec=True)
        # a helper interpreted by `ev` (nested function, method of a record / small object, private function of the package):
        # the symbolic facts of the value it returns
        helper = (isinstance(c.func, ast.Name) and (c.func.id in self.local_funcs or (c.func.id in env and env[c.func.id].fn is not None)
                                                    or (c.func.id.startswith("_") and c.func.id not in env))) \
            or (isinstance(c.func, ast.Attribute) and isinstance(c.func.value, ast.Name) and c.func.value.id in env
                and env[c.func.value.id].rec is not None)
        if helper and not self.__dict__.get("_sv_reentry", False) and self.depth < 3:
            self._sv_reentry = True
            try:
                av = self.ev(c, env)
            except Exception:
                av = None
            finally:
                self._sv_reentry = False
                self.cur_env = env
            return av.sym if av is not None else None
        return None

    # ------------------------------------------------------------------ driver
    def run(self):
        env = self.block(self.fn.body, dict(self.env0))
        if self.yields and not self.returns:
            # a generator function: the caller iterates over the values it yields
            out = None
            for _, v in self.yields:
                out = v.copy(items=None) if out is None else elem_join(out, v)[0]
            seq = AV(out.deg, out.aff, out.deps, (None,) + tuple(out.shape or ()) if out.shape is not None else (None,), None, None, out.missing, out.unit)
            vs_ = [v.verts for _, v in self.yields if v.verts is not None]
            if vs_:         # a generator of meshes: the coordinates of its elements
                acc_ = vs_[0]
                for x_ in vs_[1:]:
                    acc_ = elem_join(acc_, x_)[0]
                seq.verts = acc_
            last = self.yields[-1][1]
            if last.rec is not None and len({id(n_) for n_, _ in self.yields}) == 1:
                seq.rec = ("elements", last)        # every element is this record
            self.returns.append((self.yields[0][0], seq))
        return self

    def topoly(self, e):
        env = self.cur_env

        def atom_of(n):
            if isinstance(n, ast.Attribute):
                c = au.chain(n)
                if c:
                    return ".".join(c)
            if isinstance(n, ast.Name) and n.id in env:
                v = env[n.id]
                if v.val is not None:
                    return v.val
                if n.id not in self.env0:
                    return "⟨" + n.id + "@" + self.fn.name + "⟩"    # a local of unknown value: never equal to a parameter of that name
            if isinstance(n, ast.Call) and au.call_tail(n) == "len" and len(n.args) == 1 and not n.keywords:
                # the length of a sequence whose number of entries the shape domain follows; otherwise a size local to this function
                try:
                    v = self.ev(n.args[0], env)
                    self.cur_env = env
                except Exception:
                    v = None
                if v is not None and v.shape and isinstance(v.shape[0], Poly):
                    return v.shape[0]
                if not (au.names(n.args[0]) <= set(self.env0) and self.depth == 0):
                    return "⟨" + au.src(n) + "@" + self.fn.name + "⟩"
            return None
        try:
            return sym.to_poly(e, atom_of)
        except Exception:
            return None

    def event(self, node, kind, detail):
        if not any(n is node and k == kind for n, k, d in self.events):
            self.events.append((node, kind, detail))

    # ------------------------------------------------------------------ statements
    def block(self, body, env):
        """returns the environment after the block, or None if every path left the function"""
        for i, st in enumerate(body):
            if env is None:
                return None
            if self.cfg.unit and isinstance(st, ast.If) and self.__dict__.get("fork_budget", 3) > 0 and i + 1 < len(body):
                # a branch that rebinds a vector with other explicit components (`if t.norm() < eps: t = <another tangent>`): the unit-vector
                # obligations that follow must hold on each path, with the components of that path
                e1 = self.block(st.body, dict(env))
                e2 = self.block(st.orelse, dict(env))
                if e1 is not None and e2 is not None and self._vector_fork(e1, e2):
                    self.fork_budget = self.__dict__.get("fork_budget", 3) - 1
                    r1 = self.block(body[i + 1:], e1)
                    r2 = self.block(body[i + 1:], e2)
                    if r1 is None or r2 is None:
                        return r1 if r2 is None else r2
                    return self.join_env(r1, r2, "", "", pre=env)
            env = self.stmt(st, env)
        return env

    @staticmethod
    def _vector_fork(e1, e2):
        for k in set(e1) & set(e2):
            a, b = e1[k].sym, e2[k].sym
            if a is not None and b is not None and a is not b and a.isvec and b.isvec and a.comps is not None and b.comps is not None \
                    and len(a.comps) == len(b.comps) and all(x is not None and y is not None for x, y in zip(a.comps, b.comps)) \
                    and not all(x.same(y) for x, y in zip(a.comps, b.comps)):
                return True
        return False

    def stmt(self, st, env):
        if isinstance(st, (ast.If, ast.For, ast.AsyncFor, ast.While, ast.Try)):
            self.cond_depth = self.__dict__.get("cond_depth", 0) + 1
            try:
                return self._stmt(st, env)
            finally:
                self.cond_depth -= 1
        return self._stmt(st, env)

    def _stmt(self, st, env):
        self.cur_env = env
        if isinstance(st, ast.Return) and isinstance(st.value, ast.IfExp) and _none_test(st.value.test) is None \
                and any(isinstance(x, ast.Tuple) for x in (st.value.body, st.value.orelse)):
            # `return (pts, normals) if flag else pts`: two returns
            for alt in (st.value.body, st.value.orelse):
                r_ = ast.copy_location(ast.Return(value=alt), st)
                r_.end_lineno, r_.end_col_offset = getattr(st, "end_lineno", None), getattr(st, "end_col_offset", None)
                self.stmt(r_, dict(env))
            return None
        if isinstance(st, ast.Return):
            if st.value is not None:
                rv = self.ev(st.value, env)
                nd = self.__dict__.get("none_deps") or []
                if nd:
                    extra = dunion(*nd)
                    rv = rv.copy(deps=dunion(rv.deps, extra))
                    if rv.verts is not None:
                        rv.verts = rv.verts.copy(deps=dunion(rv.verts.deps, extra))
                if self.cfg.unit:
                    sv_ = self.sv(st.value, env)
                    if sv_ is not None and rv.sym is None:
                        rv = rv.copy(sym=sv_)
                zero_names = [n_ for ns_ in self.__dict__.get("zero_counts", []) for n_ in ns_]
                if zero_names:
                    # a path taken only for a count of zero: a result whose number of rows vanishes with that count carries nothing
                    def vanishes(x_):
                        t_ = x_.verts if x_.verts is not None else x_
                        if t_.empty:
                            return True
                        d_ = t_.shape[0] if t_.shape else None
                        if not isinstance(d_, Poly):
                            return False
                        for n_ in zero_names:
                            d_ = d_.without(n_)
                        return d_.is_zero()
                    if vanishes(rv):
                        rv = rv.copy()
                        rv._empty = True
                        if rv.verts is not None:
                            rv.verts = rv.verts.copy()
                            rv.verts._empty = True
                    if rv.items:
                        its_ = []
                        for i_ in rv.items:
                            if vanishes(i_):
                                i_ = i_.copy()
                                i_._empty = True
                            its_.append(i_)
                        rv.items = its_
                self.returns.append((st, rv))
            return None
        if isinstance(st, ast.Raise):
            return None
        if isinstance(st, (ast.Assign, ast.AnnAssign)):
            if isinstance(st, ast.AnnAssign) and st.value is None:
                return env
            v = self.ev(st.value, env)
            if v.val is None and v.shape == () or (v.val is None and v.shape is None and isinstance(st.value, (ast.BinOp, ast.Name, ast.Constant))):
                pv = self.topoly(st.value)
                unknown_local = any(n in self.assigned and n not in self.env0 and (n not in env or env[n].val is None) for n in au.names(st.value))
                if pv is not None and not unknown_local and not any("@" in a for a in pv.atoms()):
                    v = v.copy(val=pv)
            if self.cfg.unit:
                sv_ = self.sv(st.value, env)
                tg = st.targets[0] if isinstance(st, ast.Assign) else st.target
                if isinstance(tg, (ast.Tuple, ast.List)) and isinstance(st.value, (ast.Tuple, ast.List)) \
                        and len(tg.elts) == len(st.value.elts) and v.items is not None:
                    v = v.copy(items=[it.copy(sym=self.sv(x, env)) for it, x in zip(v.items, st.value.elts)])
                elif sv_ is not None or v.sym is None or not isinstance(st.value, ast.Call):
                    v = v.copy(sym=sv_)
            if isinstance(st.value, ast.Lambda):
                for t in (st.targets if isinstance(st, ast.Assign) else [st.target]):
                    if isinstance(t, ast.Name):
                        self.local_funcs[t.id] = st.value
            comp_store = None
            if self.cfg.unit:
                tg0 = st.targets[0] if isinstance(st, ast.Assign) else st.target
                if isinstance(tg0, ast.Subscript) and isinstance(tg0.value, ast.Name) and tg0.value.id in env:
                    cs = env[tg0.value.id].sym
                    last = tg0.slice.elts[-1] if isinstance(tg0.slice, ast.Tuple) and tg0.slice.elts else None
                    k_ = au.const(last) if last is not None else None
                    if cs is not None and cs.arr and cs.isvec and cs.comps is not None and isinstance(k_, int) and not isinstance(k_, bool) \
                            and 0 <= k_ < len(cs.comps) and all(isinstance(x, ast.Slice) or (isinstance(x, ast.Constant) and x.value is Ellipsis)
                                                                 for x in tg0.slice.elts[:-1]):
                        comps = list(cs.comps)
                        comps[k_] = v.sym.sx if v.sym is not None else None
                        new = SV(comps=comps, isvec=True)
                        new.arr = True
                        comp_store = (tg0.value.id, new)
            for t in (st.targets if isinstance(st, ast.Assign) else [st.target]):
                self.assign(t, v, st.value, env, st)
            if comp_store is not None and comp_store[0] in env:
                env[comp_store[0]] = env[comp_store[0]].copy(sym=comp_store[1])
            return env
        if isinstance(st, ast.AugAssign):
            cur = self.ev(_load(st.target), env)
            rhs = self.ev(st.value, env)
            aug_sym = self.sv(ast.BinOp(_load(st.target), st.op, st.value), env) if self.cfg.unit else None
            if isinstance(st.target, ast.Attribute) and st.target.attr == "vertices" and isinstance(st.op, ast.Add):
                self.vertices_extend(st.target.value, rhs, env, st)
                return env
            v = self.binop(st.op, cur, rhs, st)
            if cur.shape is not None:
                v.shape = cur.shape
            v.sym = aug_sym
            self.assign(st.target, v, None, env, st)
            return env
        if isinstance(st, ast.Expr) and isinstance(st.value, (ast.Yield, ast.YieldFrom)) and st.value.value is not None:
            yv = self.ev(st.value.value, env)
            if isinstance(st.value, ast.YieldFrom):
                yv = yv.copy(shape=tuple(yv.shape[1:]) if yv.shape else None, items=None)
            self.yields.append((st, yv))
            return env
        if isinstance(st, ast.Expr):
            if isinstance(st.value, ast.Call):
                self.call_effect(st.value, env, st)
                self.sv(st.value, env)
                self.may_write(st.value, env)
            return env
        if isinstance(st, ast.If):
            dec = self.cfg.decide(st.test) if self.depth == 0 else None
            if dec is not None:
                return self.block(st.body if dec else st.orelse, env)
            nn = _none_test(st.test)
            stack = self.__dict__.setdefault("none_deps", [])
            is_none_side = nn is not None and nn[0] in env
            if is_none_side and nn[1]:
                stack.append(env[nn[0]].deps)
            zero_side = self._zero_branch(st.test) if self._count_test(st.test) else None
            zc_ = self.__dict__.setdefault("zero_counts", [])
            znames_ = sorted(au.names(st.test) - {"len", "int", "bool"})
            if zero_side is True:
                zc_.append(znames_)
            e1 = self.block(st.body, dict(env))
            if zero_side is True:
                zc_.pop()
            if is_none_side and nn[1]:
                stack.pop()
            if is_none_side and not nn[1]:
                stack.append(env[nn[0]].deps)
            if zero_side is False:
                zc_.append(znames_)
            e2 = self.block(st.orelse, dict(env))
            if zero_side is False:
                zc_.pop()
            if is_none_side and not nn[1]:
                stack.pop()
            if nn is not None and nn[0] in env:
                # default filling: on the branch where the parameter is None its replacement *is* the value of the parameter
                filled = e1 if nn[1] else e2
                if filled is not None and nn[0] in filled and filled[nn[0]] is not env[nn[0]]:
                    filled[nn[0]] = filled[nn[0]].copy(deps=dunion(filled[nn[0]].deps, env[nn[0]].deps))
            la, lb = f"the branch taken when `{au.src(st.test)}` holds", f"the branch taken when `{au.src(st.test)}` fails"
            # nested elif: label the else side by its own test when it is a single If
            if len(st.orelse) == 1 and isinstance(st.orelse[0], ast.If):
                lb = f"the branch taken when `{au.src(st.orelse[0].test)}` holds"
            out_env = self.join_env(e1, e2, la, lb, pre=env, implicit_else=not st.orelse)
            if not st.orelse and e1 is not None and out_env is not None and self._count_test(st.test):
                # `if n_pts > 0: <fill>`: like a loop over the samples, the guarded code is what produces the result
                # (with a count of zero there is nothing to produce): the dependences are those of the guarded code
                for k_ in list(out_env):
                    if k_ in e1 and out_env[k_] is not e1[k_]:
                        j_ = out_env[k_].copy(deps=e1[k_].deps)
                        j_.missing = dict(e1[k_].missing)
                        if j_.verts is not None and e1[k_].verts is not None:
                            j_.verts = j_.verts.copy(deps=e1[k_].verts.deps)
                            j_.verts.missing = dict(e1[k_].verts.missing)
                        out_env[k_] = j_
            return out_env
        if isinstance(st, (ast.For, ast.AsyncFor)):
            it = self.ev(st.iter, env)
            self.bind_loop(st, it, env)
            pre = dict(env)
            e = env
            for _ in range(2):
                e = self.block(st.body, dict(e if e is not None else pre))
                if e is None:
                    break
            self.unbind_loop(st)
            if e is None:
                return pre
            out = {}
            # a loop over all the vertices of a mesh that stores every vertex back replaces the whole container
            replaced = {}
            it_src = au.src(st.iter)
            for s_ in au.stmts(st.body):
                for tg_ in au.assign_targets(s_):
                    if isinstance(tg_, ast.Subscript) and isinstance(tg_.value, ast.Attribute) and tg_.value.attr == "vertices":
                        r_ = au.src(tg_.value.value)
                        if (r_ + ".id_vertices") in it_src or (r_ + ".vertices") in it_src:
                            replaced[_root(tg_.value)] = s_
            for k in set(pre) | set(e):
                if k in replaced and k in e:
                    stored = next((a for n_, a in self.vertex_stores if n_ is replaced[k]), None)
                    if stored is not None and e[k].verts is not None:
                        # every vertex is overwritten: the coordinates are the stored values, whatever the container held before
                        nv_ = stored.copy(shape=e[k].verts.shape, items=None)
                        out[k] = e[k].copy(verts=nv_)
                    else:
                        out[k] = e[k]
                    continue
                if k in pre and k in e:
                    j = join_av(pre[k], e[k])
                    j.deps = e[k].deps          # the loop body is assumed to run (n >= 1)
                    j.missing = e[k].missing
                    if e[k].sym is not None and e[k].sym.arr and e[k].sym.isvec and pre[k].deg == ANY:
                        j.sym = e[k].sym        # a freshly allocated array whose every row the loop has filled
                    if j.verts is not None and e[k].verts is not None:
                        j.verts.deps = e[k].verts.deps
                    out[k] = j
                else:
                    out[k] = e.get(k, pre.get(k))
            # a list that is empty before the loop and receives exactly one entry per iteration has as many entries as the iterable
            if it.shape and isinstance(it.shape[0], Poly) and not st.orelse \
                    and not any(isinstance(n_, (ast.Break, ast.Continue, ast.Return, ast.Raise)) for n_ in list(au.walk(list(st.body)))):
                for s_ in st.body:
                    c_ = s_.value if isinstance(s_, ast.Expr) and isinstance(s_.value, ast.Call) else None
                    if c_ is None or not (isinstance(c_.func, ast.Attribute) and c_.func.attr == "append" and isinstance(c_.func.value, ast.Name) and len(c_.args) == 1):
                        continue
                    k = c_.func.value.id
                    uses = [n_ for n_ in list(au.walk(list(st.body))) if isinstance(n_, ast.Name) and n_.id == k]
                    if len(uses) != 1 or k not in pre or k not in out or not (pre[k].shape and len(pre[k].shape) == 1 and isinstance(pre[k].shape[0], Poly)
                                                                                and pre[k].shape[0].is_const() and pre[k].shape[0].const_value() == 0):
                        continue
                    item_shape = self.appended.get(id(c_))
                    out[k] = out[k].copy(shape=(it.shape[0],) + (tuple(item_shape) if item_shape is not None else (None,)))
            return out
        if isinstance(st, ast.While):
            pre = dict(env)
            e = env
            for _ in range(2):
                e = self.block(st.body, dict(e if e is not None else pre))
                if e is None:
                    break
            if e is None:
                return pre
            out = self.join_env(pre, e, "", "", pre=pre)
            if out is not None:
                # like a counted loop: the body is what produces the result (it is assumed to run at least once)
                for k_ in list(out):
                    if k_ in e and k_ in pre and out[k_] is not e[k_]:
                        j_ = out[k_].copy(deps=e[k_].deps)
                        j_.missing = dict(e[k_].missing)
                        if j_.verts is not None and e[k_].verts is not None:
                            j_.verts = j_.verts.copy(deps=e[k_].verts.deps)
                            j_.verts.missing = dict(e[k_].verts.missing)
                        out[k_] = j_
            return out
        if isinstance(st, (ast.FunctionDef, ast.AsyncFunctionDef)):
            self.local_funcs[st.name] = st
            env[st.name] = unk(ALL)
            return env
        if isinstance(st, (ast.With, ast.AsyncWith)):
            for item in st.items:
                v = self.ev(item.context_expr, env)
                if item.optional_vars is not None:
                    self.assign(item.optional_vars, v, None, env, st)
            return self.block(st.body, env)
        if isinstance(st, ast.Try):
            e = self.block(st.body, dict(env))
            outs = [e]
            for h in st.handlers:
                outs.append(self.block(h.body, dict(env)))
            cur = None
            for o in outs:
                cur = o if cur is None else (cur if o is None else self.join_env(cur, o, "", "", pre=env))
            if cur is not None and st.finalbody:
                cur = self.block(st.finalbody, cur)
            return cur
        return env

    def _count_test(self, test):
        """a test that only looks at count-like parameters (n_pts > 0, not n_pts, len(x) == 0 ...)"""
        names = au.names(test) - {"len", "int", "bool"}
        if not names:
            return False
        for n in names:
            if n in self.env0 and _countlike(self.fn, n, self._default_of(n)):
                continue
            return False
        return True

    def _zero_branch(self, test):
        """for a test on counts only: True when it holds exactly for a count of zero (or less), False when it fails exactly there, else None"""
        def val(e, k):
            if isinstance(e, ast.Constant) and isinstance(e.value, (int, bool)):
                return int(e.value)
            if isinstance(e, ast.Name):
                return k
            if isinstance(e, ast.Call) and au.call_tail(e) in ("len", "int", "bool") and len(e.args) == 1:
                return val(e.args[0], k)
            raise ValueError

        def tv(e, k):
            if isinstance(e, ast.UnaryOp) and isinstance(e.op, ast.Not):
                return not tv(e.operand, k)
            if isinstance(e, ast.BoolOp):
                vs = [tv(x, k) for x in e.values]
                return all(vs) if isinstance(e.op, ast.And) else any(vs)
            if isinstance(e, ast.Compare):
                left, ok = val(e.left, k), True
                for op, r in zip(e.ops, e.comparators):
                    right = val(r, k)
                    f = {ast.Eq: lambda a, b: a == b, ast.NotEq: lambda a, b: a != b, ast.Lt: lambda a, b: a < b, ast.LtE: lambda a, b: a <= b,
                         ast.Gt: lambda a, b: a > b, ast.GtE: lambda a, b: a >= b}.get(type(op))
                    if f is None:
                        raise ValueError
                    ok, left = ok and f(left, right), right
                return ok
            return bool(val(e, k))
        try:
            at = [tv(test, k) for k in (0, 1, 2, 7)]
        except ValueError:
            return None
        if at == [True, False, False, False]:
            return True
        if at == [False, True, True, True]:
            return False
        return None

    def _default_of(self, p):
        a = self.fn.args
        pos = a.posonlyargs + a.args
        d = dict(zip([x.arg for x in pos[len(pos) - len(a.defaults):]], a.defaults)) if a.defaults else {}
        for x, dv in zip(a.kwonlyargs, a.kw_defaults):
            if dv is not None:
                d[x.arg] = dv
        return d.get(p)

    def join_env(self, e1, e2, la, lb, pre, implicit_else=False):
        if e1 is None:
            return e2
        if e2 is None:
            return e1
        out = {}
        for k in set(e1) | set(e2):
            if k in e1 and k in e2:
                if e1[k] is e2[k]:
                    out[k] = e1[k]
                else:
                    out[k] = join_av(e1[k], e2[k], la, lb)
            elif implicit_else or True:
                # defined on one side only: the other path never reads it in well-formed code
                out[k] = e1.get(k, e2.get(k))
        return out

    def bind_loop(self, st, it, env):
        tags = self.__dict__.setdefault("_tags", {})
        self.bind_iter(st.target, st.iter, env, st, "L%d" % tags.setdefault(id(st), len(tags) + 1))

    def bind_iter(self, t, it_expr, env, node, tag):
        """bind the target of `for t in it_expr` (range / enumerate / zip / plain iterables, nested); returns the trip count"""
        if isinstance(it_expr, ast.Call) and isinstance(it_expr.func, ast.Name) and not it_expr.keywords:
            f = it_expr.func.id
            if f == "range":
                it = self.ev(it_expr, env)
                n = it.shape[0] if it.shape else None
                if isinstance(t, ast.Name):
                    env[t.id] = scalar0(it.deps)
                    if self.cfg.unit:
                        env[t.id].sym = SV(sx=Rat(Poly.atom(t.id if tag != GEN else "idx" + GEN + "⟨" + ", ".join(au.src(a) for a in it_expr.args) + "⟩")))
                        env[t.id].sym.arr = tag == GEN
                    self.loop_len[t.id] = (node, n)
                return n
            if f == "enumerate" and len(it_expr.args) == 1 and isinstance(t, (ast.Tuple, ast.List)) and len(t.elts) == 2:
                n = self.bind_iter(t.elts[1], it_expr.args[0], env, node, tag)
                if isinstance(t.elts[0], ast.Name):
                    env[t.elts[0].id] = scalar0()
                    env[t.elts[0].id].sym = SV(sx=Rat(Poly.atom(t.elts[0].id))) if self.cfg.unit and tag != GEN else None
                    self.loop_len[t.elts[0].id] = (node, n)
                return n
            if f == "zip" and isinstance(t, (ast.Tuple, ast.List)) and len(t.elts) == len(it_expr.args):
                ns = [self.bind_iter(te, a, env, node, tag) for te, a in zip(t.elts, it_expr.args)]
                return next((x for x in ns if x is not None), None)
        prod = self._as_product(it_expr, node)
        if prod is not None and isinstance(t, (ast.Tuple, ast.List)) and len(t.elts) == len(prod):
            for te, a in zip(t.elts, prod):
                self.bind_iter(te, a, env, node, tag)
            return None
        it = self.ev(it_expr, env)
        n = it.shape[0] if it.shape else None
        elem = AV(it.deg, it.aff, it.deps, it.shape[1:] if it.shape else None, None, None, it.missing, it.unit)
        if it.rec is not None and it.rec[0] == "elements":
            elem.rec = it.rec[1].rec        # a sequence of records (values yielded by a generator helper)
        if self.cfg.unit:
            s_it = self.sv(it_expr, env)
            if s_it is not None and s_it.arr:
                elem.sym = s_it if tag == GEN else self.inst(s_it, tag)
            elif isinstance(it_expr, (ast.Tuple, ast.List)) and it_expr.elts:
                ss = [self.sv(x, env) for x in it_expr.elts]
                if all(x is not None and x.isvec for x in ss):
                    elem.sym = SV(isvec=True, unorm=all(x.unorm for x in ss), vid=self.new_vid())
        if it.items is not None and isinstance(t, (ast.Tuple, ast.List)) and False:
            pass
        self.assign(t, elem, None, env, node)
        return n

    def _as_product(self, e, at):
        """arguments of `itertools.product(a, b, ...)` when the iterable `e` is that product (possibly bound to a local, wrapped in
        list() / tuple() / [*...]); None otherwise"""
        if not hasattr(self, "_b"):
            self._b = sym.Bindings(self.fn)
        if isinstance(e, ast.Name):
            e = self._b.resolve(e, at=at) if isinstance(at, ast.AST) and getattr(at, "_parent", None) is not None else self._b.resolve(e)
        for _ in range(3):
            if isinstance(e, ast.Call) and au.call_tail(e) in ("list", "tuple") and len(e.args) == 1:
                e = e.args[0]
            elif isinstance(e, (ast.List, ast.Tuple)) and len(e.elts) == 1 and isinstance(e.elts[0], ast.Starred):
                e = e.elts[0].value
        if isinstance(e, ast.Call) and au.call_tail(e) == "product" and e.args and not e.keywords:
            return list(e.args)
        return None

    def unbind_loop(self, st):
        for k in [k for k, v in self.loop_len.items() if v[0] is st]:
            del self.loop_len[k]

    # ------------------------------------------------------------------ assignment targets
    def assign(self, t, v, value_node, env, st):
        if isinstance(t, ast.Name):
            if self.cfg.unit and v.sym is None and v.deg in (F0, ANY) and v.shape == () and v.aff in (F0, ANY):
                v = v.copy(sym=SV(sx=Rat(Poly.atom(UNK + t.id + self.new_vid()))))
            env[t.id] = v
            return
        if isinstance(t, (ast.Tuple, ast.List)):
            if v.items is not None and len(v.items) == len(t.elts):
                for x, y in zip(t.elts, v.items):
                    self.assign(x, y, None, env, st)
            else:
                el = AV(v.deg, v.aff, v.deps, v.shape[1:] if v.shape else None, None, None, v.missing, v.unit)
                parts = v.sym.comps if (v.sym is not None and v.sym.comps is not None and not v.sym.isvec and len(v.sym.comps) == len(t.elts)) else None
                for k_, x in enumerate(t.elts):
                    e2 = el.copy()
                    if parts is not None and parts[k_] is not None:
                        e2.sym = SV(sx=parts[k_])
                        e2.sym.arr = bool(v.sym.arr)
                        if e2.shape is None:
                            e2.shape = ()
                    self.assign(x, e2, None, env, st)
            return
        if isinstance(t, ast.Subscript):
            root = _root(t.value)
            # vertex container of a mesh under construction / being edited
            if isinstance(t.value, ast.Attribute) and t.value.attr == "vertices":
                self._vstore(st, v)
                if root and root in env and env[root].verts is not None:
                    m = env[root]
                    nv, bad = elem_join(m.verts, v)
                    if bad:
                        # an entry is *replaced*: a loop that rescales every vertex of a unit shape passes through a state
                        # with entries of two degrees; the stored value itself is checked as a sink
                        nv.deg = v.deg
                    env[root] = m.copy(verts=nv)
                return
            if isinstance(t.value, ast.Name) and t.value.id in env:
                cur = env[t.value.id]
                nv, bad = elem_join(cur, v)
                if bad:
                    nv.deg = v.deg
                nv.deps = dunion(cur.deps, v.deps)
                nv.shape = cur.shape
                nv.seq = cur.seq
                cov = self._row_coverage(t, st)
                known_ = lambda x: x is not None and x != ANY and not isinstance(x, AffMix)
                if cov == "full":
                    nv.deg, nv.aff = v.deg, v.aff           # every row is replaced
                elif cov == "partial" and known_(cur.aff) and known_(v.aff) and cur.aff != v.aff and cur.deg == v.deg and known_(cur.deg):
                    nv.aff = AffMix([cur.aff, v.aff])        # the rows outside the slice keep their weight
                    self.partial_stores[t.value.id] = st
                if v.verts is not None:       # a preallocated list of meshes filled entry by entry
                    nv.verts = v.verts if cur.verts is None else elem_join(cur.verts, v.verts)[0]
                elif cur.verts is not None:
                    nv.verts = cur.verts
                env[t.value.id] = nv
                # row fill:  X[i, :] = ... / X[i] = ...   with i the index of an enclosing loop
                idx = t.slice.elts[0] if isinstance(t.slice, ast.Tuple) and t.slice.elts else t.slice
                unit_rows_ = cur.sym is not None and cur.sym.arr and cur.sym.isvec and cur.sym.unorm
                if self.cfg.unit and isinstance(idx, ast.Name) and idx.id in self.loop_len and (cur.deg == ANY or unit_rows_) \
                        and cur.shape and same_dim(cur.shape[0], self.loop_len[idx.id][1]) \
                        and (not isinstance(t.slice, ast.Tuple) or all(isinstance(x_, ast.Slice) and x_.lower is None and x_.upper is None for x_ in t.slice.elts[1:])):
                    sv_ = v.sym if v.sym is not None else (self.sv(value_node, env) if value_node is not None else None)
                    if sv_ is not None and not sv_.isvec and sv_.comps is not None and len(sv_.comps) in (2, 3) and all(x_ is not None for x_ in sv_.comps) \
                            and len(cur.shape) == 2:
                        # a row given by its explicit coordinates
                        sv_ = SV(comps=list(sv_.comps), isvec=True, unorm=self.is_unit(sv_.comps))
                    if sv_ is not None and sv_.isvec and sv_.unorm:
                        # every row of a freshly allocated array receives a unit vector: its rows are unit vectors
                        rows_ = cur.sym if unit_rows_ else SV(isvec=True, unorm=True, vid=self.new_vid())
                        rows_.arr = True
                        nv.sym = rows_
                if isinstance(idx, ast.Name) and idx.id in self.loop_len and not any(f[0] is st for f in self.fills):
                    self.fills.append((st, cur.shape[0] if cur.shape else None, self.loop_len[idx.id][1], t.value.id))
            return
        if isinstance(t, ast.Attribute) and isinstance(t.value, ast.Name) and t.value.id in env and env[t.value.id].rec is not None \
                and env[t.value.id].rec[0] != "elements" and isinstance(env[t.value.id].rec[1], dict) and env[t.value.id].rec[0][0] == "object":
            # state of a small object of the module (`self.tangent = ...` in its constructor / methods)
            fields = env[t.value.id].rec[1]
            if self.cfg.unit and v.sym is None and value_node is not None:
                v = v.copy(sym=self.sv(value_node, env))
            fields[t.attr] = v if t.attr not in fields or not self.__dict__.get("cond_depth", 0) else join_av(fields[t.attr], v)
            return
        # other attribute stores are ignored (no geometric content tracked through them)

    def _row_coverage(self, t, st):
        """rows written by the store `X[key] = ...`: 'full' (all of them), 'partial' (provably not all: constant non-trivial slice bounds or
        one constant row), None (unknown)"""
        keys = list(t.slice.elts) if isinstance(t.slice, ast.Tuple) else [t.slice]
        full_slice = lambda k: (isinstance(k, ast.Slice) and k.lower is None and k.upper is None and k.step is None) or \
            (isinstance(k, ast.Constant) and k.value is Ellipsis)
        if not keys or not all(full_slice(k) for k in keys[1:]):
            return None
        k0 = keys[0]
        if isinstance(k0, ast.Name):
            if not hasattr(self, "_b"):
                self._b = sym.Bindings(self.fn)
            try:
                d = self._b.resolve(k0, at=st) if getattr(st, "_parent", None) is not None else self._b.resolve(k0)
            except Exception:
                d = None
            if isinstance(d, ast.Call) and au.call_tail(d) == "slice" and 1 <= len(d.args) <= 3 and not d.keywords:
                a_ = [None if (isinstance(x, ast.Constant) and x.value is None) else x for x in d.args]
                lo, hi, stp = (None, a_[0], None) if len(a_) == 1 else (a_[0], a_[1], a_[2] if len(a_) > 2 else None)
                k0 = ast.Slice(lower=lo, upper=hi, step=stp)
            else:
                return None
        if full_slice(k0):
            return "full"
        if isinstance(k0, ast.Slice) and k0.step is None:
            lo = au.const(k0.lower) if k0.lower is not None else None
            hi = au.const(k0.upper) if k0.upper is not None else None
            if k0.lower is not None and not isinstance(lo, int) or k0.upper is not None and not isinstance(hi, int):
                return None
            if (lo in (None, 0)) and hi is None:
                return "full"
            if (isinstance(lo, int) and lo > 0) or (isinstance(hi, int) and hi < 0):
                return "partial"        # X[1:], X[:-1], X[1:-1]: at least one row is left out
            return None
        if isinstance(au.const(k0), int) and not isinstance(au.const(k0), bool):
            return None        # one constant row: poles written apart are the usual case, not tracked
        return None

    def vertices_extend(self, mesh_expr, rhs, env, st):
        root = _root(mesh_expr)
        self._vstore(st, rhs)
        if root and root in env and env[root].verts is not None:
            m = env[root]
            nv, bad = elem_join(m.verts, rhs)
            if bad:
                self.event(st, "mixed-degree", (m.verts.deg, rhs.deg))
            rows = None
            if m.verts.shape and rhs.shape and m.verts.shape[0] is not None and rhs.shape[0] is not None:
                a0, b0 = m.verts.shape[0], rhs.shape[0]
                rows = (a0 + b0) if isinstance(a0, Poly) and isinstance(b0, Poly) else (b0 if isinstance(a0, Poly) and a0.is_zero() else None)
            nv.shape = (rows,)
            env[root] = m.copy(verts=nv)

    def _vstore(self, st, v):
        # a statement inside a loop is interpreted twice (fixpoint): keep what the first, more precise pass derived
        for n, a in self.vertex_stores:
            if n is st:
                if a.deg is None and v.deg is not None:
                    a.deg = v.deg
                if a.aff is None and v.aff is not None:
                    a.aff = v.aff
                return
        self.vertex_stores.append((st, v.copy()))

    PURE_STATEMENT_CALLS = ("print", "check_argument", "warn", "debug", "info", "warning", "error", "log", "seed", "append", "extend", "add",
                            "assert_", "isinstance", "len")

    def may_write(self, c, env):
        """a call whose value is discarded works by side effect: the local objects it receives (arguments, receiver) may have been
        written with anything - their provenance is no longer known (a dependence cannot be refuted through them)"""
        tail = au.call_tail(c)
        if tail in self.PURE_STATEMENT_CALLS or any(k.arg == "out" for k in c.keywords):
            return
        touched = [a for a in c.args if isinstance(a, ast.Name)] + [k.value for k in c.keywords if isinstance(k.value, ast.Name)]
        if isinstance(c.func, ast.Attribute):
            r = c.func.value
            while isinstance(r, (ast.Attribute, ast.Subscript)):
                r = r.value
            if isinstance(r, ast.Name) and not _is_module(r):
                touched.append(r)
        for n in touched:
            if n.id in env and n.id not in self.env0:
                v = env[n.id]
                nv = v.copy(deps=dunion(v.deps, ALL))
                if nv.verts is not None:
                    nv.verts = nv.verts.copy(deps=dunion(nv.verts.deps, ALL))
                env[n.id] = nv

    def _table_entry(self, arg, env, st, cur):
        """symbolic facts of a table filled by `T.append(f(j))` in a `for j in range(n)` loop: its generic entry is f at the index of
        the range (so that tables filled by the same loop, or by loops over the same range, are index-aligned)"""
        s_ = self.sv(arg, env)
        if s_ is None or s_.arr or (cur.sym is not None and not cur.sym.arr):
            return None
        ren = {}
        for name, (loop, n_) in self.loop_len.items():
            if isinstance(loop, (ast.For, ast.AsyncFor)) and isinstance(loop.iter, ast.Call) and au.call_tail(loop.iter) == "range" \
                    and any(a is loop for a in au.ancestors(st)):
                ren[name] = "idx" + GEN + "⟨" + ", ".join(au.src(a) for a in loop.iter.args) + "⟩"
        if not ren:
            return None

        def f(a):
            for k, v in ren.items():
                if a == k:
                    return v
                for pre in ("cos⟨", "sin⟨", "sqrt⟨"):
                    if a.startswith(pre):
                        import re
                        b = re.sub(r"(?<![A-Za-z0-9_.•@])%s(?![A-Za-z0-9_])" % re.escape(k), v, a)
                        if b != a:
                            if a in self.trig:
                                self.trig[b] = re.sub(r"(?<![A-Za-z0-9_.•@])%s(?![A-Za-z0-9_])" % re.escape(k), v, self.trig[a])
                            if a in self.sq:
                                self.sq[b] = rename_poly(self.sq[a], f)
                            return b
            return a

        def rr(x):
            return None if x is None else Rat(rename_poly(x.num, f), rename_poly(x.den, f))
        out = SV(rr(s_.sx), [rr(c_) for c_ in s_.comps] if s_.comps is not None else None, s_.isvec, s_.unorm, False, None, None, s_.refuted)
        out.arr = True
        if cur.sym is not None and cur.sym.arr and cur.sym.sx is not None and out.sx is not None and not cur.sym.sx.same(out.sx):
            return None        # entries of different forms
        return out

    def call_effect(self, c, env, st):
        if isinstance(c.func, ast.Name) and c.func.id in self.func_alias and c.func.id not in self.local_funcs:
            c2 = ast.Call(func=self.func_alias[c.func.id], args=c.args, keywords=c.keywords)
            ast.copy_location(c2, c)
            return self.call_effect(c2, env, st)
        f = c.func
        if isinstance(f, ast.Attribute) and f.attr in ("append", "extend", "add") and c.args:
            v = self.ev(c.args[0], env)
            if isinstance(f.value, ast.Attribute) and f.value.attr == "vertices":
                if f.attr == "append":
                    v = v.copy(shape=(Poly.const(1),))
                root = _root(f.value)
                self._vstore(st, v)
                if root and root in env and env[root].verts is not None:
                    m = env[root]
                    nv, bad = elem_join(m.verts, v)
                    if bad:
                        self.event(st, "mixed-degree", (m.verts.deg, v.deg))
                    nv.shape = (None,)
                    env[root] = m.copy(verts=nv)
                return
            if isinstance(f.value, ast.Name) and f.value.id in env:
                self.appended[id(c)] = v.shape
                cur = env[f.value.id]
                nv, bad = elem_join(cur, v)
                if bad:
                    self.event(st, "mixed-degree", (cur.deg, v.deg))
                nv.shape = (None,)
                nv.seq = cur.seq
                if v.verts is not None:       # a list of meshes: the coordinates of its elements
                    nv.verts = v.verts if cur.verts is None else elem_join(cur.verts, v.verts)[0]
                if self.cfg.unit and f.attr == "append":
                    nv.sym = self._table_entry(c.args[0], env, st, cur)
                    # a list whose every entry is a unit vector (whatever loop / statement appended it)
                    s_new = v.sym if v.sym is not None else self.sv(c.args[0], env)
                    unit_list = lambda x: x is not None and x.arr and x.isvec and x.unorm
                    if s_new is not None and s_new.isvec and s_new.unorm and not s_new.arr and (unit_list(cur.sym) or cur.empty):
                        if nv.sym is None or not (nv.sym.isvec and nv.sym.unorm):
                            if unit_list(cur.sym):
                                nv.sym = cur.sym        # the same fact: joins at loop heads keep it
                            else:
                                nv.sym = SV(isvec=True, unorm=True, vid=self.new_vid())
                                nv.sym.arr = True
                env[f.value.id] = nv
                return
        self.ev(c, env)

    # ------------------------------------------------------------------ expressions
    def ev(self, e, env):
        self.cur_env = env
        m = getattr(self, "ev_" + type(e).__name__, None)
        if m is None:
            return unk(dunion(*[self.ev(c, env).deps for c in ast.iter_child_nodes(e) if isinstance(c, ast.expr)]))
        return m(e, env)

    def ev_Constant(self, e, env):
        if isinstance(e.value, (int, float)) and not isinstance(e.value, bool):
            return lit()
        if isinstance(e.value, str):
            return AV(F0, F0, frozenset(), (Poly.const(len(e.value)),))      # iterating "xyz" runs 3 times
        if e.value is None:
            return lit()        # a placeholder (`[None] * n` filled later): no degree of its own
        return scalar0()

    def ev_Name(self, e, env):
        if e.id in self.local_funcs and isinstance(self.local_funcs[e.id], (ast.FunctionDef, ast.Lambda)) \
                and (e.id not in env or env[e.id].fn is None) and not (isinstance(au.parent(e), ast.Call) and au.parent(e).func is e):
            out = unk(ALL)
            out.fn = (self.local_funcs[e.id], dict(env), self)
            return out
        if e.id in env:
            return env[e.id]
        if e.id == "pi":
            return lit()
        if e.id in self.assigned:
            return unk(ALL)
        g = self._module_constant(e.id)
        return g if g is not None else unk()

    def _module_constant(self, name):
        """abstract value of a module-level constant table (literal numbers / Vec / tuples thereof), else None"""
        repo = self.cfg.repo
        if repo is None or self.depth > 3:
            return None
        cache = self.__dict__.setdefault("_gcache", {})
        if name in cache:
            return cache[name]
        cache[name] = None
        try:
            r = repo.resolve(self.cfg.modname, name)
        except Exception:
            r = None
        if r and r[0] == "var" and r[1] in repo.modules:
            for st in repo.modules[r[1]].tree.body:
                if isinstance(st, (ast.Assign, ast.AnnAssign)) and st.value is not None:
                    tg = st.targets if isinstance(st, ast.Assign) else [st.target]
                    if any(isinstance(t, ast.Name) and t.id == r[2] for t in tg):
                        sub = Interp(ast.parse("def _g(): pass").body[0], Config(self.cfg.geo, repo, r[1]), args={}, depth=self.depth + 1)
                        try:
                            cache[name] = sub.ev(st.value, {})
                        except Exception:
                            cache[name] = None
        return cache[name]

    def ev_NamedExpr(self, e, env):
        v = self.ev(e.value, env)
        if self.cfg.unit:
            v = v.copy(sym=self.sv(e.value, env))
        env[e.target.id] = v
        return v

    def ev_Attribute(self, e, env):
        c = au.chain(e)
        if c:
            dotted = ".".join(c)
            if dotted in self.cfg.geo and c[0] in self.env0 and self.depth == 0:
                d, f = self.cfg.geo[dotted]
                return AV(d, f, frozenset([dotted]), None)
            if c[-1] == "pi" and c[0] in ("np", "numpy", "math"):
                return lit()
        base = self.ev(e.value, env)
        if base.rec is not None and base.rec[0] != "elements" and e.attr in base.rec[1]:
            return base.rec[1][e.attr]
        if base.rec is not None and base.rec[0] != "elements" and base.rec[0][0] == "object" and e.attr in base.rec[0][4] and self.depth < 3:
            # a property of a small object of the module
            m_ = base.rec[0][4][e.attr]
            ps_ = [p_.arg for p_ in m_.args.posonlyargs + m_.args.args]
            sub = Interp(m_, Config(self.cfg.geo, self.cfg.repo, self.cfg.modname, unit=self.cfg.unit), args={ps_[0]: base} if ps_ else {}, depth=self.depth + 1).run()
            self.events += [ev_ for ev_ in sub.events if ev_ not in self.events]
            out_ = None
            for _, v_ in sub.returns:
                out_ = v_ if out_ is None else join_av(out_, v_)
            if out_ is not None:
                return out_
        if base.ref is not None and (base.ref + "." + e.attr) in self.cfg.geo and (base.ref + "." + e.attr) not in self.attr_stores:
            d, f = self.cfg.geo[base.ref + "." + e.attr]
            return AV(d, f, frozenset([base.ref + "." + e.attr]), None)
        if e.attr == "vertices":
            if base.verts is not None:
                return base.verts
            return AV(F1, F1, base.deps, (None, None))
        if e.attr == "_data":
            return base.copy(items=None)
        if e.attr == "mesh" and base.verts is not None:
            return base
        if e.attr == "T":
            return base.copy(shape=tuple(reversed(base.shape)) if base.shape is not None else None)
        if e.attr in ("x", "y", "z", "real", "imag"):
            return base.copy(shape=())
        if e.attr in ("size", "shape", "dim", "ndim", "dtype"):
            return scalar0(frozenset([".".join(c)]) if c else base.deps)
        return unk(base.deps)

    def ev_Subscript(self, e, env):
        c_ = au.chain(e.value)
        if c_ and c_[-1] in ("c_", "r_") and c_[0] in ("np", "numpy"):
            parts = [self.ev(x, env) for x in (e.slice.elts if isinstance(e.slice, ast.Tuple) else [e.slice])]
            out = self.collect(parts, e)
            if c_[-1] == "c_" and parts and all(p_.shape and len(p_.shape) == 1 and same_dim(p_.shape[0], parts[0].shape[0]) for p_ in parts):
                out.shape = (parts[0].shape[0], Poly.const(len(parts)))
            return out
        base = self.ev(e.value, env)
        ideps = self.ev(e.slice, env).deps if not isinstance(e.slice, ast.Slice) else frozenset()
        shape = None
        if base.shape is not None and base.shape:
            if isinstance(e.slice, ast.Slice):
                full = e.slice.lower is None and e.slice.upper is None and e.slice.step is None
                shape = ((base.shape[0] if full else None),) + tuple(base.shape[1:])
            elif isinstance(e.slice, ast.Tuple):
                dims, rest = [], list(base.shape)
                ok = True
                for x in e.slice.elts:
                    if (isinstance(x, ast.Constant) and x.value is None) or (isinstance(x, ast.Attribute) and x.attr == "newaxis"):
                        dims.append(Poly.const(1))
                        continue
                    if isinstance(x, ast.Constant) and x.value is Ellipsis:
                        ok = False
                        break
                    d0 = rest.pop(0) if rest else None
                    if isinstance(x, ast.Slice):
                        dims.append(d0 if (x.lower is None and x.upper is None and x.step is None) else None)
                    else:
                        xv = self.ev(x, env)
                        if xv.shape:       # an index array along this axis
                            dims.extend(xv.shape)
                shape = tuple(dims + rest) if ok else None
            else:
                iv = self.ev(e.slice, env)
                if iv.shape:               # an index array selects rows: leading dimension of the index
                    shape = tuple(iv.shape) + tuple(base.shape[1:])
                else:
                    shape = tuple(base.shape[1:])
        elif base.shape is None and not isinstance(e.slice, (ast.Slice, ast.Tuple)):
            iv = self.ev(e.slice, env)
            if iv.shape:
                shape = tuple(iv.shape) + (None,)
        if base.items is not None and isinstance(au.const(e.slice), int) and 0 <= au.const(e.slice) < len(base.items):
            return base.items[au.const(e.slice)]
        return AV(base.deg, base.aff, dunion(base.deps, ideps), shape, None, None, base.missing, base.unit)

    def ev_Slice(self, e, env):
        return scalar0()

    def ev_Tuple(self, e, env):
        items = [self.ev(x.value if isinstance(x, ast.Starred) else x, env) for x in e.elts]
        if any(isinstance(x, ast.Starred) for x in e.elts):
            if len(e.elts) == 1:
                v = items[0]
                return AV(v.deg, v.aff, v.deps, v.shape, None, v.verts, v.missing, v.unit)      # [*x] is list(x)
            return self.collect(items, e, shape=(None,), keep_items=False)
        shp = (Poly.const(len(items)),)
        if items and all(same_shape(it.shape, items[0].shape) for it in items):
            shp = shp + tuple(items[0].shape)
        elif items and any(it.shape is None or len(it.shape) != 0 for it in items):
            shp = shp + (None,)        # rows of unknown / unequal length: only the number of items is known
        out = self.collect(items, e, shape=shp, keep_items=True)
        if not items:
            out.deps = TOP      # empty container: no element constrains the dependences yet
        out.seq = "list"
        return out

    ev_List = ev_Tuple

    def collect(self, items, node, shape=None, keep_items=False, strict=False):
        deg, aff, deps = ANY, ANY, frozenset()
        missing = {}
        for it in items:
            deg, bad = add_deg(deg, it.deg) if deg is not None or True else (None, False)
            if bad:
                if strict:
                    self.event(node, "mixed-degree", tuple(x.deg for x in items))
                deg = None
            aff = join_deg(aff, it.aff)
            deps = dunion(deps, it.deps)
            missing.update(it.missing)
        if any(it.deg is None for it in items) and deg is not None:
            deg = deg  # sum-like assumption: homogeneous components
        return AV(deg, aff, deps, shape, items if keep_items else None, None, missing)

    def ev_UnaryOp(self, e, env):
        v = self.ev(e.operand, env)
        if isinstance(e.op, ast.Not):
            return scalar0(v.deps)
        return v.copy(items=None, verts=None)

    def ev_BoolOp(self, e, env):
        vals = [self.ev(v, env) for v in e.values]
        if isinstance(e.op, ast.Or) and len(vals) == 2 and isinstance(e.values[0], ast.Name):
            # `p or default`: default filling
            j = join_av(vals[0], vals[1])
            return j.copy(deps=dunion(vals[0].deps, vals[1].deps))
        return scalar0(dunion(*[v.deps for v in vals]))

    def ev_Compare(self, e, env):
        return scalar0(dunion(self.ev(e.left, env).deps, *[self.ev(v, env).deps for v in e.comparators]))

    def ev_IfExp(self, e, env):
        dec = self.cfg.decide(e.test) if self.depth == 0 else None
        if dec is not None:
            return self.ev(e.body if dec else e.orelse, env)
        a, b = self.ev(e.body, env), self.ev(e.orelse, env)
        j = join_av(a, b, f"`{au.src(e.test)}` holds", f"`{au.src(e.test)}` fails")
        nn = _none_test(e.test)
        if nn is not None and nn[0] in env:
            # `default if p is None else p`: the default stands for the parameter
            j = j.copy(deps=dunion(a.deps, b.deps))
            j.missing = {}
        return j

    def ev_BinOp(self, e, env):
        a, b = self.ev(e.left, env), self.ev(e.right, env)
        # [x] * n  : list repetition
        if isinstance(e.op, ast.Mult) and isinstance(e.left, ast.List):
            n = self.topoly(e.right)
            return a.copy(shape=(Poly.const(len(e.left.elts)) * n if n is not None else None,), items=None)
        if isinstance(e.op, ast.Add) and a.seq == "list" and b.seq == "list":
            # concatenation of two python lists / tuples
            if a.empty:
                out = b.copy(items=None)
            elif b.empty:
                out = a.copy(items=None)
            else:
                out, _ = elem_join(a.copy(items=None), b)
                if a.verts is not None or b.verts is not None:
                    out.verts = a.verts if b.verts is None else (b.verts if a.verts is None else elem_join(a.verts, b.verts)[0])
            d0 = a.shape[0] if a.shape else None
            d1 = b.shape[0] if b.shape else None
            rest = tuple(a.shape[1:]) if a.shape and b.shape and len(a.shape) == len(b.shape) else ()
            out.shape = ((d0 + d1) if isinstance(d0, Poly) and isinstance(d1, Poly) else None,) + rest
            out.seq = "list"
            return out
        if isinstance(e.op, ast.Mult) and (a.seq == "list" or b.seq == "list") and not (a.seq == "list" and b.seq == "list"):
            # repetition of a python list by a count held in a name
            lst, cnt = (a, e.right) if a.seq == "list" else (b, e.left)
            n = self.topoly(cnt)
            d0 = lst.shape[0] if lst.shape else None
            out = lst.copy(shape=((d0 * n) if isinstance(d0, Poly) and n is not None else None,) + tuple(lst.shape[1:] if lst.shape else ()), items=None)
            out.seq = "list"
            return out
        return self.binop(e.op, a, b, e)

    def binop(self, op, a, b, node):
        deps = dunion(a.deps, b.deps)
        missing = dict(a.missing)
        missing.update(b.missing)
        shape = broadcast(a.shape, b.shape)
        if isinstance(op, (ast.Add, ast.Sub)):
            deg, bad = add_deg(a.deg, b.deg)
            if bad:
                self.event(node, "inhomogeneous-sum", (a.deg, b.deg))
            aff = add_aff(a.aff, b.aff, 1 if isinstance(op, ast.Add) else -1)
            return AV(deg, aff, deps, shape, None, None, missing)
        if isinstance(op, (ast.Mult, ast.MatMult)):
            return AV(mul_deg(a.deg, b.deg), mul_aff(a.aff, b.aff), deps, shape, None, None, missing)
        if isinstance(op, (ast.Div, ast.FloorDiv)):
            if a.aff == F1 and a.deg == F1 and any(b is x_ for x_ in self.pos_norms) and any(a_ == 1 for d_, a_ in self.cfg.geo.values()):
                self.event(node, "position-normalised", au.src(node.left)[:80] if isinstance(node, ast.BinOp) else "")
            aff = a.aff if (a.aff in (F0, ANY) and b.aff in (F0, ANY)) else None
            return AV(mul_deg(a.deg, b.deg, -1), F0 if aff == F0 else aff, deps, shape, None, None, missing)
        if isinstance(op, ast.Mod):
            return AV(a.deg, None if a.aff not in (F0, ANY) else a.aff, deps, shape, None, None, missing)
        if isinstance(op, ast.Pow):
            k = au.const(node.right) if isinstance(node, ast.BinOp) else None
            if a.deg in (F0, ANY):
                return AV(a.deg, a.aff if a.aff in (F0, ANY) else None, deps, shape, None, None, missing)
            if isinstance(k, (int, float)) and a.deg is not None:
                return AV(a.deg * Fraction(k).limit_denominator(1000), None if a.aff not in (F0, ANY) else F0, deps, shape, None, None, missing)
            return AV(None, None, deps, shape, None, None, missing)
        return AV(None, None, deps, shape, None, None, missing)

    def ev_ListComp(self, e, env):
        env2 = dict(env)
        n = None
        for k, g in enumerate(e.generators):
            nk = self.bind_iter(g.target, g.iter, env2, e, GEN)
            for name in au.assigned_names(g.target):
                self.loop_len.pop(name, None)
            if k == 0 and not g.ifs:
                n = nk
        self.cur_env = env2
        v = self.ev(e.elt, env2)
        if len(e.generators) > 1:
            n = None
        out = AV(v.deg, v.aff, v.deps, ((n,) + tuple(v.shape)) if (len(e.generators) == 1 and v.shape is not None) else (n,),
                 None, v.verts, v.missing, v.unit)
        out.seq = "list"
        return out

    ev_GeneratorExp = ev_ListComp
    ev_SetComp = ev_ListComp

    def ev_Starred(self, e, env):
        return self.ev(e.value, env)

    def ev_JoinedStr(self, e, env):
        return scalar0()

    def ev_Lambda(self, e, env):
        out = unk(ALL)
        out.fn = (e, dict(env), self)
        return out

    # ------------------------------------------------------------------ calls
    def kw(self, c, name, pos=None):
        for k in c.keywords:
            if k.arg == name:
                return k.value
        if pos is not None and pos < len(c.args):
            return c.args[pos]
        return None

    def desugar_call(self, c):
        """an equivalent expression for calls through aliases, partial applications, `__getitem__` and `map` (None: nothing to rewrite)"""
        f = c.func
        out = None
        if isinstance(f, ast.Subscript) and not isinstance(f.slice, (ast.Slice, ast.Tuple)):
            # TABLE[key](args) with the key a specialised parameter (dispatch on the mode)
            tbl = self._table_node(f.value, {n_: 1 for n_ in self.assigned})
            kv = self.cfg.consts.get(f.slice.id, KeyError) if isinstance(f.slice, ast.Name) else (f.slice.value if isinstance(f.slice, ast.Constant) else KeyError)
            if isinstance(tbl, ast.Dict) and kv is not KeyError:
                for k_, v_ in zip(tbl.keys, tbl.values):
                    if isinstance(k_, ast.Constant) and k_.value == kv and isinstance(v_, (ast.Name, ast.Attribute, ast.Lambda)):
                        out = ast.Call(func=v_, args=c.args, keywords=c.keywords)
        elif isinstance(f, ast.IfExp):
            # (f if c else g)(args)  ==  f(args) if c else g(args)
            out = ast.IfExp(test=f.test, body=ast.Call(func=f.body, args=c.args, keywords=c.keywords),
                            orelse=ast.Call(func=f.orelse, args=c.args, keywords=c.keywords))
        elif isinstance(f, ast.Name) and f.id in self.func_alias and f.id not in self.local_funcs:
            out = ast.Call(func=self.func_alias[f.id], args=c.args, keywords=c.keywords)
        elif isinstance(f, ast.Call) and au.call_tail(f) == "partial" and f.args and not any(isinstance(a, ast.Starred) for a in f.args):
            # partial(f, a, b)(x)  ==  f(a, b, x)
            out = ast.Call(func=f.args[0], args=list(f.args[1:]) + list(c.args), keywords=list(f.keywords) + list(c.keywords))
        elif isinstance(f, ast.Attribute) and f.attr == "__getitem__" and len(c.args) == 1 and not c.keywords:
            out = ast.Subscript(value=f.value, slice=c.args[0], ctx=ast.Load())
        elif isinstance(f, ast.Name) and f.id == "map" and len(c.args) >= 2 and not c.keywords and "map" not in self.assigned:
            # map(f, a, b ...)  ==  (f(x, y ...) for x, y ... in zip(a, b ...))
            names = [ast.Name(id=f"_m{k_}·", ctx=ast.Load()) for k_ in range(len(c.args) - 1)]
            elt = ast.Call(func=c.args[0], args=names, keywords=[])
            if len(names) == 1:
                tgt, src_it = ast.Name(id=names[0].id, ctx=ast.Store()), c.args[1]
            else:
                tgt = ast.Tuple(elts=[ast.Name(id=n_.id, ctx=ast.Store()) for n_ in names], ctx=ast.Store())
                src_it = ast.Call(func=ast.Name(id="zip", ctx=ast.Load()), args=list(c.args[1:]), keywords=[])
            out = ast.GeneratorExp(elt=elt, generators=[ast.comprehension(target=tgt, iter=src_it, ifs=[], is_async=0)])
        if out is None:
            return None
        cache = self.__dict__.setdefault("_desugared", {})
        if id(c) in cache:
            return cache[id(c)][1]
        ast.copy_location(out, c)
        ast.fix_missing_locations(out)
        cache[id(c)] = (c, out)     # one rewritten node per call site (obligations are keyed by node)
        return out

    def _table_node(self, e, counts):
        """a dict display, or the module-level dict a name that is not a local refers to"""
        if isinstance(e, ast.Dict):
            return e
        if isinstance(e, ast.Name) and not counts.get(e.id) and self.cfg.repo is not None and self.cfg.modname:
            try:
                from . import hi_flow
                return hi_flow.module_constants(self.cfg.repo.module(self.cfg.modname).tree).get(e.id)
            except Exception:
                return None
        return None

    def record_class(self, name):
        """(ClassDef, fields, defaults, methods) when `name` is a NamedTuple / dataclass of the analysed module"""
        if self.cfg.repo is None or name in self.assigned:
            return None
        try:
            m = self.cfg.repo.module(self.cfg.modname)
        except Exception:
            return None
        cls = m.classes.get(name)
        if cls is None:
            return None
        from . import hi_flow
        info = hi_flow.record_info(cls)
        return (cls,) + tuple(info) if info is not None else None

    def object_class(self, name):
        """a plain class of the analysed module (own __init__, no base class): (ClassDef, __init__, methods)"""
        if self.cfg.repo is None or name in self.assigned:
            return None
        try:
            m = self.cfg.repo.module(self.cfg.modname)
        except Exception:
            return None
        cls = m.classes.get(name)
        if cls is None or cls.bases or cls.decorator_list:
            return None
        methods = {st.name: st for st in cls.body if isinstance(st, ast.FunctionDef)}
        init = methods.get("__init__")
        if init is None or "__new__" in methods or "__getattr__" in methods or "__setattr__" in methods or init.args.vararg or init.args.kwarg:
            return None
        return cls, init, methods

    def positional(self, c, args, callee=None, method=False):
        """the positional arguments of a call with `*sequence` arguments expanded (None when a starred sequence has an unknown length);
        with the callee known, a trailing `*sequence` of unknown length holds one value per remaining parameter without default"""
        out = []
        if callee is not None and c.args and isinstance(c.args[-1], ast.Starred) and not any(isinstance(a, ast.Starred) for a in c.args[:-1]) \
                and not callee.args.defaults and not callee.args.vararg:
            v = args[len(c.args) - 1]
            if v.items is None and not (v.shape and isinstance(v.shape[0], Poly) and v.shape[0].is_const()):
                ps = [p.arg for p in callee.args.posonlyargs + callee.args.args][(1 if method else 0):]
                free = [p for p in ps[len(c.args) - 1:] if p not in {k.arg for k in c.keywords}]
                el = v.copy(shape=tuple(v.shape[1:]) if v.shape else None, items=None)
                return list(args[:len(c.args) - 1]) + [el] * len(free)
        for node, v in zip(c.args, args):
            if not isinstance(node, ast.Starred):
                out.append(v)
            elif v.items is not None:
                out += list(v.items)
            elif v.shape and isinstance(v.shape[0], Poly) and v.shape[0].is_const() and 0 <= v.shape[0].const_value() <= 8:
                out += [v.copy(shape=tuple(v.shape[1:]), items=None)] * int(v.shape[0].const_value())
            else:
                return None
        return out

    def ev_Call(self, c, env):
        out = self._ev_Call(c, env)
        okw = next((k.value for k in c.keywords if k.arg == "out"), None)
        if isinstance(okw, ast.Name) and okw.id in env:
            cur = env[okw.id]
            tail_ = au.call_tail(c)
            if tail_ in ("add", "subtract", "multiply", "divide", "true_divide") and len(c.args) >= 2:
                op = {"add": ast.Add(), "subtract": ast.Sub(), "multiply": ast.Mult()}.get(tail_, ast.Div())
                out = self.binop(op, self.ev(c.args[0], env), self.ev(c.args[1], env), c)
            nv = out.copy(shape=cur.shape if cur.shape is not None else out.shape, items=None, verts=None)
            env[okw.id] = nv
        return out

    def _ev_Call(self, c, env):
        d_ = self.desugar_call(c)
        if d_ is not None:
            return self.ev(d_, env)
        if isinstance(c.func, ast.Name) and c.func.id not in env:
            rc = self.record_class(c.func.id)
            if rc is not None:
                args_ = [self.ev(a.value if isinstance(a, ast.Starred) else a, env) for a in c.args]
                if self.cfg.unit:      # the symbolic facts (which radius, which unit direction) go with the fields
                    args_ = [a_ if (a_.sym is not None or isinstance(n_, ast.Starred)) else a_.copy(sym=self.sv(n_, env)) for a_, n_ in zip(args_, c.args)]
                pos_ = self.positional(c, args_)
                if pos_ is None and len(c.args) == 1 and isinstance(c.args[0], ast.Starred):
                    el_ = args_[0]       # Rec(*seq): one element of the sequence per field
                    pos_ = [el_.copy(shape=tuple(el_.shape[1:]) if el_.shape else None, items=None) for _ in rc[1]]
                if pos_ is not None and len(pos_) <= len(rc[1]):
                    vals_ = dict(zip(rc[1], pos_))
                    for k_ in c.keywords:
                        if k_.arg:
                            vals_[k_.arg] = self.ev(k_.value, env)
                            if self.cfg.unit and vals_[k_.arg].sym is None:
                                vals_[k_.arg] = vals_[k_.arg].copy(sym=self.sv(k_.value, env))
                    for f_ in rc[1]:
                        if f_ not in vals_ and f_ in rc[2]:
                            vals_[f_] = self.ev(rc[2][f_], {})
                    if all(f_ in vals_ for f_ in rc[1]):
                        out_ = self.collect([vals_[f_] for f_ in rc[1]], c, shape=(Poly.const(len(rc[1])),), keep_items=True)
                        out_.rec = (rc, vals_)
                        return out_
        if isinstance(c.func, ast.Name) and c.func.id not in env and self.depth < 3 and self.object_class(c.func.id) is not None:
            cls_, init_, methods_ = self.object_class(c.func.id)
            args_ = [self.ev(a.value if isinstance(a, ast.Starred) else a, env) for a in c.args]
            if self.cfg.unit:
                args_ = [a_ if (a_.sym is not None or isinstance(n_, ast.Starred)) else a_.copy(sym=self.sv(n_, env)) for a_, n_ in zip(args_, c.args)]
            pos_ = self.positional(c, args_, init_, method=True)
            ps_ = [p_.arg for p_ in init_.args.posonlyargs + init_.args.args]
            if pos_ is not None and ps_ and len(pos_) <= len(ps_) - 1 and not any(k_.arg is None for k_ in c.keywords):
                props_ = {k_: v_ for k_, v_ in methods_.items() if any(isinstance(d_, ast.Name) and d_.id == "property" for d_ in v_.decorator_list)}
                obj = unk(dunion(*[a_.deps for a_ in args_]) if args_ else frozenset())
                obj.rec = (("object", [], {}, {k_: v_ for k_, v_ in methods_.items() if k_ not in props_ and not k_.startswith("__")}, props_), {})
                bound_ = {ps_[0]: obj}
                bound_.update(dict(zip(ps_[1:], pos_)))
                for k_ in c.keywords:
                    bound_[k_.arg] = self.ev(k_.value, env)
                sub = Interp(init_, Config(self.cfg.geo, self.cfg.repo, self.cfg.modname, unit=self.cfg.unit), args=bound_, depth=self.depth + 1).run()
                self.events += [ev_ for ev_ in sub.events if ev_ not in self.events]
                self.trig.update(sub.trig)
                self.sq.update(sub.sq)
                self.triples.update(sub.triples)
                for k2_, o2_ in sub.unit_obl.items():
                    self.merge_obligation(k2_, o2_)
                alld_ = dunion(obj.deps, *[v_.deps for v_ in obj.rec[1].values() if v_.deps is not None]) if obj.rec[1] else obj.deps
                obj.deps = alld_
                return obj
        if isinstance(c.func, ast.Attribute) and self.depth < 3:
            recv_ = self.ev(c.func.value, env) if not _is_module(c.func.value) else None
            if recv_ is not None and recv_.rec is not None and recv_.rec[0] != "elements" and c.func.attr in recv_.rec[0][3]:
                m_ = recv_.rec[0][3][c.func.attr]
                decos_ = [d_.id if isinstance(d_, ast.Name) else getattr(d_, "attr", "") for d_ in m_.decorator_list]
                if any(d_ in ("staticmethod", "classmethod") for d_ in decos_) or any(d_ not in ("staticmethod", "classmethod") for d_ in decos_):
                    return unk(ALL)         # static / class / decorated methods are not followed
                args_ = [self.ev(a.value if isinstance(a, ast.Starred) else a, env) for a in c.args]
                pos_ = self.positional(c, args_)
                ps_ = [p_.arg for p_ in m_.args.posonlyargs + m_.args.args]
                if pos_ is None and len(c.args) == 1 and isinstance(c.args[0], ast.Starred) and not m_.args.defaults:
                    el_ = args_[0]
                    pos_ = [el_.copy(shape=tuple(el_.shape[1:]) if el_.shape else None, items=None) for _ in ps_[1:]]
                if pos_ is not None and ps_:
                    bound_ = {ps_[0]: recv_}
                    bound_.update(dict(zip(ps_[1:], pos_)))
                    for k_ in c.keywords:
                        if k_.arg:
                            bound_[k_.arg] = self.ev(k_.value, env)
                    sub = Interp(m_, Config(self.cfg.geo, self.cfg.repo, self.cfg.modname, unit=self.cfg.unit), args=bound_, depth=self.depth + 1).run()
                    self.events += [ev_ for ev_ in sub.events if ev_ not in self.events]
                    self.trig.update(sub.trig)
                    self.sq.update(sub.sq)
                    self.triples.update(sub.triples)
                    for k2_, o2_ in sub.unit_obl.items():
                        self.merge_obligation(k2_, o2_)
                    out_ = None
                    for _, v_ in sub.returns:
                        out_ = v_ if out_ is None else join_av(out_, v_)
                    if out_ is not None:
                        return out_
        if isinstance(c.func, ast.Lambda) and not any(isinstance(a, ast.Starred) for a in c.args) and not c.func.args.vararg and not c.func.args.kwarg:
            la = c.func.args
            ps_ = [p_.arg for p_ in la.posonlyargs + la.args]
            env2 = dict(env)
            for p_, d_ in zip(ps_[len(ps_) - len(la.defaults):], la.defaults):
                env2[p_] = self.ev(d_, env)
            for p_, a_ in zip(ps_, c.args):
                env2[p_] = self.ev(a_, env)
            for k_ in c.keywords:
                if k_.arg:
                    env2[k_.arg] = self.ev(k_.value, env)
            for p_ in ps_:
                env2.setdefault(p_, unk(ALL))
            out = self.ev(c.func.body, env2)
            if self.cfg.unit:
                out = out.copy(sym=self.sv(c.func.body, env2))
            return out
        tail = au.call_tail(c)
        name = au.call_name(c) or ""
        args = [self.ev(a, env) for a in c.args]
        kws = {k.arg: self.ev(k.value, env) for k in c.keywords if k.arg}
        alldeps = dunion(*[a.deps for a in args], *[a.deps for a in kws.values()])
        recv = self.ev(c.func.value, env) if isinstance(c.func, ast.Attribute) and not _is_module(c.func.value) else None
        if recv is not None:
            alldeps = dunion(alldeps, recv.deps)
        first = args[0] if args else recv

        # ---- random draws
        if "random" in name.split(".")[:-1] or tail in ("random", "random_sample", "rand", "normal", "uniform", "randn", "choice",
                                                          "standard_normal", "ranf"):
            if tail in ("normal", "uniform"):
                lo, hi = self.kw(c, "loc" if tail == "normal" else "low", 0), self.kw(c, "scale" if tail == "normal" else "high", 1)
                d = ANY
                for x in (lo, hi):
                    if x is not None:
                        d, bad = add_deg(d, self.ev(x, env).deg)
                size = self.kw(c, "size", 2)
                return AV(F0 if d == ANY else d, F0, alldeps, shape_of_size(size, self.topoly), None, None, None,
                          unit=False)
            if tail in ("random", "random_sample", "ranf", "sample"):
                size = self.kw(c, "size", 0)
                return AV(F0, F0, alldeps, shape_of_size(size, self.topoly), unit=True)
            if tail in ("standard_normal", "standard_exponential", "standard_cauchy"):
                size = self.kw(c, "size", 0)
                return AV(F0, F0, alldeps, shape_of_size(size, self.topoly))
            if tail == "rand":
                return AV(F0, F0, alldeps, tuple(self.topoly(a) for a in c.args), unit=True)
            if tail == "choice":
                size = self.kw(c, "size", 1)
                return AV(F0, F0, alldeps, shape_of_size(size, self.topoly))
            if tail == "randn":
                return AV(F0, F0, alldeps, tuple(self.topoly(a) for a in c.args))
        if tail in ZEROS or tail == "full":
            return AV(ANY, ANY, alldeps, shape_of_size(self.kw(c, "shape", 0), self.topoly))
        if tail == "linspace":
            d, _ = add_deg(args[0].deg if args else ANY, args[1].deg if len(args) > 1 else ANY)
            n = self.kw(c, "num", 2)
            return AV(d, join_deg(args[0].aff, args[1].aff) if len(args) > 1 else None, alldeps,
                      (self.topoly(n),) if n is not None else (None,))
        if tail in ("range", "arange"):
            n = self.topoly(c.args[0]) if len(c.args) == 1 else (
                (self.topoly(c.args[1]) - self.topoly(c.args[0])) if len(c.args) == 2 and self.topoly(c.args[0]) is not None
                and self.topoly(c.args[1]) is not None else None)
            if len(c.args) == 3 and isinstance(au.const(c.args[2]), int) and not isinstance(au.const(c.args[2]), bool) and au.const(c.args[2]) != 0:
                # range(a, b, k): ceil((b - a) / k) entries, derivable when (b - a + k - 1) is a multiple of k as a polynomial
                k_ = au.const(c.args[2])
                a_, b_ = self.topoly(c.args[0]), self.topoly(c.args[1])
                if a_ is not None and b_ is not None:
                    span = (b_ - a_) if k_ > 0 else (a_ - b_)
                    cand = (span + Poly.const(abs(k_) - 1)).scale(Fraction(1, abs(k_)))
                    if all(v_.denominator == 1 for v_ in cand.t.values()):
                        n = cand
            return AV(F0, F0, alldeps, (n,))
        if tail == "enumerate" and args:
            return args[0]
        if tail == "len":
            return scalar0(alldeps)
        if tail == "divmod" and len(args) == 2:
            return AV(F0, F0, alldeps, (Poly.const(2),), [scalar0(alldeps), scalar0(alldeps)])
        if tail == "merge" and args:
            src_av = args[0]
            if src_av.verts is not None:
                return AV(None, None, alldeps, None, None, src_av.verts)
        if tail in STACK and args:
            v = args[0]
            shape = None
            axis_node = self.kw(c, "axis", 1 if tail in ("stack", "concatenate") else None)
            axis = au.const(axis_node) if axis_node is not None else None
            rows_like = None            # (k, s0): k sequences of s0 entries each
            if v.items and all(i_.shape is not None and len(i_.shape) >= 1 for i_ in v.items):
                s0 = v.items[0].shape[0]
                if all(same_dim(i_.shape[0], s0) for i_ in v.items) and all(len(i_.shape) == 1 for i_ in v.items):
                    rows_like = (Poly.const(len(v.items)), s0)
            elif v.items is None and v.shape is not None and len(v.shape) == 2:
                rows_like = tuple(v.shape)      # a comprehension of equally long sequences
            if tail in ("vstack", "row_stack") and rows_like is not None:
                shape = rows_like
            elif tail == "stack" and rows_like is not None:
                if axis_node is None or axis == 0:
                    shape = rows_like
                elif axis in (1, -1):
                    shape = (rows_like[1], rows_like[0])
            elif tail == "column_stack" and rows_like is not None:
                shape = (rows_like[1], rows_like[0])
            elif tail in ("concatenate", "vstack", "row_stack") and v.items and (axis_node is None or axis == 0) \
                    and all(i_.shape and isinstance(i_.shape[0], Poly) for i_ in v.items) and all(len(i_.shape) == len(v.items[0].shape) for i_ in v.items):
                tot = Poly()
                for i_ in v.items:
                    tot = tot + i_.shape[0]
                shape = (tot,) + tuple(v.items[0].shape[1:])
            elif tail == "hstack" and v.items and all(i_.shape and len(i_.shape) == 1 and isinstance(i_.shape[0], Poly) for i_ in v.items):
                tot = Poly()
                for i_ in v.items:
                    tot = tot + i_.shape[0]
                shape = (tot,)
            return AV(v.deg, v.aff, v.deps, shape, None, None, v.missing)
        if tail == "meshgrid":
            return self.collect(args, c)
        if tail == "chain" and isinstance(c.func, ast.Name) and args:
            out = None
            for a_ in args:
                if a_.empty:
                    continue
                out = a_.copy(items=None) if out is None else elem_join(out, a_)[0]
            if out is None:
                return args[0]
            out.shape = (None,) + tuple(out.shape[1:]) if out.shape else None
            return out
        if tail == "from_iterable" and first is not None:
            return first.copy(items=None, shape=((None,) + tuple(first.shape[2:])) if first.shape and len(first.shape) >= 2 else None)
        if tail == "reshape":
            src_av = recv if recv is not None else first
            shp = c.args[0] if recv is not None and c.args else (c.args[1] if len(c.args) > 1 else None)
            if recv is not None and len(c.args) > 1:
                shp = ast.Tuple(list(c.args), ast.Load())
            if src_av is None:
                return unk(alldeps)
            new_shape = list(shape_of_size(shp, self.topoly))
            neg = [k_ for k_, d_ in enumerate(new_shape) if isinstance(d_, Poly) and d_.is_const() and d_.const_value() < 0]
            if neg:
                inferred = None
                if len(neg) == 1 and src_av.shape and all(isinstance(d_, Poly) for d_ in src_av.shape) \
                        and all(isinstance(d_, Poly) and d_.is_const() and d_.const_value() > 0 for k_, d_ in enumerate(new_shape) if k_ != neg[0]):
                    total = Poly.const(1)
                    for d_ in src_av.shape:
                        total = total * d_
                    div = Fraction(1)
                    for k_, d_ in enumerate(new_shape):
                        if k_ != neg[0]:
                            div *= d_.const_value()
                    cand = total.scale(1 / div)
                    if all(v_.denominator == 1 for v_ in cand.t.values()):
                        inferred = cand
                for k_ in neg:
                    new_shape[k_] = inferred if len(neg) == 1 else None
            return src_av.copy(shape=tuple(new_shape), items=None)
        if tail in ("transpose", "swapaxes") and first is not None:
            src_av = recv if (recv is not None and not c.args) or (recv is not None and tail == "swapaxes") else first
            if src_av is not None and src_av.shape is not None and len(src_av.shape) == 2:
                return src_av.copy(shape=(src_av.shape[1], src_av.shape[0]), items=None)
            return (src_av or first).copy(shape=None, items=None)
        if tail in ("sqrt", "cbrt"):
            d = first.deg if first is not None else None
            k = 2 if tail == "sqrt" else 3
            nd = None if d is None else (ANY if d == ANY else d / k)
            return AV(nd, F0 if first is not None and first.aff in (F0, ANY) else None, alldeps,
                      first.shape if first is not None else None, unit=bool(first is not None and first.unit))
        if tail == "power" and len(c.args) == 2:
            return self.binop(ast.Pow(), args[0], args[1], ast.BinOp(c.args[0], ast.Pow(), c.args[1]))
        if tail in PURE0:
            d = first.deg if first is not None else None
            return AV(ANY if d == ANY else F0, F0, alldeps, first.shape if first is not None else None)
        if tail == "norm":
            out_ = AV(first.deg if first is not None else None, F0, alldeps, None)
            if first is not None and first.aff == F1 and first.deg == F1:
                self.pos_norms.append(out_)       # the length of a *position* (it changes when the origin moves)
            return out_
        if tail in ("normalized", "normalize"):
            if first is not None and first.aff == F1 and first.deg == F1 and any(a_ == 1 for d_, a_ in self.cfg.geo.values()):
                # a direction obtained by normalising a position instead of an offset from the centre: not translation covariant
                self.event(c, "position-normalised", au.src(c.args[0] if c.args else c.func.value)[:80])
            return AV(F0 if first is not None else None, F0 if (first is not None and first.aff in (F0, ANY)) else None, alldeps,
                      first.shape if first is not None else None)
        if tail in ROT and args:
            return args[0].copy(deps=alldeps, items=None, verts=None)
        if tail in PROD and len(args) == 2:
            return AV(mul_deg(args[0].deg, args[1].deg), mul_aff(args[0].aff, args[1].aff), alldeps, None)
        if tail in ("repeat", "tile", "roll", "flip", "fliplr", "flipud", "broadcast_to", "resize") and first is not None:
            # the entries of the result are entries of the first argument
            return AV(first.deg, first.aff, alldeps, None, None, None, first.missing, first.unit)
        if tail == "take" and len(args) >= 2:
            # np.take(a, idx, axis=0) is a[idx]
            a_, i_ = args[0], args[1]
            shp = (tuple(i_.shape) + tuple(a_.shape[1:] if a_.shape else (None,))) if i_.shape else None
            return AV(a_.deg, a_.aff, alldeps, shp, None, None, a_.missing, a_.unit)
        if tail in ("einsum", "tensordot", "matmul", "inner") and len(c.args) >= 2:
            ops = [self.ev(a, env) for a in c.args if not (isinstance(a, ast.Constant) and isinstance(a.value, str))]
            d = ANY
            for o in ops:
                d = mul_deg(d, o.deg)
            rows = next((o.shape[0] for o in ops if o.shape), None)
            return AV(d, None, alldeps, (rows, None) if rows is not None else None)
        if tail in MESHY:
            src_av = first
            if src_av is None:
                return AV(None, None, frozenset(), None, None, AV(ANY, ANY, TOP, (Poly(),)))
            if src_av.verts is not None:
                return src_av.copy(deps=alldeps)
            if tail == "from_arrays":
                return AV(None, None, alldeps, None, None, src_av.copy(items=None))
            return AV(None, None, alldeps, None, None, None)
        if tail in SAME:
            vals = ([recv] if recv is not None and not args else []) + args
            if recv is not None and tail in ("view", "astype", "clip", "round"):
                vals = [recv]        # x.view(Vec), x.astype(float), x.clip(lo, hi): the values are those of x
            if len(vals) == 1:
                v = vals[0]
                shape = v.shape
                if tail in ("sum", "mean", "max", "min") and self.kw(c, "axis") is None:
                    shape = ()
                out = AV(v.deg, v.aff, alldeps, shape, None, None, v.missing, v.unit)
                if tail in ("int", "float", "round") and len(c.args) == 1 and not c.keywords:
                    out.val = v.val
                if tail in ("list", "tuple", "sorted", "reversed", "tolist") and isinstance(c.func, (ast.Name, ast.Attribute)) and not _is_np_call(c):
                    out.seq = "list"
                if tail in ("copy", "deepcopy", "list", "tuple", "sorted", "reversed") and v.verts is not None:
                    out.verts = v.verts.copy()       # a copy of a mesh / a list of meshes carries (a copy of) its coordinates
                return out
            if vals:
                return self.collect(vals, c, strict=(tail == "Vec")).copy(deps=alldeps)
            return lit()
        # ---- a nested function / lambda of this function: interpreted with the current environment as its closure
        if isinstance(c.func, ast.Name) and c.func.id in self.local_funcs and self.depth < 3 \
                and self.positional(c, args) is not None and not any(k.arg is None for k in c.keywords):
            callee = self.local_funcs[c.func.id]
            ps = [p.arg for p in callee.args.posonlyargs + callee.args.args]
            pos_args = self.positional(c, args)
            if self.cfg.unit and not any(isinstance(a, ast.Starred) for a in c.args):
                # the symbolic facts of the arguments (unit directions ...) go with them
                pos_args = [a if a.sym is not None else a.copy(sym=self.sv(n_, env)) for a, n_ in zip(pos_args, c.args)]
            bound = dict(zip(ps, pos_args))
            bound.update(kws)
            if isinstance(callee, ast.Lambda):
                env2 = dict(env)
                for p_ in au.params(callee):
                    env2[p_] = bound.get(p_, unk(ALL))
                out = self.ev(callee.body, env2)
                if self.cfg.unit:
                    out = out.copy(sym=self.sv(callee.body, env2))
                return out
            sub = Interp(callee, Config(self.cfg.geo, self.cfg.repo, self.cfg.modname, unit=self.cfg.unit), args=bound, depth=self.depth + 1,
                         closure=env, local_funcs=self.local_funcs)
            sub.fn_imports = dict(self.fn_imports, **sub.fn_imports)
            sub.run()
            self.trig.update(sub.trig)
            self.sq.update(sub.sq)
            self.triples.update(sub.triples)
            for k_, o_ in sub.unit_obl.items():
                self.merge_obligation(k_, o_)
            self.events += [ev_ for ev_ in sub.events if ev_ not in self.events]
            out = None
            for _, v in sub.returns:
                out = v if out is None else join_av(out, v)
            return out if out is not None else unk(alldeps)
        if isinstance(c.func, ast.Name) and c.func.id in env and env[c.func.id].fn is not None and self.depth < 3 \
                and self.positional(c, args) is not None and not any(k.arg is None for k in c.keywords):
            node_, cenv_, owner_ = env[c.func.id].fn
            ps_ = [p.arg for p in node_.args.posonlyargs + node_.args.args]
            bound = dict(zip(ps_, self.positional(c, args)))
            bound.update(kws)
            if isinstance(node_, ast.Lambda):
                env2 = dict(cenv_)
                for p_ in au.params(node_):
                    env2[p_] = bound.get(p_, unk(ALL))
                saved_ = owner_.cur_env
                out = owner_.ev(node_.body, env2)
                owner_.cur_env = saved_
                if owner_ is not self:
                    self.events += [ev_ for ev_ in owner_.events if ev_ not in self.events]
                return out
            sub = Interp(node_, Config(owner_.cfg.geo, owner_.cfg.repo, owner_.cfg.modname, unit=False), args=bound, depth=self.depth + 1,
                         closure=cenv_, local_funcs=owner_.local_funcs)
            sub.fn_imports = dict(owner_.fn_imports, **sub.fn_imports)
            sub.run()
            self.events += [ev_ for ev_ in sub.events if ev_ not in self.events]
            out = None
            for _, v in sub.returns:
                out = v if out is None else join_av(out, v)
            return out if out is not None else unk(alldeps)
        if isinstance(c.func, ast.Name) and c.func.id in self.assigned and c.func.id not in ("range", "len", "zip", "enumerate"):
            return unk(ALL)      # a callable bound locally that the interpreter cannot see through: may capture anything
        # ---- a function of the package: interpret its body with the actual arguments
        if self.cfg.repo is not None and self.depth < 3 and isinstance(c.func, ast.Name):
            r = self.cfg.repo.resolve_func(self.cfg.modname, c.func.id)
            if r is None and c.func.id in self.fn_imports and self.fn_imports[c.func.id][0] in self.cfg.repo.modules:
                r = self.cfg.repo.resolve_func(*self.fn_imports[c.func.id])
            if r and r[1] is not None and self.positional(c, args, r[1]) is not None and not any(k.arg is None for k in c.keywords) and r[1] is not self.fn \
                    and (r[0].name == "mouette." + self.cfg.modname.replace("mouette.", "") or r[0].name.startswith("mouette.procedural")):
                callee = r[1]
                ps = [p.arg for p in callee.args.posonlyargs + callee.args.args]
                bound = {}
                for p, a in zip(ps, self.positional(c, args, callee)):
                    bound[p] = a
                for k, v in kws.items():
                    bound[k] = v
                sub = Interp(callee, Config(self.cfg.geo, self.cfg.repo, r[0].name, unit=self.cfg.unit), args=bound, depth=self.depth + 1).run()
                self.trig.update(sub.trig)
                self.sq.update(sub.sq)
                self.triples.update(sub.triples)
                if callee.name.startswith("_"):     # a private helper works for its caller; another public generator answers for itself
                    for k_, o_ in sub.unit_obl.items():
                        self.merge_obligation(k_, o_)
                self.events += [ev_ for ev_ in sub.events if ev_ not in self.events]
                out = None
                for _, v in sub.returns:
                    out = v if out is None else join_av(out, v)
                if out is not None:
                    return out
        return unk(alldeps)


def _is_np_call(c):
    ch = au.chain(c.func) if isinstance(c.func, ast.Attribute) else None
    return bool(ch) and ch[0] in ("np", "numpy")


def _countlike(fn, p, default):
    """a parameter that is visibly an integer count, a boolean switch or a string option (annotation or literal default)"""
    a = fn.args
    for x in a.posonlyargs + a.args + a.kwonlyargs:
        if x.arg == p and x.annotation is not None:
            ann = au.src(x.annotation)
            if ann in ("int", "bool", "str"):
                return True
            if ann in ("float", "Vec", "np.ndarray", "numpy.ndarray"):
                return False
    if isinstance(default, ast.Constant) and isinstance(default.value, (int, bool, str)) and not isinstance(default.value, float):
        return True
    return default is None and p in ("n", "N", "n_pts", "k", "dim", "res", "mode")


def _none_test(test):
    """`p is None` / `p == None` -> (p, True);  `p is not None` / `p != None` -> (p, False);  else None"""
    if isinstance(test, ast.Compare) and len(test.ops) == 1 and isinstance(test.left, ast.Name) \
            and isinstance(test.comparators[0], ast.Constant) and test.comparators[0].value is None:
        if isinstance(test.ops[0], (ast.Is, ast.Eq)):
            return test.left.id, True
        if isinstance(test.ops[0], (ast.IsNot, ast.NotEq)):
            return test.left.id, False
    return None


def _load(t):
    t2 = ast.parse(ast.unparse(t), mode="eval").body   # parent-free copy
    for n in ast.walk(t2):
        if hasattr(n, "ctx"):
            n.ctx = ast.Load()
    return t2


def _root(e):
    while isinstance(e, (ast.Attribute, ast.Subscript, ast.Call)):
        e = e.value if not isinstance(e, ast.Call) else e.func
    return e.id if isinstance(e, ast.Name) else None


def _is_module(e):
    c = au.chain(e)
    return bool(c) and c[0] in ("np", "numpy", "math", "geom", "random", "scipy")


def fmt_deg(d):
    if d is None:
        return "unknown"
    if d == ANY:
        return "any (pure literal)"
    return str(d)
