"""R-DIM for C14 / C19 (agent c1419): a forward abstract interpretation of one function over

  deg    physical dimension in "length" (Fraction) | ANY (pure literal, polymorphic) | None (unknown)
  aff    affine weight: 1 = point (moves with the centre), 0 = vector / scalar | ANY | None
  deps   the geometric parameters the value must depend on (must-dependence: union through
         operators, intersection over control-flow joins and over the elements of a container)
  shape  tuple of polynomials (leading dimension = number of rows) | None

Nothing of the repository is executed: the interpreter reads the AST, statement by statement."""
from __future__ import annotations
import ast
from fractions import Fraction
from .. import au, sym
from ..sym import Poly

ANY = "any"
F0, F1 = Fraction(0), Fraction(1)
TOP = None  # deps of an empty container


class AV:
    __slots__ = ("deg", "aff", "deps", "shape", "items", "verts", "missing", "unit", "sym")

    def __init__(self, deg=None, aff=None, deps=frozenset(), shape=None, items=None, verts=None, missing=None, unit=False):
        self.deg, self.aff, self.deps, self.shape = deg, aff, deps, shape
        self.items, self.verts, self.missing = items, verts, dict(missing or {})
        self.unit = unit   # True for values known to lie in [0, 1] (not used for alarms)
        self.sym = None    # SV: symbolic scalar / unit-vector facts (only filled when Config.unit is on)

    def copy(self, **kw):
        o = AV(self.deg, self.aff, self.deps, self.shape, self.items, self.verts, self.missing, self.unit)
        o.sym = self.sym
        for k, v in kw.items():
            setattr(o, k, v)
        return o

    def __repr__(self):
        return f"AV(deg={self.deg}, aff={self.aff}, deps={sorted(self.deps) if self.deps is not None else 'TOP'}, shape={self.shape})"


# ------------------------------------------------------------------ symbolic scalars / unit vectors (R-DIM "unit vector" fact)
class Rat:
    """rational function num/den over named atoms (Poly / Poly)"""
    __slots__ = ("num", "den")

    def __init__(self, num, den=None):
        self.num, self.den = sym._p(num), sym._p(den if den is not None else 1)

    def __add__(self, o):
        return Rat(self.num * o.den + o.num * self.den, self.den * o.den) if self.den != o.den else Rat(self.num + o.num, self.den)

    def __sub__(self, o):
        return self + Rat(-o.num, o.den)

    def __mul__(self, o):
        return Rat(self.num * o.num, self.den * o.den)

    def __truediv__(self, o):
        return Rat(self.num * o.den, self.den * o.num)

    def __neg__(self):
        return Rat(-self.num, self.den)

    def same(self, o):
        return (self.num * o.den) == (o.num * self.den)

    def key(self):
        return f"({self.num})/({self.den})"

    __repr__ = key


class SV:
    """sx: symbolic value of a scalar; comps: components of an explicit vector; isvec: a 3-vector; unorm: proved to
    have norm 1; israd: a bare radius parameter; vid: identity of an opaque vector (for its .x/.y/.z atoms);
    normof: source text of x when the value is norm(x)."""
    __slots__ = ("sx", "comps", "isvec", "unorm", "israd", "vid", "normof")

    def __init__(self, sx=None, comps=None, isvec=False, unorm=False, israd=False, vid=None, normof=None):
        self.sx, self.comps, self.isvec, self.unorm, self.israd, self.vid, self.normof = sx, comps, isvec, unorm, israd, vid, normof


def join_sv(a, b):
    if a is None or b is None:
        return None
    if a is b:
        return a
    sx = a.sx if (a.sx is not None and b.sx is not None and a.sx.same(b.sx)) else None
    comps = None
    if a.comps is not None and b.comps is not None and len(a.comps) == len(b.comps) \
            and all(x is not None and y is not None and x.same(y) for x, y in zip(a.comps, b.comps)):
        comps = a.comps
    return SV(sx, comps, a.isvec and b.isvec, a.unorm and b.unorm, a.israd and b.israd, a.vid if a.vid == b.vid else None, None)


def subst_square(P, a, Q):
    """replace every a**2 in P by the polynomial Q"""
    out = Poly()
    for k, v in P.t.items():
        n = k.count(a)
        rest = tuple(x for x in k if x != a)
        term = Poly({rest + ((a,) if n % 2 else ()): v})
        term = Poly({tuple(sorted(kk)): vv for kk, vv in term.t.items()})
        for _ in range(n // 2):
            term = term * Q
        out = out + term
    return out


def lit():
    return AV(ANY, ANY, frozenset(), ())


def scalar0(deps=frozenset()):
    return AV(F0, F0, deps, ())


def unk(deps=frozenset()):
    return AV(None, None, deps, None)


def dunion(*ds):
    out = frozenset()
    for d in ds:
        if d is not None:
            out |= d
    return out


# ---- degree algebra
def add_deg(a, b):
    """degree of a sum; returns (deg, mismatch)"""
    if a == ANY:
        return b, False
    if b == ANY:
        return a, False
    if a is None:
        return b, False
    if b is None:
        return a, False
    if a == b:
        return a, False
    return None, True


def mul_deg(a, b, sign=1):
    if a is None or b is None:
        return None
    if a == ANY and b == ANY:
        return ANY
    a = F0 if a == ANY else a
    b = F0 if b == ANY else b
    return a + sign * b


def join_deg(a, b):
    if a == ANY:
        return b
    if b == ANY:
        return a
    if a is None or b is None:
        return None
    return a if a == b else None


def add_aff(a, b, sign=1):
    if a is None or b is None:
        return None
    if a == ANY and b == ANY:
        return ANY
    a = F0 if a == ANY else a
    b = F0 if b == ANY else b
    return a + sign * b


def mul_aff(a, b):
    if a == ANY and b == ANY:
        return ANY
    if a in (F0, ANY) and b in (F0, ANY):
        return F0
    return None


# ---- shapes
def shape_of_size(e, topoly):
    if e is None:
        return ()
    if isinstance(e, (ast.Tuple, ast.List)):
        return tuple(topoly(x) for x in e.elts)
    return (topoly(e),)


def broadcast(s1, s2):
    if s1 is None:
        return s2
    if s2 is None:
        return s1
    if len(s1) < len(s2):
        s1, s2 = s2, s1
    s2 = (Poly.const(1),) * (len(s1) - len(s2)) + tuple(s2)
    out = []
    for a, b in zip(s1, s2):
        if a is None or b is None:
            out.append(a if b is None else b)
        elif isinstance(a, AltDim) or isinstance(b, AltDim):
            out.append(a if isinstance(a, AltDim) else b)
        elif a == b:
            out.append(a)
        elif a == Poly.const(1):
            out.append(b)
        elif b == Poly.const(1):
            out.append(a)
        else:
            out.append(None)
    return tuple(out)


class AltDim(frozenset):
    """a dimension that differs between control-flow paths (set of the alternative polynomials)"""

    def __str__(self):
        return " | ".join(sorted(str(x) for x in self))

    __repr__ = __str__


def same_dim(a, b):
    return isinstance(a, Poly) and isinstance(b, Poly) and a == b


def _jdim(x, y):
    if x is None or y is None:
        return None
    xs = x if isinstance(x, AltDim) else AltDim([x])
    ys = y if isinstance(y, AltDim) else AltDim([y])
    u = AltDim(xs | ys)
    return next(iter(u)) if len(u) == 1 else u


def join_shape(a, b):
    if a is None or b is None:
        return None
    if len(a) != len(b):
        return None
    return tuple(_jdim(x, y) for x, y in zip(a, b))


def join_av(a, b, label_a="", label_b=""):
    """control-flow join"""
    if a is None:
        return b
    if b is None:
        return a
    if a.deps is None:
        deps = b.deps
    elif b.deps is None:
        deps = a.deps
    else:
        deps = a.deps & b.deps
    missing = dict(a.missing)
    missing.update(b.missing)
    if a.deps is not None and b.deps is not None:
        for d in a.deps - b.deps:
            missing.setdefault(d, label_b)
        for d in b.deps - a.deps:
            missing.setdefault(d, label_a)
    verts = join_av(a.verts, b.verts, label_a, label_b) if (a.verts is not None and b.verts is not None) else None
    items = None
    if a.items is not None and b.items is not None and len(a.items) == len(b.items):
        items = [join_av(x, y, label_a, label_b) for x, y in zip(a.items, b.items)]
    out = AV(join_deg(a.deg, b.deg), join_deg(a.aff, b.aff), deps, join_shape(a.shape, b.shape), items, verts, missing,
             a.unit and b.unit)
    out.sym = join_sv(a.sym, b.sym)
    return out


def elem_join(container, new):
    """content of a container after one more element / row has been stored"""
    if container is None:
        return new, False
    deg, bad = add_deg(container.deg, new.deg)
    aff = join_deg(container.aff, new.aff) if not (container.aff == ANY) else new.aff
    # some element depends on d  <=>  d reaches the returned coordinates: union over the elements
    deps = dunion(container.deps, new.deps)
    missing = dict(container.missing)
    missing.update(new.missing)
    missing = {k: v for k, v in missing.items() if k not in deps}
    return AV(deg, aff, deps, container.shape, None, None, missing), bad


SAME = {"abs", "fabs", "round", "float", "int", "copy", "deepcopy", "array", "asarray", "list", "tuple", "Vec", "ravel", "flatten",
        "squeeze", "as_array", "astype", "sorted", "max", "min", "maximum", "minimum", "sum", "mean", "real", "clip", "view",
        "reversed", "ascontiguousarray", "asfarray", "atleast_2d", "nan_to_num"}
PURE0 = {"sin", "cos", "tan", "arcsin", "arccos", "arctan", "arctan2", "exp", "log", "tanh", "floor", "ceil", "radians", "degrees",
         "asin", "acos", "atan", "atan2"}
ZEROS = {"zeros", "ones", "empty"}
STACK = {"vstack", "hstack", "stack", "concatenate", "column_stack", "row_stack"}
MESHY = {"SurfaceMesh", "PolyLine", "PointCloud", "VolumeMesh", "_instanciate_raw_mesh_data", "SurfaceSubdivision", "RawMeshData",
         "from_arrays"}
ROT = {"rotate_around_axis", "rotate_2d"}
PROD = {"cross", "dot", "outer", "vdot"}


class Config:
    """geo: dotted name -> (deg, aff) of the geometric inputs of the function."""

    def __init__(self, geo=None, repo=None, modname=None, consts=None, unit=False):
        self.unit = unit   # derive symbolic scalars / unit-vector facts and the radius-times-direction obligations
        self.geo = {k: (Fraction(v[0]), Fraction(v[1])) for k, v in (geo or {}).items()}
        self.repo, self.modname = repo, modname
        self.consts = dict(consts or {})   # parameter name -> python constant (specialises `if p == "literal"` tests)

    def decide(self, test):
        """truth value of `name == const` / `name != const` tests on a specialised parameter, else None"""
        if isinstance(test, ast.Compare) and len(test.ops) == 1 and isinstance(test.left, ast.Name) and test.left.id in self.consts \
                and isinstance(test.comparators[0], ast.Constant) and isinstance(test.ops[0], (ast.Eq, ast.NotEq)):
            eq = self.consts[test.left.id] == test.comparators[0].value
            return eq if isinstance(test.ops[0], ast.Eq) else not eq
        if isinstance(test, ast.Call) and isinstance(test.func, ast.Attribute) and not test.args:
            return None
        return None


class Interp:
    def __init__(self, fn, cfg, args=None, depth=0):
        self.fn, self.cfg, self.depth = fn, cfg, depth
        self.events = []      # (node, kind, detail)
        self.returns = []     # (node, AV)
        self.fills = []       # (node, rows of the array, trip count of the loop whose index addresses the row)
        self.vertex_stores = []  # (node, AV) coordinates written into a vertex container
        self.loop_len = {}
        self.unit_obl = {}     # id(node) -> [node, proved on every pass, kind, detail]
        self.sq, self.trig, self.triples = {}, {}, {}
        self._vid = 0
        self.params = au.params(fn)
        env = {}
        a = fn.args
        pos = a.posonlyargs + a.args
        defaults = dict(zip([p.arg for p in pos[len(pos) - len(a.defaults):]], a.defaults))
        for p, d in zip(a.kwonlyargs, a.kw_defaults):
            if d is not None:
                defaults[p.arg] = d
        for p in self.params:
            if args is not None and p in args:
                env[p] = args[p]
            elif args is not None and p in defaults:
                env[p] = self.ev(defaults[p], {})
            elif p in self.cfg.geo and args is None:
                d, f = self.cfg.geo[p]
                env[p] = AV(d, f, frozenset([p]), None)
            else:
                env[p] = AV(F0, F0, frozenset([p]), ())
        if self.cfg.unit:
            for p in self.params:
                if env[p].sym is not None:
                    continue
                env[p] = env[p].copy()
                if args is None and p in self.cfg.geo:
                    d, f = self.cfg.geo[p]
                    env[p].sym = SV(sx=Rat(Poly.atom(p)), israd=True) if f == 0 else SV(isvec=True, vid=p)
                elif args is None:
                    env[p].sym = SV(sx=Rat(Poly.atom(p)))
        self.env0 = env

    # ------------------------------------------------------------------ symbolic layer
    def new_vid(self):
        self._vid += 1
        return f"v{self._vid}"

    def reduce(self, P):
        """normal form modulo sqrt(E)**2 = E, cos**2 = 1 - sin**2, |u| = 1 for proved unit vectors"""
        for _ in range(12):
            Q = P
            for a in sorted(P.atoms()):
                if P.degree_in(a) < 2:
                    continue
                if a in self.sq:
                    P = subst_square(P, a, self.sq[a])
                elif a in self.trig:
                    P = subst_square(P, a, Poly.const(1) - Poly.atom(self.trig[a]) * Poly.atom(self.trig[a]))
                elif a in self.triples:
                    x, y = self.triples[a]
                    P = subst_square(P, a, Poly.const(1) - Poly.atom(x) * Poly.atom(x) - Poly.atom(y) * Poly.atom(y))
            if P == Q:
                break
        return P

    def is_unit(self, comps):
        if comps is None or any(c is None for c in comps):
            return False
        tot = Rat(Poly())
        for c in comps:
            tot = tot + c * c
        return self.reduce(tot.num - tot.den).is_zero() and not tot.den.is_zero()

    def obligation(self, node, ok, kind, detail, tag=""):
        cur = self.unit_obl.get((id(node), tag))
        if cur is None:
            self.unit_obl[(id(node), tag)] = [node, bool(ok), kind, detail]
        else:
            cur[1] = cur[1] and bool(ok)
            if not ok:
                cur[3] = detail

    def radius_atoms(self):
        return {p for p, (d, f) in self.cfg.geo.items() if d == 1 and f == 0 and "." not in p}

    def sv(self, e, env):
        """symbolic value of an expression (None = nothing known); records the unit obligations on the way"""
        if not self.cfg.unit or e is None:
            return None
        m = getattr(self, "sv_" + type(e).__name__, None)
        if m is None:
            for c in ast.iter_child_nodes(e):
                if isinstance(c, ast.expr) and not isinstance(c, (ast.ListComp, ast.GeneratorExp, ast.SetComp, ast.DictComp, ast.Lambda)):
                    self.sv(c, env)
            return None
        return m(e, env)

    def sv_Constant(self, e, env):
        if isinstance(e.value, (int, float)) and not isinstance(e.value, bool):
            return SV(sx=Rat(Poly.const(Fraction(e.value).limit_denominator(10**9))))
        return None

    def sv_Name(self, e, env):
        if e.id in env:
            return env[e.id].sym
        if e.id == "pi":
            return SV(sx=Rat(Poly.atom("pi")))
        return None

    def sv_Attribute(self, e, env):
        c = au.chain(e)
        if c and c[-1] == "pi" and c[0] in ("np", "numpy", "math"):
            return SV(sx=Rat(Poly.atom("pi")))
        base = self.sv(e.value, env)
        if e.attr == "vertices":
            return None
        if base is not None and base.isvec and e.attr in ("x", "y", "z"):
            i = "xyz".index(e.attr)
            if base.comps is not None and i < len(base.comps):
                return SV(sx=base.comps[i])
            if base.vid is not None:
                if base.unorm:
                    self.triples[f"{base.vid}.z"] = (f"{base.vid}.x", f"{base.vid}.y")
                return SV(sx=Rat(Poly.atom(f"{base.vid}.{e.attr}")))
        return None

    def sv_Subscript(self, e, env):
        self.sv(e.slice, env) if not isinstance(e.slice, ast.Slice) else None
        base = self.sv(e.value, env)
        if isinstance(e.value, ast.Attribute) and e.value.attr == "vertices":
            return SV(isvec=True)
        if base is not None and base.isvec and base.comps is not None and isinstance(au.const(e.slice), int) \
                and 0 <= au.const(e.slice) < len(base.comps):
            return SV(sx=base.comps[au.const(e.slice)])
        return None

    def sv_UnaryOp(self, e, env):
        v = self.sv(e.operand, env)
        if v is None or not isinstance(e.op, (ast.USub, ast.UAdd)):
            return None
        if isinstance(e.op, ast.UAdd):
            return v
        return SV(sx=-v.sx if v.sx is not None else None,
                  comps=[-c if c is not None else None for c in v.comps] if v.comps is not None else None,
                  isvec=v.isvec, unorm=v.unorm)

    def sv_BinOp(self, e, env):
        a, b = self.sv(e.left, env), self.sv(e.right, env)
        if a is None or b is None:
            return None
        op = e.op
        if isinstance(op, ast.Mult):
            for r, d, dn in ((a, b, e.right), (b, a, e.left)):
                if r.israd and d.isvec:
                    self.obligation(e, d.unorm or self.is_unit(d.comps), "radius-times-direction", au.src(dn))
            if a.isvec and b.isvec:
                return None
            if a.isvec or b.isvec:
                v, k = (a, b) if a.isvec else (b, a)
                comps = [c * k.sx if c is not None else None for c in v.comps] if (v.comps is not None and k.sx is not None) else None
                return SV(comps=comps, isvec=True)
            if a.sx is not None and b.sx is not None:
                return SV(sx=a.sx * b.sx)
            return None
        if isinstance(op, (ast.Add, ast.Sub)):
            if a.isvec or b.isvec:
                comps = None
                if a.comps is not None and b.comps is not None and len(a.comps) == len(b.comps) \
                        and all(x is not None for x in a.comps + b.comps):
                    comps = [(x + y) if isinstance(op, ast.Add) else (x - y) for x, y in zip(a.comps, b.comps)]
                return SV(comps=comps, isvec=True)
            if a.sx is not None and b.sx is not None:
                return SV(sx=(a.sx + b.sx) if isinstance(op, ast.Add) else (a.sx - b.sx))
            return None
        if isinstance(op, ast.Div):
            if a.isvec and not b.isvec:
                if b.normof is not None and b.normof == au.src(e.left):
                    return SV(isvec=True, unorm=True, vid=self.new_vid())
                comps = [c / b.sx if c is not None else None for c in a.comps] if (a.comps is not None and b.sx is not None
                                                                                   and not b.sx.num.is_zero()) else None
                return SV(comps=comps, isvec=True)
            if not a.isvec and not b.isvec and a.sx is not None and b.sx is not None and not b.sx.num.is_zero():
                return SV(sx=a.sx / b.sx)
            return None
        if isinstance(op, ast.Pow) and isinstance(au.const(e.right), int) and 0 <= au.const(e.right) <= 4 and a.sx is not None:
            out = Rat(Poly.const(1))
            for _ in range(au.const(e.right)):
                out = out * a.sx
            return SV(sx=out)
        return None

    def sv_Call(self, c, env):
        tail = au.call_tail(c)
        args = [self.sv(a.value if isinstance(a, ast.Starred) else a, env) for a in c.args]
        for k in c.keywords:
            self.sv(k.value, env)
        recv_node = c.func.value if isinstance(c.func, ast.Attribute) and not _is_module(c.func.value) else None
        recv = self.sv(recv_node, env) if recv_node is not None and not (isinstance(recv_node, ast.Name) and recv_node.id not in env) else None
        first = args[0] if args else recv
        first_node = c.args[0] if c.args else recv_node
        if tail == "Vec":
            if len(args) == 1:
                return args[0] if (args[0] is not None and args[0].isvec) else SV(isvec=True)
            if len(args) in (2, 3):
                comps = [a.sx if a is not None else None for a in args]
                known = all(x is not None for x in comps)
                out = SV(comps=comps if known else None, isvec=True, unorm=known and self.is_unit(comps))
                if known:
                    for r in sorted(self.radius_atoms()):
                        if not any(r in x.num.atoms() or r in x.den.atoms() for x in comps):
                            continue
                        if any(r in x.den.atoms() or x.num.degree_in(r) > 1 for x in comps):
                            continue   # not linear in the radius: left to the degree rule
                        coeff = [Rat(x.num.coeff(r), x.den) for x in comps]
                        self.obligation(c, self.is_unit(coeff), "radius-coefficient",
                                        f"d/d{r} = ({', '.join(str(q.num) if q.den == Poly.const(1) else q.key() for q in coeff)})", tag=r)
                return out
            return SV(isvec=True)
        if tail in ("normalized", "normalize"):
            return SV(isvec=True, unorm=True, vid=self.new_vid())
        if tail in ROT and args:
            return SV(isvec=True, unorm=bool(args[0] is not None and (args[0].unorm or self.is_unit(args[0].comps))), vid=self.new_vid())
        if tail == "norm":
            return SV(normof=au.src(first_node) if first_node is not None else None)
        if tail in ("sin", "cos") and first is not None and first.sx is not None and len(c.args) == 1:
            k = first.sx.key()
            name = f"{tail}⟨{k}⟩"
            if tail == "cos":
                self.trig[name] = f"sin⟨{k}⟩"
            return SV(sx=Rat(Poly.atom(name)))
        if tail == "sqrt" and first is not None and first.sx is not None and first.sx.den == Poly.const(1) and len(c.args) == 1:
            name = f"sqrt⟨{first.sx.num}⟩"
            self.sq[name] = first.sx.num
            return SV(sx=Rat(Poly.atom(name)))
        if tail in ("float", "int", "abs") and len(args) == 1 and tail != "abs":
            return args[0]
        if tail in ("cross",):
            return SV(isvec=True)
        return None

    # ------------------------------------------------------------------ driver
    def run(self):
        env = self.block(self.fn.body, dict(self.env0))
        return self

    def topoly(self, e):
        def atom_of(n):
            if isinstance(n, ast.Attribute):
                c = au.chain(n)
                if c:
                    return ".".join(c)
            return None
        try:
            return sym.to_poly(e, atom_of)
        except Exception:
            return None

    def event(self, node, kind, detail):
        if not any(n is node and k == kind for n, k, d in self.events):
            self.events.append((node, kind, detail))

    # ------------------------------------------------------------------ statements
    def block(self, body, env):
        """returns the environment after the block, or None if every path left the function"""
        for st in body:
            if env is None:
                return None
            env = self.stmt(st, env)
        return env

    def stmt(self, st, env):
        if isinstance(st, ast.Return):
            if st.value is not None:
                self.returns.append((st, self.ev(st.value, env)))
                self.sv(st.value, env)
            return None
        if isinstance(st, ast.Raise):
            return None
        if isinstance(st, (ast.Assign, ast.AnnAssign)):
            if isinstance(st, ast.AnnAssign) and st.value is None:
                return env
            v = self.ev(st.value, env)
            if self.cfg.unit:
                sv_ = self.sv(st.value, env)
                tg = st.targets[0] if isinstance(st, ast.Assign) else st.target
                if isinstance(tg, (ast.Tuple, ast.List)) and isinstance(st.value, (ast.Tuple, ast.List)) \
                        and len(tg.elts) == len(st.value.elts) and v.items is not None:
                    v = v.copy(items=[it.copy(sym=self.sv(x, env)) for it, x in zip(v.items, st.value.elts)])
                else:
                    v = v.copy(sym=sv_)
            for t in (st.targets if isinstance(st, ast.Assign) else [st.target]):
                self.assign(t, v, st.value, env, st)
            return env
        if isinstance(st, ast.AugAssign):
            cur = self.ev(_load(st.target), env)
            rhs = self.ev(st.value, env)
            aug_sym = self.sv(ast.BinOp(_load(st.target), st.op, st.value), env) if self.cfg.unit else None
            if isinstance(st.target, ast.Attribute) and st.target.attr == "vertices" and isinstance(st.op, ast.Add):
                self.vertices_extend(st.target.value, rhs, env, st)
                return env
            v = self.binop(st.op, cur, rhs, st)
            if cur.shape is not None:
                v.shape = cur.shape
            v.sym = aug_sym
            self.assign(st.target, v, None, env, st)
            return env
        if isinstance(st, ast.Expr):
            if isinstance(st.value, ast.Call):
                self.call_effect(st.value, env, st)
                self.sv(st.value, env)
            return env
        if isinstance(st, ast.If):
            dec = self.cfg.decide(st.test) if self.depth == 0 else None
            if dec is not None:
                return self.block(st.body if dec else st.orelse, env)
            e1 = self.block(st.body, dict(env))
            e2 = self.block(st.orelse, dict(env))
            la, lb = f"the branch taken when `{au.src(st.test)}` holds", f"the branch taken when `{au.src(st.test)}` fails"
            # nested elif: label the else side by its own test when it is a single If
            if len(st.orelse) == 1 and isinstance(st.orelse[0], ast.If):
                lb = f"the branch taken when `{au.src(st.orelse[0].test)}` holds"
            return self.join_env(e1, e2, la, lb, pre=env, implicit_else=not st.orelse)
        if isinstance(st, (ast.For, ast.AsyncFor)):
            it = self.ev(st.iter, env)
            self.bind_loop(st, it, env)
            pre = dict(env)
            e = env
            for _ in range(2):
                e = self.block(st.body, dict(e if e is not None else pre))
                if e is None:
                    break
            self.unbind_loop(st)
            if e is None:
                return pre
            out = {}
            for k in set(pre) | set(e):
                if k in pre and k in e:
                    j = join_av(pre[k], e[k])
                    j.deps = e[k].deps          # the loop body is assumed to run (n >= 1)
                    j.missing = e[k].missing
                    if j.verts is not None and e[k].verts is not None:
                        j.verts.deps = e[k].verts.deps
                    out[k] = j
                else:
                    out[k] = e.get(k, pre.get(k))
            return out
        if isinstance(st, ast.While):
            pre = dict(env)
            e = env
            for _ in range(2):
                e = self.block(st.body, dict(e if e is not None else pre))
                if e is None:
                    break
            return self.join_env(pre, e, "", "", pre=pre) if e is not None else pre
        if isinstance(st, (ast.With, ast.AsyncWith)):
            for item in st.items:
                v = self.ev(item.context_expr, env)
                if item.optional_vars is not None:
                    self.assign(item.optional_vars, v, None, env, st)
            return self.block(st.body, env)
        if isinstance(st, ast.Try):
            e = self.block(st.body, dict(env))
            outs = [e]
            for h in st.handlers:
                outs.append(self.block(h.body, dict(env)))
            cur = None
            for o in outs:
                cur = o if cur is None else (cur if o is None else self.join_env(cur, o, "", "", pre=env))
            if cur is not None and st.finalbody:
                cur = self.block(st.finalbody, cur)
            return cur
        return env

    def join_env(self, e1, e2, la, lb, pre, implicit_else=False):
        if e1 is None:
            return e2
        if e2 is None:
            return e1
        out = {}
        for k in set(e1) | set(e2):
            if k in e1 and k in e2:
                if e1[k] is e2[k]:
                    out[k] = e1[k]
                else:
                    out[k] = join_av(e1[k], e2[k], la, lb)
            elif implicit_else or True:
                # defined on one side only: the other path never reads it in well-formed code
                out[k] = e1.get(k, e2.get(k))
        return out

    def bind_loop(self, st, it, env):
        t = st.target
        n = it.shape[0] if it.shape else None
        is_enum = isinstance(st.iter, ast.Call) and au.call_tail(st.iter) == "enumerate"
        is_range = isinstance(st.iter, ast.Call) and au.call_tail(st.iter) == "range"
        elem = AV(it.deg, it.aff, it.deps, it.shape[1:] if it.shape else None, None, None, it.missing)
        if is_range:
            if isinstance(t, ast.Name):
                env[t.id] = scalar0(it.deps)
                env[t.id].sym = SV(sx=Rat(Poly.atom(t.id))) if self.cfg.unit else None
                self.loop_len[t.id] = (st, n)
            return
        if is_enum and isinstance(t, ast.Tuple) and len(t.elts) == 2:
            if isinstance(t.elts[0], ast.Name):
                env[t.elts[0].id] = scalar0()
                env[t.elts[0].id].sym = SV(sx=Rat(Poly.atom(t.elts[0].id))) if self.cfg.unit else None
                self.loop_len[t.elts[0].id] = (st, n)
            self.assign(t.elts[1], elem, None, env, st)
            return
        if self.cfg.unit and isinstance(st.iter, (ast.Tuple, ast.List)) and st.iter.elts:
            ss = [self.sv(x, env) for x in st.iter.elts]
            if all(x is not None and x.isvec for x in ss):
                elem.sym = SV(isvec=True, unorm=all(x.unorm for x in ss), vid=self.new_vid())
        self.assign(t, elem, None, env, st)

    def unbind_loop(self, st):
        for k in [k for k, v in self.loop_len.items() if v[0] is st]:
            del self.loop_len[k]

    # ------------------------------------------------------------------ assignment targets
    def assign(self, t, v, value_node, env, st):
        if isinstance(t, ast.Name):
            env[t.id] = v
            return
        if isinstance(t, (ast.Tuple, ast.List)):
            if v.items is not None and len(v.items) == len(t.elts):
                for x, y in zip(t.elts, v.items):
                    self.assign(x, y, None, env, st)
            else:
                el = AV(v.deg, v.aff, v.deps, v.shape[1:] if v.shape else None, None, None, v.missing, v.unit)
                for x in t.elts:
                    self.assign(x, el.copy(), None, env, st)
            return
        if isinstance(t, ast.Subscript):
            root = _root(t.value)
            # vertex container of a mesh under construction / being edited
            if isinstance(t.value, ast.Attribute) and t.value.attr == "vertices":
                self._vstore(st, v)
                if root and root in env and env[root].verts is not None:
                    m = env[root]
                    nv, bad = elem_join(m.verts, v)
                    if bad:
                        self.event(st, "mixed-degree", (m.verts.deg, v.deg))
                    env[root] = m.copy(verts=nv)
                return
            if isinstance(t.value, ast.Name) and t.value.id in env:
                cur = env[t.value.id]
                nv, bad = elem_join(cur, v)
                if bad:
                    self.event(st, "mixed-degree", (cur.deg, v.deg))
                nv.deps = dunion(cur.deps, v.deps)
                nv.shape = cur.shape
                env[t.value.id] = nv
                # row fill:  X[i, :] = ... / X[i] = ...   with i the index of an enclosing loop
                idx = t.slice.elts[0] if isinstance(t.slice, ast.Tuple) and t.slice.elts else t.slice
                if isinstance(idx, ast.Name) and idx.id in self.loop_len and not any(f[0] is st for f in self.fills):
                    self.fills.append((st, cur.shape[0] if cur.shape else None, self.loop_len[idx.id][1], t.value.id))
            return
        # attribute stores are ignored (no geometric content tracked through them)

    def vertices_extend(self, mesh_expr, rhs, env, st):
        root = _root(mesh_expr)
        self._vstore(st, rhs)
        if root and root in env and env[root].verts is not None:
            m = env[root]
            nv, bad = elem_join(m.verts, rhs)
            if bad:
                self.event(st, "mixed-degree", (m.verts.deg, rhs.deg))
            rows = None
            if m.verts.shape and rhs.shape and m.verts.shape[0] is not None and rhs.shape[0] is not None:
                a0, b0 = m.verts.shape[0], rhs.shape[0]
                rows = (a0 + b0) if isinstance(a0, Poly) and isinstance(b0, Poly) else (b0 if isinstance(a0, Poly) and a0.is_zero() else None)
            nv.shape = (rows,)
            env[root] = m.copy(verts=nv)

    def _vstore(self, st, v):
        # a statement inside a loop is interpreted twice (fixpoint): keep what the first, more precise pass derived
        for n, a in self.vertex_stores:
            if n is st:
                if a.deg is None and v.deg is not None:
                    a.deg = v.deg
                if a.aff is None and v.aff is not None:
                    a.aff = v.aff
                return
        self.vertex_stores.append((st, v.copy()))

    def call_effect(self, c, env, st):
        f = c.func
        if isinstance(f, ast.Attribute) and f.attr in ("append", "extend", "add") and c.args:
            v = self.ev(c.args[0], env)
            if isinstance(f.value, ast.Attribute) and f.value.attr == "vertices":
                if f.attr == "append":
                    v = v.copy(shape=(Poly.const(1),))
                root = _root(f.value)
                self._vstore(st, v)
                if root and root in env and env[root].verts is not None:
                    m = env[root]
                    nv, bad = elem_join(m.verts, v)
                    if bad:
                        self.event(st, "mixed-degree", (m.verts.deg, v.deg))
                    nv.shape = (None,)
                    env[root] = m.copy(verts=nv)
                return
            if isinstance(f.value, ast.Name) and f.value.id in env:
                cur = env[f.value.id]
                nv, bad = elem_join(cur, v)
                if bad:
                    self.event(st, "mixed-degree", (cur.deg, v.deg))
                nv.shape = (None,)
                env[f.value.id] = nv
                return
        self.ev(c, env)

    # ------------------------------------------------------------------ expressions
    def ev(self, e, env):
        m = getattr(self, "ev_" + type(e).__name__, None)
        if m is None:
            return unk(dunion(*[self.ev(c, env).deps for c in ast.iter_child_nodes(e) if isinstance(c, ast.expr)]))
        return m(e, env)

    def ev_Constant(self, e, env):
        if isinstance(e.value, (int, float)) and not isinstance(e.value, bool):
            return lit()
        return scalar0()

    def ev_Name(self, e, env):
        if e.id in env:
            return env[e.id]
        if e.id == "pi":
            return lit()
        return unk()

    def ev_Attribute(self, e, env):
        c = au.chain(e)
        if c:
            dotted = ".".join(c)
            if dotted in self.cfg.geo and c[0] in self.env0 and self.depth == 0:
                d, f = self.cfg.geo[dotted]
                return AV(d, f, frozenset([dotted]), None)
            if c[-1] == "pi" and c[0] in ("np", "numpy", "math"):
                return lit()
        base = self.ev(e.value, env)
        if e.attr == "vertices":
            if base.verts is not None:
                return base.verts
            return AV(F1, F1, base.deps, None)
        if e.attr == "mesh" and base.verts is not None:
            return base
        if e.attr == "T":
            return base.copy(shape=tuple(reversed(base.shape)) if base.shape is not None else None)
        if e.attr in ("x", "y", "z", "real", "imag"):
            return base.copy(shape=())
        if e.attr in ("size", "shape", "dim", "ndim", "dtype"):
            return scalar0(frozenset([".".join(c)]) if c else base.deps)
        return unk(base.deps)

    def ev_Subscript(self, e, env):
        base = self.ev(e.value, env)
        ideps = self.ev(e.slice, env).deps if not isinstance(e.slice, ast.Slice) else frozenset()
        shape = None
        if base.shape is not None and base.shape:
            if isinstance(e.slice, ast.Slice):
                shape = (None,) + tuple(base.shape[1:])
            elif isinstance(e.slice, ast.Tuple):
                shape = None
            else:
                shape = tuple(base.shape[1:])
        if base.items is not None and isinstance(au.const(e.slice), int) and 0 <= au.const(e.slice) < len(base.items):
            return base.items[au.const(e.slice)]
        return AV(base.deg, base.aff, dunion(base.deps, ideps), shape, None, None, base.missing, base.unit)

    def ev_Slice(self, e, env):
        return scalar0()

    def ev_Tuple(self, e, env):
        items = [self.ev(x.value if isinstance(x, ast.Starred) else x, env) for x in e.elts]
        out = self.collect(items, e, shape=(Poly.const(len(items)),), keep_items=True)
        if not items:
            out.deps = TOP      # empty container: no element constrains the dependences yet
        return out

    ev_List = ev_Tuple

    def collect(self, items, node, shape=None, keep_items=False, strict=False):
        deg, aff, deps = ANY, ANY, frozenset()
        missing = {}
        for it in items:
            deg, bad = add_deg(deg, it.deg) if deg is not None or True else (None, False)
            if bad:
                if strict:
                    self.event(node, "mixed-degree", tuple(x.deg for x in items))
                deg = None
            aff = join_deg(aff, it.aff)
            deps = dunion(deps, it.deps)
            missing.update(it.missing)
        if any(it.deg is None for it in items) and deg is not None:
            deg = deg  # sum-like assumption: homogeneous components
        return AV(deg, aff, deps, shape, items if keep_items else None, None, missing)

    def ev_UnaryOp(self, e, env):
        v = self.ev(e.operand, env)
        if isinstance(e.op, ast.Not):
            return scalar0(v.deps)
        return v.copy(items=None, verts=None)

    def ev_BoolOp(self, e, env):
        return scalar0(dunion(*[self.ev(v, env).deps for v in e.values]))

    def ev_Compare(self, e, env):
        return scalar0(dunion(self.ev(e.left, env).deps, *[self.ev(v, env).deps for v in e.comparators]))

    def ev_IfExp(self, e, env):
        return join_av(self.ev(e.body, env), self.ev(e.orelse, env),
                       f"`{au.src(e.test)}` holds", f"`{au.src(e.test)}` fails")

    def ev_BinOp(self, e, env):
        a, b = self.ev(e.left, env), self.ev(e.right, env)
        # [x] * n  : list repetition
        if isinstance(e.op, ast.Mult) and isinstance(e.left, ast.List):
            n = self.topoly(e.right)
            return a.copy(shape=(Poly.const(len(e.left.elts)) * n if n is not None else None,), items=None)
        return self.binop(e.op, a, b, e)

    def binop(self, op, a, b, node):
        deps = dunion(a.deps, b.deps)
        missing = dict(a.missing)
        missing.update(b.missing)
        shape = broadcast(a.shape, b.shape)
        if isinstance(op, (ast.Add, ast.Sub)):
            deg, bad = add_deg(a.deg, b.deg)
            if bad:
                self.event(node, "inhomogeneous-sum", (a.deg, b.deg))
            aff = add_aff(a.aff, b.aff, 1 if isinstance(op, ast.Add) else -1)
            return AV(deg, aff, deps, shape, None, None, missing)
        if isinstance(op, (ast.Mult, ast.MatMult)):
            return AV(mul_deg(a.deg, b.deg), mul_aff(a.aff, b.aff), deps, shape, None, None, missing)
        if isinstance(op, (ast.Div, ast.FloorDiv)):
            aff = a.aff if (a.aff in (F0, ANY) and b.aff in (F0, ANY)) else None
            return AV(mul_deg(a.deg, b.deg, -1), F0 if aff == F0 else aff, deps, shape, None, None, missing)
        if isinstance(op, ast.Mod):
            return AV(a.deg, None if a.aff not in (F0, ANY) else a.aff, deps, shape, None, None, missing)
        if isinstance(op, ast.Pow):
            k = au.const(node.right) if isinstance(node, ast.BinOp) else None
            if a.deg in (F0, ANY):
                return AV(a.deg, a.aff if a.aff in (F0, ANY) else None, deps, shape, None, None, missing)
            if isinstance(k, (int, float)) and a.deg is not None:
                return AV(a.deg * Fraction(k).limit_denominator(1000), None if a.aff not in (F0, ANY) else F0, deps, shape, None, None, missing)
            return AV(None, None, deps, shape, None, None, missing)
        return AV(None, None, deps, shape, None, None, missing)

    def ev_ListComp(self, e, env):
        env2 = dict(env)
        n = None
        for k, g in enumerate(e.generators):
            it = self.ev(g.iter, env2)
            if k == 0 and not g.ifs and it.shape:
                n = it.shape[0]
            if isinstance(g.iter, ast.Call) and au.call_tail(g.iter) == "range":
                el = scalar0(it.deps)
            else:
                el = AV(it.deg, it.aff, it.deps, it.shape[1:] if it.shape else None, None, None, it.missing, it.unit)
            self.assign(g.target, el, None, env2, e)
        v = self.ev(e.elt, env2)
        return AV(v.deg, v.aff, v.deps, ((n,) + tuple(v.shape)) if (len(e.generators) == 1 and v.shape is not None) else (n,),
                  None, None, v.missing, v.unit)

    ev_GeneratorExp = ev_ListComp
    ev_SetComp = ev_ListComp

    def ev_Starred(self, e, env):
        return self.ev(e.value, env)

    def ev_JoinedStr(self, e, env):
        return scalar0()

    def ev_Lambda(self, e, env):
        return unk()

    # ------------------------------------------------------------------ calls
    def kw(self, c, name, pos=None):
        for k in c.keywords:
            if k.arg == name:
                return k.value
        if pos is not None and pos < len(c.args):
            return c.args[pos]
        return None

    def ev_Call(self, c, env):
        tail = au.call_tail(c)
        name = au.call_name(c) or ""
        args = [self.ev(a, env) for a in c.args]
        kws = {k.arg: self.ev(k.value, env) for k in c.keywords if k.arg}
        alldeps = dunion(*[a.deps for a in args], *[a.deps for a in kws.values()])
        recv = self.ev(c.func.value, env) if isinstance(c.func, ast.Attribute) and not _is_module(c.func.value) else None
        if recv is not None:
            alldeps = dunion(alldeps, recv.deps)
        first = args[0] if args else recv

        # ---- random draws
        if "random" in name.split(".")[:-1] or tail in ("random", "random_sample", "rand", "normal", "uniform", "randn", "choice"):
            if tail in ("normal", "uniform"):
                lo, hi = self.kw(c, "loc" if tail == "normal" else "low", 0), self.kw(c, "scale" if tail == "normal" else "high", 1)
                d = ANY
                for x in (lo, hi):
                    if x is not None:
                        d, bad = add_deg(d, self.ev(x, env).deg)
                size = self.kw(c, "size", 2)
                return AV(F0 if d == ANY else d, F0, alldeps, shape_of_size(size, self.topoly), None, None, None,
                          unit=False)
            if tail in ("random", "random_sample", "rand"):
                size = self.kw(c, "size", 0)
                return AV(F0, F0, alldeps, shape_of_size(size, self.topoly), unit=True)
            if tail == "choice":
                size = self.kw(c, "size", 1)
                return AV(F0, F0, alldeps, shape_of_size(size, self.topoly))
            if tail == "randn":
                return AV(F0, F0, alldeps, tuple(self.topoly(a) for a in c.args))
        if tail in ZEROS or tail == "full":
            return AV(ANY, ANY, alldeps, shape_of_size(self.kw(c, "shape", 0), self.topoly))
        if tail == "linspace":
            d, _ = add_deg(args[0].deg if args else ANY, args[1].deg if len(args) > 1 else ANY)
            n = self.kw(c, "num", 2)
            return AV(d, join_deg(args[0].aff, args[1].aff) if len(args) > 1 else None, alldeps,
                      (self.topoly(n),) if n is not None else (None,))
        if tail in ("range", "arange"):
            n = self.topoly(c.args[0]) if len(c.args) == 1 else (
                (self.topoly(c.args[1]) - self.topoly(c.args[0])) if len(c.args) == 2 and self.topoly(c.args[0]) is not None
                and self.topoly(c.args[1]) is not None else None)
            return AV(F0, F0, alldeps, (n,))
        if tail == "enumerate" and args:
            return args[0]
        if tail == "len":
            return scalar0(alldeps)
        if tail in STACK and args:
            v = args[0]
            shape = None
            if tail in ("vstack", "row_stack", "stack") and v.items and all(i.shape is not None and len(i.shape) == 1 for i in v.items):
                s0 = v.items[0].shape[0]
                if all(i.shape[0] is not None and i.shape[0] == s0 for i in v.items):
                    shape = (Poly.const(len(v.items)), s0)
            return AV(v.deg, v.aff, v.deps, shape, None, None, v.missing)
        if tail == "meshgrid":
            return self.collect(args, c)
        if tail == "map" and len(args) == 2:
            return args[1].copy(items=None)
        if tail == "reshape":
            src_av = recv if recv is not None else first
            shp = c.args[0] if recv is not None and c.args else (c.args[1] if len(c.args) > 1 else None)
            if recv is not None and len(c.args) > 1:
                shp = ast.Tuple(list(c.args), ast.Load())
            return src_av.copy(shape=shape_of_size(shp, self.topoly), items=None) if src_av is not None else unk(alldeps)
        if tail in ("sqrt", "cbrt"):
            d = first.deg if first is not None else None
            k = 2 if tail == "sqrt" else 3
            nd = None if d is None else (ANY if d == ANY else d / k)
            return AV(nd, F0 if first is not None and first.aff in (F0, ANY) else None, alldeps,
                      first.shape if first is not None else None, unit=bool(first is not None and first.unit))
        if tail == "power" and len(c.args) == 2:
            return self.binop(ast.Pow(), args[0], args[1], ast.BinOp(c.args[0], ast.Pow(), c.args[1]))
        if tail in PURE0:
            d = first.deg if first is not None else None
            return AV(d if d in (F0, ANY) else None, F0, alldeps, first.shape if first is not None else None)
        if tail == "norm":
            return AV(first.deg if first is not None else None, F0, alldeps, None)
        if tail in ("normalized", "normalize"):
            return AV(F0 if first is not None else None, F0 if (first is not None and first.aff in (F0, ANY)) else None, alldeps,
                      first.shape if first is not None else None)
        if tail in ROT and args:
            return args[0].copy(deps=alldeps, items=None, verts=None)
        if tail in PROD and len(args) == 2:
            return AV(mul_deg(args[0].deg, args[1].deg), mul_aff(args[0].aff, args[1].aff), alldeps, None)
        if tail in MESHY:
            src_av = first
            if src_av is None:
                return AV(None, None, frozenset(), None, None, AV(ANY, ANY, TOP, (Poly(),)))
            if src_av.verts is not None:
                return src_av.copy(deps=alldeps)
            if tail == "from_arrays":
                return AV(None, None, alldeps, None, None, src_av.copy(items=None))
            return AV(None, None, alldeps, None, None, None)
        if tail in SAME:
            vals = ([recv] if recv is not None and not args else []) + args
            if len(vals) == 1:
                v = vals[0]
                shape = v.shape
                if tail in ("sum", "mean", "max", "min") and self.kw(c, "axis") is None:
                    shape = ()
                return AV(v.deg, v.aff, alldeps, shape, None, None, v.missing, v.unit)
            if vals:
                return self.collect(vals, c, strict=(tail == "Vec")).copy(deps=alldeps)
            return lit()
        # ---- a function of the package: interpret its body with the actual arguments
        if self.cfg.repo is not None and self.depth < 2 and isinstance(c.func, ast.Name):
            r = self.cfg.repo.resolve_func(self.cfg.modname, c.func.id)
            if r and r[1] is not None and not any(isinstance(a, ast.Starred) for a in c.args) and r[1] is not self.fn \
                    and (r[0].name == "mouette." + self.cfg.modname.replace("mouette.", "") or r[0].name.startswith("mouette.procedural")):
                callee = r[1]
                ps = [p.arg for p in callee.args.posonlyargs + callee.args.args]
                bound = {}
                for p, a in zip(ps, args):
                    bound[p] = a
                for k, v in kws.items():
                    bound[k] = v
                sub = Interp(callee, Config(self.cfg.geo, self.cfg.repo, r[0].name, unit=self.cfg.unit), args=bound, depth=self.depth + 1).run()
                out = None
                for _, v in sub.returns:
                    out = v if out is None else join_av(out, v)
                if out is not None:
                    return out
        return unk(alldeps)


def _load(t):
    t2 = ast.parse(ast.unparse(t), mode="eval").body   # parent-free copy
    for n in ast.walk(t2):
        if hasattr(n, "ctx"):
            n.ctx = ast.Load()
    return t2


def _root(e):
    while isinstance(e, (ast.Attribute, ast.Subscript, ast.Call)):
        e = e.value if not isinstance(e, ast.Call) else e.func
    return e.id if isinstance(e, ast.Name) else None


def _is_module(e):
    c = au.chain(e)
    return bool(c) and c[0] in ("np", "numpy", "math", "geom", "random", "scipy")


def fmt_deg(d):
    if d is None:
        return "unknown"
    if d == ANY:
        return "any (pure literal)"
    return str(d)
