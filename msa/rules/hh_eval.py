"""Finite-model evaluator: evaluates the *syntax trees* of small repository functions on tables of literal inputs.

The checker never imports or runs mouette.  The functions the property C12 talks about are closed-form primitives (a handful of
comparisons, min / max, +, -, *, /, sqrt, atan2): what they compute for a given input is decided by walking their AST with the
value model of hh_np.  A rule states a law of the property (`contains_point(p) == all(lo <= p < hi)`), enumerates a finite table
of inputs that realises every ordering / sign class the law distinguishes, and compares.  A disagreement comes with the concrete
input that shows it; a construct outside the modelled subset raises `Unknown` and the obligation is reported undecided.
"""
from __future__ import annotations
import ast, math, cmath
from .hh_np import Arr, Unknown, Raised, asarr, elementwise, reduce_axis, kind, join, cast, broadcast_vals
from . import hh_np


# ------------------------------------------------------------------------------------------------ values
class Func:
    __slots__ = ("mod", "node", "closure", "bound", "owner", "_entered", "_on_yield", "defaults")

    def __init__(self, mod, node, closure=None, bound=None, owner=None):
        self.mod, self.node, self.closure, self.bound, self.owner = mod, node, closure, bound, owner
        self._entered, self._on_yield = False, None
        self.defaults = None       # {id(default expr): value} for functions created at run time (defaults are evaluated once, at definition)

    @property
    def name(self):
        return getattr(self.node, "name", "<lambda>")


class Cls:
    __slots__ = ("mod", "node")

    def __init__(self, mod, node):
        self.mod, self.node = mod, node

    @property
    def name(self):
        return self.node.name

    def __eq__(self, o):
        return isinstance(o, Cls) and o.node is self.node

    def __hash__(self):
        return id(self.node)


class Obj:
    __slots__ = ("cls", "fields")

    def __init__(self, cls):
        self.cls, self.fields = cls, {}


class ExcObj:
    __slots__ = ("etype", "args")

    def __init__(self, etype, args):
        self.etype, self.args = etype, args


class Rec:
    """a record made by a rule to stand for an object of another package area (a mesh with its vertex container): named fields, and
    optionally the sequence it behaves as when iterated / indexed / measured"""
    __slots__ = ("fields", "seq")

    def __init__(self, seq=None, **fields):
        self.fields, self.seq = fields, seq


class GenCM:
    """the object returned by a @contextmanager function: its body is run by the `with` statement, the with-block at the yield"""
    __slots__ = ("func", "args", "kwargs")

    def __init__(self, func, args, kwargs):
        self.func, self.args, self.kwargs = func, args, kwargs


class ModV:
    __slots__ = ("name",)

    def __init__(self, name):
        self.name = name


class ExtM:
    __slots__ = ("name",)

    def __init__(self, name):
        self.name = name


class Builtin:
    __slots__ = ("name", "fn", "attrs")

    def __init__(self, name, fn, attrs=None):
        self.name, self.fn, self.attrs = name, fn, attrs or {}


class DType:
    __slots__ = ("k",)

    def __init__(self, k):
        self.k = k

    def __eq__(self, o):
        return isinstance(o, DType) and o.k == self.k

    def __hash__(self):
        return hash(self.k)


class Frame:
    __slots__ = ("vars", "parent", "mod", "exc", "on_yield")

    def __init__(self, mod, parent=None):
        self.vars, self.parent, self.mod, self.exc, self.on_yield = {}, parent, mod, None, None


class _Ctl(Exception):
    pass


class _Return(_Ctl):
    def __init__(self, v):
        self.v = v


class _Break(_Ctl):
    pass


class _Continue(_Ctl):
    pass


PY_EXC = {n: getattr(__import__("builtins"), n) for n in
          ("Exception", "BaseException", "ValueError", "TypeError", "IndexError", "KeyError", "AttributeError", "ZeroDivisionError",
           "FloatingPointError", "ArithmeticError", "AssertionError", "NotImplementedError", "RuntimeError", "StopIteration",
           "OverflowError", "LookupError")}
PY_TYPES = {"float": float, "int": int, "bool": bool, "complex": complex, "str": str, "list": list, "tuple": tuple, "dict": dict,
            "set": set, "object": object}


def is_number(v):
    return isinstance(v, (bool, int, float, complex)) or type(v).__name__ in ("SymNum", "SymC")


class Interp:
    def __init__(self, repo, budget=2_000_000, lenient=True):
        self.repo = repo
        self.err = {"divide": "warn", "over": "warn", "under": "warn", "invalid": "warn"}
        self.steps = 0
        self.budget = budget
        self.depth = 0
        self.lenient = lenient
        self._globals = {}
        self.strict_mods = set()       # modules whose statement-calls are never skipped

    # ------------------------------------------------------------------------------------------ names
    def module(self, name):
        name = name if name.startswith("mouette") else "mouette." + name
        if name not in self.repo.modules:
            raise Unknown(f"module {name}")
        return self.repo.modules[name]

    def global_name(self, mod, name):
        key = (mod.name, name)
        if key in self._globals:
            v = self._globals[key]
            if v is _PENDING:
                raise Unknown(f"recursive module-level definition of {name}")
            return v
        r = self.repo.resolve(mod.name, name)
        if r is None:
            if name == "__name__":
                return mod.name
            if name == "__file__":
                return mod.path
            return self.builtin(name)
        kind_, src, oname = r
        if kind_ == "def":
            m = self.repo.modules[src]
            fn = m.funcs.get(oname)
            if fn is None:
                raise Unknown(f"function {oname}")
            v = Func(m, fn)
        elif kind_ == "class":
            m = self.repo.modules[src]
            v = Cls(m, m.classes[oname])
        elif kind_ == "module":
            v = ModV(src)
        elif kind_ == "external":
            v = ExtM(src) if oname is None else self.ext_attr(src, oname)
        elif kind_ == "var":
            m = self.repo.modules[src]
            expr = None
            for st in self.repo._module_level_stmts(m):
                if isinstance(st, ast.Assign) and len(st.targets) == 1 and isinstance(st.targets[0], ast.Name) and st.targets[0].id == oname:
                    expr = st.value
                elif isinstance(st, ast.AnnAssign) and isinstance(st.target, ast.Name) and st.target.id == oname and st.value is not None:
                    expr = st.value
            if expr is None:
                raise Unknown(f"module-level name {oname}")
            self._globals[key] = _PENDING
            try:
                v = self.ev(expr, Frame(m))
            finally:
                self._globals.pop(key, None)
        else:
            raise Unknown(f"name {name} ({kind_})")
        self._globals[key] = v
        return v

    def builtin(self, name):
        if name in PY_EXC:
            return PY_EXC[name]
        if name in PY_TYPES:
            return PY_TYPES[name]
        if name in BUILTINS:
            return BUILTINS[name]
        if name in ("True", "False", "None"):
            return {"True": True, "False": False, "None": None}[name]
        raise Unknown(f"name {name}")

    def ext_attr(self, modname, attr):
        root = {"numpy": "numpy", "np": "numpy"}.get(modname, modname)
        table = EXT.get(root)
        if table is None:
            raise Unknown(f"external module {modname}")
        if attr in table:
            return table[attr]
        if root + "." + attr in EXT:
            return ExtM(root + "." + attr)
        raise Unknown(f"{modname}.{attr}")

    def lookup(self, name, fr):
        f = fr
        while f is not None:
            if name in f.vars:
                return f.vars[name]
            f = f.parent
        return self.global_name(fr.mod, name)

    # ------------------------------------------------------------------------------------------ classes
    def class_members(self, cls):
        """name -> ('prop', getter, setter) | ('static', fn) | ('classm', fn) | ('func', fn) | ('cls', ClassDef) | ('var', expr), with the
        Cls that owns it; follows the bases that live in the repository"""
        key = ("members", id(cls.node))
        if key in self._globals:
            return self._globals[key]
        out = {}
        ext_bases = []
        for m, c in self.repo.mro(cls.mod, cls.node):
            owner = Cls(m, c)
            local = {}
            for st in c.body:
                if isinstance(st, ast.FunctionDef):
                    decos = [ast.unparse(d) for d in st.decorator_list]
                    if not decos:
                        local[st.name] = ("func", st, owner)
                    elif decos == ["property"]:
                        local[st.name] = ("prop", st, None, owner)
                    elif len(decos) == 1 and decos[0].endswith(".setter"):
                        p = local.get(st.name)
                        if p and p[0] == "prop":
                            local[st.name] = ("prop", p[1], st, owner)
                        else:
                            local[st.name] = ("unknown", st, owner)
                    elif decos == ["staticmethod"]:
                        local[st.name] = ("static", st, owner)
                    elif decos == ["classmethod"]:
                        local[st.name] = ("classm", st, owner)
                    else:
                        local[st.name] = ("unknown", st, owner)
                elif isinstance(st, ast.ClassDef):
                    local[st.name] = ("cls", st, owner)
                elif isinstance(st, ast.Assign) and len(st.targets) == 1 and isinstance(st.targets[0], ast.Name):
                    local[st.targets[0].id] = ("var", st.value, owner)
            for k, v in local.items():
                out.setdefault(k, v)
            for b in c.bases:
                if self.repo._resolve_class_expr(m, b) is None:
                    ext_bases.append(ast.unparse(b))
        out["<ext>"] = ext_bases
        self._globals[key] = out
        return out

    def is_array_class(self, cls):
        return any(b.split(".")[-1] == "ndarray" for b in self.class_members(cls)["<ext>"])

    def is_exc_class(self, cls):
        return any(b.split(".")[-1] in PY_EXC or b.endswith("Error") or b.endswith("Exception") for b in self.class_members(cls)["<ext>"])

    def exc_matches(self, etype, handler_type):
        if isinstance(handler_type, tuple):
            return any(self.exc_matches(etype, h) for h in handler_type)
        if isinstance(handler_type, type) and issubclass(handler_type, BaseException):
            if isinstance(etype, type):
                return issubclass(etype, handler_type)
            if isinstance(etype, Cls):
                if handler_type in (Exception, BaseException):
                    return True
                return any(PY_EXC.get(b.split(".")[-1]) is not None and issubclass(PY_EXC[b.split(".")[-1]], handler_type)
                           for b in self.class_members(etype)["<ext>"])
            return False
        if isinstance(handler_type, Cls):
            if isinstance(etype, Cls):
                return any(c is handler_type.node for _, c in self.repo.mro(etype.mod, etype.node))
            return False
        raise Unknown("exception handler type")

    def instantiate(self, cls, args, kwargs):
        mem = self.class_members(cls)
        if self.is_exc_class(cls):
            return ExcObj(cls, args)
        if self.is_array_class(cls):
            new = mem.get("__new__")
            if new is None or new[0] not in ("func", "static"):
                raise Unknown(f"{cls.name}.__new__")
            res = self.call(Func(new[-1].mod, new[1], owner=new[-1]), [cls] + list(args), kwargs)
            init = mem.get("__init__")
            if init is not None:
                raise Unknown(f"{cls.name}.__init__ on an array subclass")
            return res
        if mem["<ext>"] and mem["<ext>"] != ["object"]:
            raise Unknown(f"class {cls.name} with external base {mem['<ext>']}")
        if "__new__" in mem:
            raise Unknown(f"{cls.name}.__new__")
        o = Obj(cls)
        init = mem.get("__init__")
        if init is not None:
            if init[0] != "func":
                raise Unknown("decorated __init__")
            self.call(Func(init[-1].mod, init[1], bound=o, owner=init[-1]), args, kwargs)
        elif args or kwargs:
            raise Raised(TypeError, f"{cls.name}() takes no arguments")
        return o

    def class_of(self, v):
        if isinstance(v, Obj):
            return v.cls
        if isinstance(v, Arr):
            return v.cls
        return None

    def getattr(self, v, name):
        cls = self.class_of(v)
        if name == "__class__" and cls is not None:
            return cls
        if cls is not None:
            mem = self.class_members(cls)
            m = mem.get(name)
            if m is not None:
                k = m[0]
                if k == "prop":
                    return self.call(Func(m[-1].mod, m[1], bound=v, owner=m[-1]), [], {})
                if isinstance(v, Obj) and name in v.fields:
                    return v.fields[name]
                return self._class_attr(m, cls, v)
            if isinstance(v, Obj):
                if name in v.fields:
                    return v.fields[name]
                raise Raised(AttributeError, f"'{cls.name}' object has no attribute '{name}'")
        if isinstance(v, Cls):
            m = self.class_members(v).get(name)
            if m is None:
                if name == "__name__":
                    return v.name
                raise Raised(AttributeError, f"type object '{v.name}' has no attribute '{name}'")
            if m[0] == "prop":
                raise Unknown("property read on a class")
            return self._class_attr(m, v, None)
        if isinstance(v, Arr):
            return arr_attr(self, v, name)
        if isinstance(v, ModV):
            return self.global_name(self.repo.modules[v.name], name)
        if isinstance(v, ExtM):
            return self.ext_attr(v.name, name)
        if isinstance(v, Builtin):
            if name in v.attrs:
                return v.attrs[name]
            raise Unknown(f"{v.name}.{name}")
        if isinstance(v, complex) or isinstance(v, (int, float)) or type(v).__name__ in ("SymNum", "SymC"):
            if name == "real":
                return v.real
            if name == "imag":
                return v.imag
            if name == "conjugate":
                return Builtin("conjugate", lambda it, a, k: v.conjugate())
            raise Unknown(f"attribute {name} of a number")
        if isinstance(v, (list, dict, str, tuple, set)):
            return seq_method(self, v, name)
        if isinstance(v, ExcObj):
            if name == "args":
                return tuple(v.args)
        if isinstance(v, Rec):
            if name in v.fields:
                return v.fields[name]
            raise Unknown(f"attribute {name} of a stand-in object")
        if isinstance(v, ErrState):
            raise Unknown("errstate attribute")
        raise Unknown(f"attribute {name} of {type(v).__name__}")

    def _class_attr(self, m, cls, inst):
        k = m[0]
        owner = m[-1]
        if k == "func":
            return Func(owner.mod, m[1], bound=inst, owner=owner)
        if k == "static":
            return Func(owner.mod, m[1], owner=owner)
        if k == "classm":
            return Func(owner.mod, m[1], bound=cls, owner=owner)
        if k == "cls":
            return Cls(owner.mod, m[1])
        if k == "var":
            return self.ev(m[1], Frame(owner.mod))
        raise Unknown(f"decorated member {getattr(m[1], 'name', '?')}")

    def setattr(self, v, name, val):
        cls = self.class_of(v)
        if cls is not None:
            m = self.class_members(cls).get(name)
            if m is not None and m[0] == "prop":
                if m[2] is None:
                    raise Raised(AttributeError, f"property '{name}' has no setter")
                self.call(Func(m[-1].mod, m[2], bound=v, owner=m[-1]), [val], {})
                return
        if isinstance(v, Obj):
            v.fields[name] = val
            return
        raise Unknown(f"attribute store {name} on {type(v).__name__}")

    # ------------------------------------------------------------------------------------------ calls
    def call(self, f, args, kwargs):
        if isinstance(f, Builtin):
            return f.fn(self, list(args), dict(kwargs))
        if isinstance(f, Func):
            return self.call_func(f, list(args), dict(kwargs))
        if isinstance(f, Cls):
            return self.instantiate(f, list(args), dict(kwargs))
        if isinstance(f, type):
            if issubclass(f, BaseException):
                return ExcObj(f, list(args))
            return py_type_call(self, f, list(args), dict(kwargs))
        if isinstance(f, DType):
            if len(args) == 1 and not kwargs:
                return asarr(args[0], f.k) if isinstance(args[0], (Arr, list, tuple)) else cast(args[0], f.k)
        raise Unknown(f"call of {type(f).__name__}")

    def call_func(self, f, args, kwargs):
        node = f.node
        if f.bound is not None:
            args = [f.bound] + args
        self.depth += 1
        if self.depth > 60:
            self.depth -= 1
            raise Unknown("recursion too deep")
        try:
            fr = Frame(f.mod, f.closure)
            fr.on_yield = f._on_yield
            a = node.args
            chk = _FNCHECK.get(id(node))
            if chk is None:
                chk = ""
                if isinstance(node, ast.FunctionDef):
                    decos = [ast.unparse(d) for d in node.decorator_list]
                    is_cm = any(d in ("contextmanager", "contextlib.contextmanager") for d in decos)
                    n_yield = sum(1 for n in ast.walk(node) if isinstance(n, (ast.Yield, ast.YieldFrom)))
                    if n_yield and not (is_cm and n_yield == 1 and not any(isinstance(n, ast.YieldFrom) for n in ast.walk(node))):
                        chk = f"generator function {node.name}"
                    for sd in decos:
                        if sd not in ("property", "staticmethod", "classmethod", "contextmanager", "contextlib.contextmanager") \
                                and not sd.endswith(".setter"):
                            chk = f"decorator @{sd}"
                    if is_cm and not chk:
                        chk = "<cm>"
                _FNCHECK[id(node)] = (chk, node)
            else:
                chk = chk[0]
            if chk == "<cm>":
                if not getattr(f, "_entered", False):
                    g = Func(f.mod, f.node, f.closure, None, f.owner)
                    g.defaults = f.defaults
                    return GenCM(g, args, kwargs)
            elif chk:
                raise Unknown(chk)
            pos = a.posonlyargs + a.args
            defaults = [None] * (len(pos) - len(a.defaults)) + list(a.defaults)
            for i, p in enumerate(pos):
                if i < len(args):
                    if p.arg in kwargs:
                        raise Raised(TypeError, f"multiple values for argument '{p.arg}'")
                    fr.vars[p.arg] = args[i]
                elif p.arg in kwargs and p not in a.posonlyargs:
                    fr.vars[p.arg] = kwargs.pop(p.arg)
                elif defaults[i] is not None:
                    fr.vars[p.arg] = f.defaults[id(defaults[i])] if f.defaults is not None else self.ev(defaults[i], Frame(f.mod, f.closure))
                else:
                    raise Raised(TypeError, f"{f.name}() missing required argument '{p.arg}'")
            extra = args[len(pos):]
            if a.vararg:
                fr.vars[a.vararg.arg] = tuple(extra)
            elif extra:
                raise Raised(TypeError, f"{f.name}() takes {len(pos)} positional arguments but {len(args)} were given")
            for p, d in zip(a.kwonlyargs, a.kw_defaults):
                if p.arg in kwargs:
                    fr.vars[p.arg] = kwargs.pop(p.arg)
                elif d is not None:
                    fr.vars[p.arg] = f.defaults[id(d)] if f.defaults is not None else self.ev(d, Frame(f.mod, f.closure))
                else:
                    raise Raised(TypeError, f"{f.name}() missing keyword-only argument '{p.arg}'")
            if a.kwarg:
                fr.vars[a.kwarg.arg] = dict(kwargs)
            elif kwargs:
                raise Raised(TypeError, f"{f.name}() got an unexpected keyword argument '{next(iter(kwargs))}'")
            if isinstance(node, ast.Lambda):
                return self.ev(node.body, fr)
            try:
                self.block(node.body, fr)
            except _Return as r:
                return r.v
            return None
        finally:
            self.depth -= 1

    # ------------------------------------------------------------------------------------------ statements
    def block(self, body, fr):
        for st in body:
            self.stmt(st, fr)

    def stmt(self, st, fr):
        self.steps += 1
        if self.steps > self.budget:
            raise Unknown("evaluation budget exceeded")
        m = _SDISPATCH.get(type(st))
        if m is None:
            m = _SDISPATCH[type(st)] = getattr(Interp, "s_" + type(st).__name__, None) or _no_stmt
        m(self, st, fr)

    def s_Expr(self, st, fr):
        if isinstance(st.value, ast.Constant):
            return
        if self.lenient and isinstance(st.value, ast.Call):
            # a call whose value is discarded: validation / logging.  When it cannot be modelled and it does not belong to the
            # analysed modules, the inputs of the tables being valid, it is assumed to return.
            try:
                self.ev(st.value, fr)
            except Unknown:
                if self._skippable(st.value, fr):
                    return
                raise
            return
        self.ev(st.value, fr)

    def _skippable(self, call, fr):
        f = call.func
        root = f
        while isinstance(root, ast.Attribute):
            root = root.value
        if not isinstance(root, ast.Name):
            return False
        if root.id in ("self", "cls"):
            return False
        f2 = fr
        while f2 is not None:
            if root.id in f2.vars:
                v = f2.vars[root.id]
                return isinstance(v, (ExtM,)) and v.name.split(".")[0] in ("logging", "warnings")
            f2 = f2.parent
        r = self.repo.resolve(fr.mod.name, root.id)
        if r is None:
            return root.id in ("print",)
        k, src, oname = r
        if k in ("external",):
            return src.split(".")[0] in ("logging", "warnings")
        if k in ("def", "class", "module", "var"):
            return src not in self.strict_mods and not (k == "module" and src in self.strict_mods)
        return False

    def s_Pass(self, st, fr):
        pass

    def s_Return(self, st, fr):
        raise _Return(self.ev(st.value, fr) if st.value is not None else None)

    def s_Break(self, st, fr):
        raise _Break()

    def s_Continue(self, st, fr):
        raise _Continue()

    def s_Assign(self, st, fr):
        v = self.ev(st.value, fr)
        for t in st.targets:
            self.assign(t, v, fr)

    def s_AnnAssign(self, st, fr):
        if st.value is not None:
            self.assign(st.target, self.ev(st.value, fr), fr)

    def s_AugAssign(self, st, fr):
        t = st.target
        if isinstance(t, ast.Name):
            cur = self.lookup(t.id, fr)
            new = self.inplace(cur, st.op, self.ev(st.value, fr))
            self._bind(t.id, new, fr)
        elif isinstance(t, ast.Attribute):
            o = self.ev(t.value, fr)
            cur = self.getattr(o, t.attr)
            new = self.inplace(cur, st.op, self.ev(st.value, fr))
            self.setattr(o, t.attr, new)
        elif isinstance(t, ast.Subscript):
            o = self.ev(t.value, fr)
            ix = self.index(t.slice, fr)
            cur = self.getitem(o, ix)
            new = self.inplace(cur, st.op, self.ev(st.value, fr))
            self.setitem(o, ix, new)
        else:
            raise Unknown("augmented assignment target")

    def inplace(self, cur, op, val):
        if isinstance(cur, Arr):
            res = self.binop(op, cur, val)
            if not isinstance(res, Arr) or res.shape != cur.shape:
                raise Raised(ValueError, "non-broadcastable output operand")
            if hh_np.ORDER.index(res.dtype) > hh_np.ORDER.index(cur.dtype) and not (cur.dtype == "b" and res.dtype == "b"):
                raise Raised(TypeError, f"cannot cast the in-place result from {res.dtype} to {cur.dtype}")
            for p, v in zip(cur.idx, res.vals()):
                cur.store[p] = cast(v, cur.dtype)
            return cur
        if isinstance(cur, list):
            if isinstance(op, ast.Add):
                cur.extend(self.iterate(val))
                return cur
            if isinstance(op, ast.Mult) and isinstance(val, int):
                cur[:] = cur * val
                return cur
        return self.binop(op, cur, val)

    def _bind(self, name, v, fr):
        fr.vars[name] = v

    def assign(self, t, v, fr):
        if isinstance(t, ast.Name):
            fr.vars[t.id] = v
        elif isinstance(t, (ast.Tuple, ast.List)):
            items = self.iterate(v)
            star = [i for i, e in enumerate(t.elts) if isinstance(e, ast.Starred)]
            if star:
                i = star[0]
                n_after = len(t.elts) - i - 1
                if len(items) < len(t.elts) - 1:
                    raise Raised(ValueError, "not enough values to unpack")
                for e, x in zip(t.elts[:i], items[:i]):
                    self.assign(e, x, fr)
                self.assign(t.elts[i].value, list(items[i:len(items) - n_after]), fr)
                for e, x in zip(t.elts[i + 1:], items[len(items) - n_after:]):
                    self.assign(e, x, fr)
                return
            if len(items) != len(t.elts):
                raise Raised(ValueError, f"cannot unpack {len(items)} values into {len(t.elts)} names")
            for e, x in zip(t.elts, items):
                self.assign(e, x, fr)
        elif isinstance(t, ast.Attribute):
            self.setattr(self.ev(t.value, fr), t.attr, v)
        elif isinstance(t, ast.Subscript):
            self.setitem(self.ev(t.value, fr), self.index(t.slice, fr), v)
        else:
            raise Unknown(f"assignment target {type(t).__name__}")

    def s_If(self, st, fr):
        if self.truth(self.ev(st.test, fr)):
            self.block(st.body, fr)
        else:
            self.block(st.orelse, fr)

    def s_For(self, st, fr):
        broke = False
        for x in self.iterate(self.ev(st.iter, fr)):
            self.assign(st.target, x, fr)
            try:
                self.block(st.body, fr)
            except _Break:
                broke = True
                break
            except _Continue:
                continue
        if not broke:
            self.block(st.orelse, fr)

    def s_While(self, st, fr):
        n = 0
        broke = False
        while self.truth(self.ev(st.test, fr)):
            n += 1
            if n > 10000:
                raise Unknown("while loop does not end on the table input")
            try:
                self.block(st.body, fr)
            except _Break:
                broke = True
                break
            except _Continue:
                continue
        if not broke:
            self.block(st.orelse, fr)

    def s_Assert(self, st, fr):
        if not self.truth(self.ev(st.test, fr)):
            raise Raised(AssertionError, ast.unparse(st.test))

    def s_Raise(self, st, fr):
        if st.exc is None:
            f = fr
            while f is not None and f.exc is None:
                f = f.parent
            if f is None:
                raise Raised(RuntimeError, "No active exception to reraise")
            raise f.exc
        e = self.ev(st.exc, fr)
        if isinstance(e, ExcObj):
            raise Raised(e.etype, " ".join(str(a) for a in e.args if isinstance(a, str))[:200])
        if isinstance(e, type) and issubclass(e, BaseException):
            raise Raised(e, "")
        if isinstance(e, Cls) and self.is_exc_class(e):
            raise Raised(e, "")
        raise Unknown("raise of a non-exception value")

    def s_Try(self, st, fr):
        try:
            try:
                self.block(st.body, fr)
            except Raised as ex:
                for h in st.handlers:
                    if h.type is None or self.exc_matches(ex.etype, self.ev(h.type, fr)):
                        if h.name:
                            fr.vars[h.name] = ExcObj(ex.etype, [ex.msg])
                        saved, fr.exc = fr.exc, ex
                        try:
                            self.block(h.body, fr)
                        finally:
                            fr.exc = saved
                        break
                else:
                    raise
            else:
                self.block(st.orelse, fr)
        finally:
            # the finally clause runs on every exit, also when the evaluator itself gives up (Unknown propagates afterwards)
            if st.finalbody:
                self.block(st.finalbody, fr)

    def s_With(self, st, fr):
        self._with(st, list(st.items), fr)

    def _with(self, st, items, fr):
        if not items:
            self.block(st.body, fr)
            return
        it, rest = items[0], items[1:]
        m = self.ev(it.context_expr, fr)
        if isinstance(m, ErrState):
            old = dict(self.err)
            self.err.update(m.settings)
            if it.optional_vars is not None:
                self.assign(it.optional_vars, None, fr)
            try:
                self._with(st, rest, fr)
            finally:
                self.err.clear()
                self.err.update(old)
            return
        if isinstance(m, GenCM):
            ran = []

            def on_yield(value):
                ran.append(1)
                if len(ran) > 1:
                    raise Unknown("a context manager that yields twice")
                if it.optional_vars is not None:
                    self.assign(it.optional_vars, value, fr)
                try:
                    self._with(st, rest, fr)
                except _Ctl as c:          # return / break / continue leave the block normally: the generator is resumed first
                    pending.append(c)
            pending = []
            g = Func(m.func.mod, m.func.node, m.func.closure, None, m.func.owner)
            g.defaults = m.func.defaults
            g._entered, g._on_yield = True, on_yield
            self.call_func(g, list(m.args), dict(m.kwargs))
            if not ran:
                raise Raised(RuntimeError, "generator didn't yield")
            if pending:
                raise pending[0]
            return
        if isinstance(m, Obj):
            mem = self.class_members(m.cls)
            en, ex = mem.get("__enter__"), mem.get("__exit__")
            if en is None or ex is None or en[0] != "func" or ex[0] != "func":
                raise Unknown("context manager without __enter__ / __exit__")
            v = self.call(Func(en[-1].mod, en[1], bound=m, owner=en[-1]), [], {})
            if it.optional_vars is not None:
                self.assign(it.optional_vars, v, fr)
            exit_f = Func(ex[-1].mod, ex[1], bound=m, owner=ex[-1])
            try:
                self._with(st, rest, fr)
            except Raised as e:
                if self.truth(self.call(exit_f, [e.etype, ExcObj(e.etype, [e.msg]), None], {})):
                    return
                raise
            except _Ctl:
                self.call(exit_f, [None, None, None], {})
                raise
            else:
                self.call(exit_f, [None, None, None], {})
            return
        raise Unknown("context manager " + ast.unparse(it.context_expr)[:60])

    def e_Yield(self, e, fr):
        f = fr
        while f is not None and f.on_yield is None:
            f = f.parent
        if f is None:
            raise Unknown("yield outside a context manager")
        f.on_yield(self.ev(e.value, fr) if e.value is not None else None)
        return None

    def s_FunctionDef(self, st, fr):
        if st.decorator_list:
            raise Unknown("decorated local function")
        fr.vars[st.name] = self._local_func(st, fr)

    def s_Import(self, st, fr):
        for a in st.names:
            fr.vars[a.asname or a.name.split(".")[0]] = ExtM(a.name if a.asname else a.name.split(".")[0])

    def s_ImportFrom(self, st, fr):
        if st.level:
            raise Unknown("relative import inside a function")
        for a in st.names:
            fr.vars[a.asname or a.name] = self.ext_attr(st.module, a.name)

    def s_Delete(self, st, fr):
        for t in st.targets:
            if isinstance(t, ast.Name):
                fr.vars.pop(t.id, None)
            else:
                raise Unknown("del of an item")

    def s_Global(self, st, fr):
        raise Unknown("global statement")

    def s_Nonlocal(self, st, fr):
        raise Unknown("nonlocal statement")

    # ------------------------------------------------------------------------------------------ expressions
    def ev(self, e, fr):
        self.steps += 1
        if self.steps > self.budget:
            raise Unknown("evaluation budget exceeded")
        m = _EDISPATCH.get(type(e))
        if m is None:
            m = _EDISPATCH[type(e)] = getattr(Interp, "e_" + type(e).__name__, None) or _no_expr
        return m(self, e, fr)

    def e_Constant(self, e, fr):
        if e.value is Ellipsis:
            return Ellipsis
        return e.value

    def e_Name(self, e, fr):
        return self.lookup(e.id, fr)

    def e_Attribute(self, e, fr):
        return self.getattr(self.ev(e.value, fr), e.attr)

    def e_Tuple(self, e, fr):
        return tuple(self._elts(e.elts, fr))

    def e_List(self, e, fr):
        return self._elts(e.elts, fr)

    def e_Set(self, e, fr):
        return set(self._hashable(x) for x in self._elts(e.elts, fr))

    def _hashable(self, x):
        if isinstance(x, (Arr, list, dict, Obj)):
            raise Unknown("unhashable / identity-hashed set element")
        return x

    def _elts(self, elts, fr):
        out = []
        for x in elts:
            if isinstance(x, ast.Starred):
                out.extend(self.iterate(self.ev(x.value, fr)))
            else:
                out.append(self.ev(x, fr))
        return out

    def e_Dict(self, e, fr):
        d = {}
        for k, v in zip(e.keys, e.values):
            if k is None:
                inner = self.ev(v, fr)
                if not isinstance(inner, dict):
                    raise Unknown("** of a non-dict")
                d.update(inner)
            else:
                d[self._hashable(self.ev(k, fr))] = self.ev(v, fr)
        return d

    def e_JoinedStr(self, e, fr):
        parts = []
        for v in e.values:
            if isinstance(v, ast.Constant):
                parts.append(str(v.value))
            else:
                try:
                    x = self.ev(v.value, fr)
                    parts.append(str(x) if isinstance(x, (str, int, float, bool)) or x is None else "<value>")
                except Unknown:
                    parts.append("<?>")
        return "".join(parts)

    def e_IfExp(self, e, fr):
        return self.ev(e.body, fr) if self.truth(self.ev(e.test, fr)) else self.ev(e.orelse, fr)

    def _local_func(self, node, fr):
        f = Func(fr.mod, node, closure=fr)
        f.defaults = {id(d): self.ev(d, fr) for d in list(node.args.defaults) + [k for k in node.args.kw_defaults if k is not None]}
        return f

    def e_Lambda(self, e, fr):
        return self._local_func(e, fr)

    def e_NamedExpr(self, e, fr):
        v = self.ev(e.value, fr)
        fr.vars[e.target.id] = v
        return v

    def e_BoolOp(self, e, fr):
        v = None
        for x in e.values:
            v = self.ev(x, fr)
            t = self.truth(v)
            if isinstance(e.op, ast.And) and not t:
                return v
            if isinstance(e.op, ast.Or) and t:
                return v
        return v

    def e_UnaryOp(self, e, fr):
        v = self.ev(e.operand, fr)
        if isinstance(e.op, ast.Not):
            return not self.truth(v)
        if isinstance(e.op, ast.USub):
            return elementwise(lambda a: -a, [v]) if isinstance(v, Arr) else self._num(v, lambda a: -a)
        if isinstance(e.op, ast.UAdd):
            return v if isinstance(v, Arr) else self._num(v, lambda a: +a)
        if isinstance(e.op, ast.Invert):
            if isinstance(v, Arr):
                if v.dtype == "b":
                    return elementwise(lambda a: not a, [v], promote=False)
                if v.dtype == "i":
                    return elementwise(lambda a: ~a, [v])
                raise Raised(TypeError, "~ on a float array")
            if isinstance(v, bool):
                raise Unknown("~ on a boolean scalar (python bool and numpy bool differ)")
            if isinstance(v, int):
                return ~v
        raise Unknown("unary operator")

    def _num(self, v, f):
        if is_number(v):
            return f(v)
        raise Unknown(f"arithmetic on {type(v).__name__}")

    def e_BinOp(self, e, fr):
        return self.binop(e.op, self.ev(e.left, fr), self.ev(e.right, fr))

    def binop(self, op, a, b):
        if isinstance(a, Arr) or isinstance(b, Arr):
            if isinstance(a, (str, dict, Obj)) or isinstance(b, (str, dict, Obj)) or a is None or b is None:
                raise Raised(TypeError, "unsupported operand")
            if isinstance(op, ast.MatMult):
                return np_dot(self, [a, b], {})
            f = self._scalar_op(op, array=True)
            return elementwise(f, [a, b])
        if isinstance(op, ast.Add):
            if isinstance(a, list) and isinstance(b, list):
                return a + b
            if isinstance(a, tuple) and isinstance(b, tuple):
                return a + b
            if isinstance(a, str) and isinstance(b, str):
                return a + b
        if isinstance(op, ast.Mult):
            if isinstance(a, (list, tuple, str)) and isinstance(b, int) and not isinstance(b, bool):
                return a * b
            if isinstance(b, (list, tuple, str)) and isinstance(a, int) and not isinstance(a, bool):
                return a * b
        if isinstance(op, ast.Mod) and isinstance(a, str):
            return "<formatted>"
        if isinstance(a, Obj) or isinstance(b, Obj):
            return self._dunder(op, a, b)
        if not (is_number(a) and is_number(b)):
            raise Raised(TypeError, f"unsupported operand types {type(a).__name__} and {type(b).__name__}")
        return self._scalar_op(op, array=False)(a, b)

    def _dunder(self, op, a, b):
        names = {ast.Add: "add", ast.Sub: "sub", ast.Mult: "mul", ast.BitAnd: "and", ast.BitOr: "or", ast.BitXor: "xor",
                 ast.Div: "truediv", ast.MatMult: "matmul"}
        n = names.get(type(op))
        if n is None:
            raise Unknown("operator on an object")
        if isinstance(a, Obj):
            m = self.class_members(a.cls).get(f"__{n}__")
            if m is not None and m[0] == "func":
                return self.call(Func(m[-1].mod, m[1], bound=a, owner=m[-1]), [b], {})
        if isinstance(b, Obj):
            m = self.class_members(b.cls).get(f"__r{n}__")
            if m is not None and m[0] == "func":
                return self.call(Func(m[-1].mod, m[1], bound=b, owner=m[-1]), [a], {})
        raise Raised(TypeError, "unsupported operand")

    def _scalar_op(self, op, array):
        err = self.err
        t = type(op)

        def bools(a, b):
            return isinstance(a, bool) and isinstance(b, bool)

        def div(a, b):
            if b == 0:
                if not array:
                    raise Unknown("scalar division by zero (python float and numpy scalar differ)")
                if isinstance(a, complex) or isinstance(b, complex):
                    raise Unknown("complex division by zero")
                if a == 0 or a != a:
                    if err["invalid"] == "raise":
                        raise Raised(FloatingPointError, "invalid value encountered in divide")
                    return math.nan
                if err["divide"] == "raise":
                    raise Raised(FloatingPointError, "divide by zero encountered in divide")
                neg = (a < 0) != (math.copysign(1.0, float(b)) < 0)
                return -math.inf if neg else math.inf
            try:
                return a / b
            except OverflowError:
                raise Unknown("overflow")
        if t is ast.Add:
            def f(a, b):
                if array and bools(a, b):
                    raise Unknown("boolean + boolean in an array")
                return a + b
        elif t is ast.Sub:
            def f(a, b):
                if array and bools(a, b):
                    raise Unknown("boolean - boolean in an array")
                if isinstance(a, float) and isinstance(b, float) and a == b and a in (math.inf, -math.inf) and err["invalid"] == "raise":
                    raise Raised(FloatingPointError, "invalid value encountered in subtract")
                return a - b
        elif t is ast.Mult:
            def f(a, b):
                if array and bools(a, b):
                    raise Unknown("boolean * boolean in an array")
                return a * b
        elif t is ast.Div:
            f = div
        elif t is ast.FloorDiv:
            def f(a, b):
                if b == 0:
                    raise Unknown("floor division by zero")
                return a // b
        elif t is ast.Mod:
            def f(a, b):
                if b == 0:
                    raise Unknown("modulo by zero")
                if isinstance(a, complex) or isinstance(b, complex):
                    raise Raised(TypeError, "complex modulo")
                return a % b
        elif t is ast.Pow:
            def f(a, b):
                if array and isinstance(a, int) and isinstance(b, int) and b < 0:
                    raise Unknown("integer to a negative power")
                if a == 0 and isinstance(b, (int, float)) and b < 0:
                    raise Unknown("zero to a negative power")
                try:
                    r = a ** b
                except OverflowError:
                    raise Unknown("overflow")
                if isinstance(r, complex) and not isinstance(a, complex) and not isinstance(b, complex):
                    raise Unknown("negative number to a fractional power")
                return r
        elif t in (ast.BitAnd, ast.BitOr, ast.BitXor):
            import operator
            g = {ast.BitAnd: operator.and_, ast.BitOr: operator.or_, ast.BitXor: operator.xor}[t]

            def f(a, b):
                if isinstance(a, float) or isinstance(b, float) or isinstance(a, complex) or isinstance(b, complex):
                    raise Raised(TypeError, "bitwise operator on floats")
                return g(a, b)
        else:
            raise Unknown(f"operator {t.__name__}")
        return f

    def e_Compare(self, e, fr):
        left = self.ev(e.left, fr)
        res = True
        for op, c in zip(e.ops, e.comparators):
            right = self.ev(c, fr)
            res = self.compare(op, left, right)
            if len(e.ops) > 1 and not self.truth(res):
                return res
            left = right
        return res

    def compare(self, op, a, b):
        t = type(op)
        if t in (ast.Is, ast.IsNot):
            if a is None or b is None or isinstance(a, (Obj, Cls, type)) or isinstance(b, (Obj, Cls, type)) \
                    or (isinstance(a, bool) and isinstance(b, bool)):
                r = a is b or (isinstance(a, Cls) and a == b)
                return r if t is ast.Is else not r
            if isinstance(a, Arr) and isinstance(b, Arr):
                raise Unknown("identity of arrays")
            raise Unknown("`is` between values")
        if t in (ast.In, ast.NotIn):
            if isinstance(b, (list, tuple, set, dict)):
                items = list(b)
                if isinstance(a, Arr) or any(isinstance(x, Arr) for x in items):
                    raise Unknown("membership test on arrays")
                r = any(self._eq(a, x) for x in items)
            elif isinstance(b, str) and isinstance(a, str):
                r = a in b
            else:
                raise Unknown("membership test")
            return r if t is ast.In else not r
        if isinstance(a, Arr) or isinstance(b, Arr):
            if a is None or b is None or isinstance(a, str) or isinstance(b, str):
                raise Unknown("array compared with None / str")
            f = CMP[t]
            return elementwise(lambda x, y: bool(f(x, y)), [a, b], promote=False)
        if t is ast.Eq:
            return self._eq(a, b)
        if t is ast.NotEq:
            return not self._eq(a, b)
        if is_number(a) and is_number(b) or (isinstance(a, str) and isinstance(b, str)):
            if isinstance(a, complex) or isinstance(b, complex):
                raise Raised(TypeError, "ordering of complex numbers")
            return CMP[t](a, b)
        if isinstance(a, (tuple, list)) and type(a) is type(b):
            if any(isinstance(x, Arr) for x in list(a) + list(b)):
                raise Unknown("ordering of sequences of arrays")
            return CMP[t](a, b)
        raise Raised(TypeError, f"ordering of {type(a).__name__} and {type(b).__name__}")

    def _eq(self, a, b):
        if isinstance(a, (Arr,)) or isinstance(b, (Arr,)):
            raise Unknown("== on arrays in a scalar context")
        if isinstance(a, (tuple, list)) and isinstance(b, (tuple, list)):
            return type(a) is type(b) and len(a) == len(b) and all(self._eq(x, y) for x, y in zip(a, b))
        if isinstance(a, (Obj, Func, ExcObj)) or isinstance(b, (Obj, Func, ExcObj)):
            return a is b
        if isinstance(a, DType) and isinstance(b, type):
            return a.k == {float: "f", int: "i", bool: "b", complex: "c"}.get(b)
        if isinstance(b, DType) and isinstance(a, type):
            return self._eq(b, a)
        return a == b

    def truth(self, v):
        if isinstance(v, Arr):
            if v.size == 1:
                return bool(v.vals()[0])
            if v.size == 0:
                return False
            raise Raised(ValueError, "The truth value of an array with more than one element is ambiguous")
        if v is None or isinstance(v, (bool, int, float, complex, str, list, tuple, dict, set)) or type(v).__name__ in ("SymNum", "SymC"):
            return bool(v)
        return True

    def iterate(self, v):
        if isinstance(v, Arr):
            return v.rows()
        if isinstance(v, (list, tuple)):
            return list(v)
        if isinstance(v, dict):
            return list(v.keys())
        if isinstance(v, (range, str, set)):
            return list(v)
        if isinstance(v, Lazy):
            return v.items
        if isinstance(v, Rec) and v.seq is not None:
            return self.iterate(v.seq)
        raise Raised(TypeError, f"'{type(v).__name__}' object is not iterable")

    # ------------------------------------------------------------------------------------------ subscripts
    def index(self, s, fr):
        if isinstance(s, ast.Slice):
            return slice(*(self.ev(x, fr) if x is not None else None for x in (s.lower, s.upper, s.step)))
        if isinstance(s, ast.Tuple):
            return tuple(self.index(x, fr) for x in s.elts)
        return self.ev(s, fr)

    def e_Subscript(self, e, fr):
        return self.getitem(self.ev(e.value, fr), self.index(e.slice, fr))

    def _check_ix(self, ix):
        if isinstance(ix, tuple):
            for x in ix:
                self._check_ix(x)
        elif isinstance(ix, slice):
            for x in (ix.start, ix.stop, ix.step):
                if x is not None and (not isinstance(x, int) or isinstance(x, bool)):
                    raise Unknown("non-integer slice bound")
        elif isinstance(ix, float):
            raise Raised(IndexError, "float index")

    def getitem(self, o, ix):
        self._check_ix(ix)
        if isinstance(o, Arr):
            return o.get(ix)
        if isinstance(o, (list, tuple, str)):
            if isinstance(ix, (int, slice)) and not isinstance(ix, bool):
                try:
                    return o[ix]
                except IndexError:
                    raise Raised(IndexError, "sequence index out of range")
            raise Raised(TypeError, "sequence indices must be integers or slices")
        if isinstance(o, dict):
            k = self._hashable(ix)
            if k in o:
                return o[k]
            raise Raised(KeyError, str(k))
        if isinstance(o, Lazy):
            return self.getitem(o.items, ix)
        if isinstance(o, Rec) and o.seq is not None:
            return self.getitem(o.seq, ix)
        if isinstance(o, Obj):
            m = self.class_members(o.cls).get("__getitem__")
            if m is not None and m[0] == "func":
                return self.call(Func(m[-1].mod, m[1], bound=o, owner=m[-1]), [ix], {})
        raise Unknown(f"subscript of {type(o).__name__}")

    def setitem(self, o, ix, v):
        self._check_ix(ix)
        if isinstance(o, Arr):
            if isinstance(v, (str, Obj)) or v is None:
                raise Raised(TypeError, "cannot store this value in an array")
            o.set(ix, v)
            return
        if isinstance(o, list):
            if isinstance(ix, int) and not isinstance(ix, bool):
                try:
                    o[ix] = v
                except IndexError:
                    raise Raised(IndexError, "list assignment index out of range")
                return
            if isinstance(ix, slice):
                o[ix] = self.iterate(v)
                return
        if isinstance(o, dict):
            o[self._hashable(ix)] = v
            return
        if isinstance(o, tuple):
            raise Raised(TypeError, "'tuple' object does not support item assignment")
        raise Unknown(f"item store on {type(o).__name__}")

    # ------------------------------------------------------------------------------------------ calls / comprehensions
    def e_Call(self, e, fr):
        f = self.ev(e.func, fr)
        args = self._elts(e.args, fr)
        kwargs = {}
        for k in e.keywords:
            v = self.ev(k.value, fr)
            if k.arg is None:
                if not isinstance(v, dict):
                    raise Unknown("** of a non-dict")
                kwargs.update(v)
            else:
                kwargs[k.arg] = v
        return self.call(f, args, kwargs)

    def _comp(self, gens, fr, emit):
        def rec(i, f):
            if i == len(gens):
                emit(f)
                return
            g = gens[i]
            for x in self.iterate(self.ev(g.iter, f)):
                self.assign(g.target, x, f)
                if all(self.truth(self.ev(c, f)) for c in g.ifs):
                    rec(i + 1, f)
        rec(0, Frame(fr.mod, fr))

    def e_ListComp(self, e, fr):
        out = []
        self._comp(e.generators, fr, lambda f: out.append(self.ev(e.elt, f)))
        return out

    def e_GeneratorExp(self, e, fr):
        out = []
        self._comp(e.generators, fr, lambda f: out.append(self.ev(e.elt, f)))
        return Lazy(out)

    def e_SetComp(self, e, fr):
        out = []
        self._comp(e.generators, fr, lambda f: out.append(self._hashable(self.ev(e.elt, f))))
        return set(out)

    def e_DictComp(self, e, fr):
        out = {}

        def emit(f):
            out[self._hashable(self.ev(e.key, f))] = self.ev(e.value, f)
        self._comp(e.generators, fr, emit)
        return out


_EDISPATCH, _SDISPATCH, _FNCHECK = {}, {}, {}


def _no_expr(self, e, fr):
    raise Unknown(f"expression {type(e).__name__}")


def _no_stmt(self, st, fr):
    raise Unknown(f"statement {type(st).__name__}")


class Lazy:
    """the (eagerly computed) items of a generator expression / zip / map: the evaluated programs are pure, order is preserved"""
    __slots__ = ("items",)

    def __init__(self, items):
        self.items = list(items)


class ErrState:
    __slots__ = ("settings",)

    def __init__(self, settings):
        self.settings = settings


_PENDING = object()
import operator as _op
CMP = {ast.Lt: _op.lt, ast.LtE: _op.le, ast.Gt: _op.gt, ast.GtE: _op.ge, ast.Eq: _op.eq, ast.NotEq: _op.ne}

from .hh_lib import BUILTINS, EXT, arr_attr, seq_method, py_type_call, np_dot  # noqa: E402  (the library models)
