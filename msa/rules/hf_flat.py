"""hf_flat - a per-function normal form for the C09 / C10 / C16 rules (group F).

The rules of these properties are about small work-list algorithms (Dijkstra, breadth-first trees, Kruskal, a mesh rebuild).
Maintainers move parts of such algorithms into private helpers / nested functions / generator methods, cache attributes and
bound methods in locals, replace `append` loops by `extend(<generator>)` and so on.  Instead of teaching every rule every
spelling, `flatten(repo, modname, fn, cls)` returns a *copy* of the function in which (semantics-preserving steps only):

  F1  `x.extend(<generator / list comprehension>)`, `x = deque(<generator / list literal>)`, `yield from e`, `a = b = e`
      are written with plain loops / single assignments;
  F2  calls of nested functions, of private module-level functions of the same module and of private methods of the same class
      (`self._m(..)`, `Cls._m(..)`) are inlined: as a statement, as `x = f(..)`, as `return f(..)`, as the iterable of a `for`
      when f is a generator, and inside expressions when f is a single `return <expr>` / a lambda bound once; callable
      arguments (lambdas, bound methods) are substituted for the parameter they are passed to and applied;
  F3  `t.__getitem__(k)` is written `t[k]`;
  F4  a local name bound exactly once, at the top level of the function, to a pure attribute chain (`faces = self.mesh.faces`,
      `push = queue.push`, `find, union = uf.find, uf.union`) is replaced by that chain.

Nothing is executed.  Node positions are kept (inlined statements keep the line of the helper they come from), so rules must
order statements with `order_index` / `before`, never with line numbers.  If a call cannot be inlined safely it is left alone:
the rule then sees an opaque call and must answer `undecided`, not `fail`."""
from __future__ import annotations
import ast
from .. import au, sym

MAX_DEPTH = 4
MAX_STMTS = 4000


# private attributes the rules of group F are written about (never replaced by a property that exposes them)
KEEP_PRIVATE = {"_computed", "_avoidbound", "_avoidedges", "_output_mesh", "_par", "_indx", "_siz", "_has_features"}


def is_private(name):
    return name.startswith("_") and not (name.startswith("__") and name.endswith("__"))


def link(node, parent=None):
    """(re)build the `_parent` links below `node`"""
    if parent is not None:
        node._parent = parent
    for n in ast.walk(node):
        for c in ast.iter_child_nodes(n):
            c._parent = n
    return node


def _name(id_, ctx=None):
    return ast.Name(id=id_, ctx=ctx or ast.Load())


def _loc(new, old):
    for n in ast.walk(new):
        if not hasattr(n, "lineno") and isinstance(n, (ast.expr, ast.stmt)):
            n.lineno = getattr(old, "lineno", 0)
            n.col_offset = getattr(old, "col_offset", 0)
            n.end_lineno = getattr(old, "end_lineno", n.lineno)
            n.end_col_offset = getattr(old, "end_col_offset", n.col_offset)
    return new


def _store(e):
    e = sym.clone(e)
    for n in ast.walk(e):
        if isinstance(n, (ast.Name, ast.Tuple, ast.List, ast.Starred)) and hasattr(n, "ctx"):
            n.ctx = ast.Store()
    return e


def strip_doc(body):
    if body and isinstance(body[0], ast.Expr) and isinstance(body[0].value, ast.Constant) and isinstance(body[0].value.value, str):
        return body[1:]
    return body


# --------------------------------------------------------------------------------------------- small queries
def _walk_no_defs(nodes):
    """walk statements without entering nested function / class definitions and lambdas"""
    todo = list(nodes) if isinstance(nodes, list) else [nodes]
    first = {id(x) for x in todo}
    while todo:
        n = todo.pop()
        yield n
        if id(n) in first and isinstance(n, (ast.FunctionDef, ast.AsyncFunctionDef, ast.ClassDef, ast.Lambda)):
            continue
        for c in ast.iter_child_nodes(n):
            if isinstance(c, (ast.FunctionDef, ast.AsyncFunctionDef, ast.ClassDef, ast.Lambda)):
                continue
            todo.append(c)


def has_yield(fn):
    return any(isinstance(n, (ast.Yield, ast.YieldFrom)) for n in _walk_no_defs(list(fn.body)))


def _returns(body):
    return [n for n in _walk_no_defs(list(body)) if isinstance(n, ast.Return)]


def _bound_names(fn):
    """names (re)bound by the statements of fn (not entering nested defs; comprehension targets are scoped and ignored)"""
    out = set()
    for n in _walk_no_defs(list(fn.body)):
        if isinstance(n, (ast.ListComp, ast.SetComp, ast.DictComp, ast.GeneratorExp)):
            continue
        if isinstance(n, ast.Name) and isinstance(n.ctx, (ast.Store, ast.Del)):
            out.add(n.id)
        elif isinstance(n, ast.ExceptHandler) and n.name:
            out.add(n.name)
    for st in au.stmts(fn.body):
        if isinstance(st, (ast.FunctionDef, ast.AsyncFunctionDef, ast.ClassDef)):
            out.add(st.name)
    # comprehension targets: python scopes them, but after substitution they must not capture a caller expression
    for n in _walk_no_defs(list(fn.body)):
        if isinstance(n, ast.comprehension):
            out.update(au.assigned_names(n.target))
    return out


def _all_names(node):
    return {n.id for n in ast.walk(node) if isinstance(n, ast.Name)} | {a.arg for n in ast.walk(node) if isinstance(n, ast.arguments)
                                                                        for a in n.posonlyargs + n.args + n.kwonlyargs}


def _leaves(body):
    if not body:
        return False
    last = body[-1]
    if isinstance(last, (ast.Return, ast.Raise, ast.Continue, ast.Break)):
        return True
    if isinstance(last, ast.If) and last.orelse:
        return _leaves(last.body) and _leaves(last.orelse)
    return False


def _returns_always(body):
    if not body:
        return False
    last = body[-1]
    if isinstance(last, (ast.Return, ast.Raise)):
        return True
    if isinstance(last, ast.If) and last.orelse:
        return _returns_always(last.body) and _returns_always(last.orelse)
    return False


class _Rename(ast.NodeTransformer):
    def __init__(self, ren):
        self.ren = ren

    def visit_Name(self, n):
        if n.id in self.ren:
            n.id = self.ren[n.id]
        return n

    def visit_FunctionDef(self, n):
        if n.name in self.ren:
            n.name = self.ren[n.name]
        # parameters of a nested def shadow: do not rename inside if a parameter has that name
        shadow = {a.arg for a in n.args.posonlyargs + n.args.args + n.args.kwonlyargs}
        sub = _Rename({k: v for k, v in self.ren.items() if k not in shadow})
        n.body = [sub.visit(s) for s in n.body]
        return n

    def visit_Lambda(self, n):
        shadow = {a.arg for a in n.args.posonlyargs + n.args.args + n.args.kwonlyargs}
        sub = _Rename({k: v for k, v in self.ren.items() if k not in shadow})
        n.body = sub.visit(n.body)
        return n

    def visit_ExceptHandler(self, n):
        if n.name in self.ren:
            n.name = self.ren[n.name]
        self.generic_visit(n)
        return n


class _Subst(ast.NodeTransformer):
    """substitute loads of names by expressions (not under a lambda / nested def that rebinds the name)"""

    def __init__(self, mapping):
        self.mapping = mapping

    def visit_Name(self, n):
        if isinstance(n.ctx, ast.Load) and n.id in self.mapping:
            return _loc(sym.clone(self.mapping[n.id]), n)
        return n

    def _scoped(self, n, params):
        sub = _Subst({k: v for k, v in self.mapping.items() if k not in params})
        return sub

    def visit_Lambda(self, n):
        params = {a.arg for a in n.args.posonlyargs + n.args.args + n.args.kwonlyargs}
        n.body = self._scoped(n, params).visit(n.body)
        return n

    def visit_FunctionDef(self, n):
        params = {a.arg for a in n.args.posonlyargs + n.args.args + n.args.kwonlyargs}
        sub = self._scoped(n, params)
        n.body = [sub.visit(s) for s in n.body]
        return n


def _is_chain(e):
    """pure attribute chain rooted at a name: a, a.b, a.b.c"""
    while isinstance(e, ast.Attribute):
        e = e.value
    return isinstance(e, ast.Name)


def _is_simple_arg(e):
    """expression that may be substituted for a parameter at every use (no call: duplicating it does not change what the analysis sees)"""
    if isinstance(e, (ast.Constant, ast.Lambda)) or _is_chain(e):
        return True
    if isinstance(e, ast.UnaryOp) and isinstance(e.operand, ast.Constant):
        return True
    if isinstance(e, ast.Subscript):
        return _is_simple_arg(e.value) and _is_simple_arg(e.slice)
    if isinstance(e, (ast.Tuple, ast.List)):
        return all(_is_simple_arg(x) for x in e.elts)
    if isinstance(e, ast.Compare):
        return _is_simple_arg(e.left) and all(_is_simple_arg(c) for c in e.comparators)
    if isinstance(e, ast.BinOp):
        return _is_simple_arg(e.left) and _is_simple_arg(e.right)
    if isinstance(e, ast.Call) and isinstance(e.func, ast.Name) and e.func.id == "len" and len(e.args) == 1 and not e.keywords:
        return _is_simple_arg(e.args[0])
    return False


# --------------------------------------------------------------------------------------------- the flattener
class Scope:
    """where a function lives: module, class (or None), visible nested defs of the enclosing functions"""

    def __init__(self, repo, mod, cls=None, outer_defs=None, no_inline=()):
        self.repo, self.mod, self.cls = repo, mod, cls
        self.outer_defs = dict(outer_defs or {})
        self.no_inline = tuple(no_inline)


class Flattener:
    def __init__(self, repo):
        self.repo = repo
        self.counter = 0
        self.cache = {}
        self.stack = []
        self.notes = []          # why a call was not inlined (diagnostics)

    # ---------------------------------------------------------------- entry
    def flatten(self, fn, scope: Scope, depth=MAX_DEPTH):
        key = (id(fn), depth, scope.no_inline)
        if key in self.cache:
            return self.cache[key]
        new = sym.clone(fn)
        new.decorator_list = []
        if id(fn) in self.stack or depth <= 0:
            link(new)
            return new
        self.stack.append(id(fn))
        try:
            self._property_fields(new, scope)
            self._spelling(new)
            new.body = self._desugar_block(new.body) or [ast.Pass()]
            new.body = self._inline_block(new.body, new, scope, depth)
            self._spelling(new)
            new.body = self._desugar_block(new.body) or [ast.Pass()]
            new.body = self._fold_block(new.body) or [ast.Pass()]
            self._getitem_calls(new)
            self._alias_propagation(new)
            self._test_locals(new)
            self._index_loops(new)
            self._alias_propagation(new)
            self._field_reads(new)
        finally:
            self.stack.pop()
        ast.fix_missing_locations(new)
        link(new)
        new._qualname = getattr(fn, "_qualname", fn.name)
        new._flat_of = fn
        self.cache[key] = new
        return new

    def fresh(self, base):
        self.counter += 1
        return f"{base}__{self.counter}"

    # ---------------------------------------------------------------- F1 desugaring
    def _desugar_block(self, body):
        out = []
        for st in body:
            out.extend(self._desugar_stmt(st))
        return out

    def _comp_to_loops(self, comp, leaf_stmts):
        """statements equivalent to `for .. in ..: if ..: <leaf>` for the generators of a comprehension"""
        body = leaf_stmts
        for g in reversed(comp.generators):
            if g.is_async:
                return None
            for t in reversed(g.ifs):
                body = [_loc(ast.If(test=sym.clone(t), body=body, orelse=[]), t)]
            body = [_loc(ast.For(target=_store(g.target), iter=sym.clone(g.iter), body=body, orelse=[], type_comment=None), comp)]
        return body

    def _desugar_stmt(self, st):
        # recurse first
        for fld in ("body", "orelse", "finalbody"):
            sub = getattr(st, fld, None)
            if isinstance(sub, list) and sub and isinstance(sub[0], ast.stmt) and not isinstance(st, (ast.ClassDef,)):
                setattr(st, fld, self._desugar_block(sub))
        for h in getattr(st, "handlers", []) or []:
            h.body = self._desugar_block(h.body)
        for fld in ("body",):
            if isinstance(getattr(st, fld, None), list) and not getattr(st, fld) and isinstance(st, (ast.If, ast.For, ast.While, ast.With, ast.Try)):
                setattr(st, fld, [ast.copy_location(ast.Pass(), st)])
        if isinstance(st, (ast.FunctionDef, ast.AsyncFunctionDef, ast.ClassDef)):
            return [st]
        # assert c : no effect on a run that does not fail
        if isinstance(st, ast.Assert):
            return []
        # if c: raise ..   (argument validation: no effect on a run that does not fail)
        if isinstance(st, ast.If) and not st.orelse and len(st.body) == 1 and isinstance(st.body[0], ast.Raise) and "_computed" not in au.src(st.test) \
                and "computed" not in au.src(st.test):
            return []
        # `a or f(x)` / `a and f(x)` as a statement  ->  if not a: f(x)  /  if a: f(x)
        if isinstance(st, ast.Expr) and isinstance(st.value, ast.BoolOp) and len(st.value.values) >= 2:
            bo = st.value
            head = bo.values[0] if len(bo.values) == 2 else ast.copy_location(ast.BoolOp(op=bo.op, values=bo.values[:-1]), bo)
            test = head if isinstance(bo.op, ast.And) else ast.copy_location(ast.UnaryOp(op=ast.Not(), operand=head), bo)
            inner = _loc(ast.Expr(value=bo.values[-1]), st)
            return self._desugar_stmt(_loc(ast.If(test=test, body=[inner], orelse=[]), st))
        # f(x) if c else None   as a statement
        if isinstance(st, ast.Expr) and isinstance(st.value, ast.IfExp):
            ie = st.value
            body = [] if isinstance(ie.body, ast.Constant) else [_loc(ast.Expr(value=ie.body), st)]
            orelse = [] if isinstance(ie.orelse, ast.Constant) else [_loc(ast.Expr(value=ie.orelse), st)]
            if body or orelse:
                if not body:
                    return self._desugar_stmt(_loc(ast.If(test=ast.copy_location(ast.UnaryOp(op=ast.Not(), operand=ie.test), ie), body=orelse, orelse=[]), st))
                return self._desugar_stmt(_loc(ast.If(test=ie.test, body=body, orelse=orelse), st))
        # while c: BODY else: E  /  for ..: BODY else: E   without a `break` in BODY   ->   the loop, then E
        if isinstance(st, (ast.While, ast.For)) and st.orelse:
            def own_break(body):
                for x in body:
                    if isinstance(x, ast.Break):
                        return True
                    if isinstance(x, (ast.For, ast.While, ast.FunctionDef, ast.AsyncFunctionDef, ast.ClassDef)):
                        if any(own_break(getattr(x, "orelse", []) or []) for _ in [0]):
                            return True
                        continue
                    for fld in ("body", "orelse", "finalbody"):
                        sub = getattr(x, fld, None)
                        if isinstance(sub, list) and sub and isinstance(sub[0], ast.stmt) and own_break(sub):
                            return True
                    for h in getattr(x, "handlers", []) or []:
                        if own_break(h.body):
                            return True
                return False
            if not own_break(st.body):
                tail = st.orelse
                st.orelse = []
                return self._desugar_stmt(st) + tail
        # x.__setitem__(k, v) -> x[k] = v ; x.__delitem__(k) -> del x[k]
        if isinstance(st, ast.Expr) and isinstance(st.value, ast.Call) and isinstance(st.value.func, ast.Attribute) and not st.value.keywords:
            c_ = st.value
            if c_.func.attr == "__setitem__" and len(c_.args) == 2:
                return self._desugar_stmt(_loc(ast.Assign(targets=[ast.Subscript(value=c_.func.value, slice=c_.args[0], ctx=ast.Store())], value=c_.args[1],
                                                          type_comment=None), st))
            if c_.func.attr == "__delitem__" and len(c_.args) == 1:
                return [_loc(ast.Delete(targets=[ast.Subscript(value=c_.func.value, slice=c_.args[0], ctx=ast.Del())]), st)]
            # d.update([(k, v), ..]) / d.update(((k, v),)) : item stores
            if c_.func.attr == "update" and len(c_.args) == 1 and isinstance(c_.args[0], (ast.List, ast.Tuple)) and c_.args[0].elts \
                    and all(isinstance(e_, (ast.Tuple, ast.List)) and len(e_.elts) == 2 for e_ in c_.args[0].elts) \
                    and (_is_chain(c_.func.value) or isinstance(c_.func.value, ast.Subscript)):
                return [_loc(ast.Assign(targets=[ast.Subscript(value=sym.clone(c_.func.value), slice=e_.elts[0], ctx=ast.Store())], value=e_.elts[1], type_comment=None), st)
                        for e_ in c_.args[0].elts]
            # s.update((a,)) / s.update([a, b]) with elements that are not pairs: a set gains the elements
            if c_.func.attr == "update" and len(c_.args) == 1 and isinstance(c_.args[0], (ast.List, ast.Tuple, ast.Set)) and c_.args[0].elts \
                    and not any(isinstance(e_, (ast.Tuple, ast.List, ast.Starred)) for e_ in c_.args[0].elts) \
                    and (_is_chain(c_.func.value) or isinstance(c_.func.value, ast.Subscript)):
                return [_loc(ast.Expr(value=ast.Call(func=ast.Attribute(value=sym.clone(c_.func.value), attr="add", ctx=ast.Load()), args=[e_], keywords=[])), st)
                        for e_ in c_.args[0].elts]
            # table[k].update({a: b})  (receiver not a plain name)
            if c_.func.attr == "update" and len(c_.args) == 1 and isinstance(c_.args[0], ast.Dict) and c_.args[0].keys and all(k_ is not None for k_ in c_.args[0].keys) \
                    and isinstance(c_.func.value, ast.Subscript):
                return [_loc(ast.Assign(targets=[ast.Subscript(value=sym.clone(c_.func.value), slice=k_, ctx=ast.Store())], value=v_, type_comment=None), st)
                        for k_, v_ in zip(c_.args[0].keys, c_.args[0].values)]
        # flag |= True -> flag = True ; s |= {a, b} -> s.add(a); s.add(b) ; s -= {a} -> s.discard(a)
        if isinstance(st, ast.AugAssign) and isinstance(st.op, ast.BitOr) and isinstance(st.value, ast.Constant) and st.value.value is True:
            return [_loc(ast.Assign(targets=[st.target], value=st.value, type_comment=None), st)]
        if isinstance(st, ast.AugAssign) and isinstance(st.op, (ast.BitOr, ast.Sub)) and isinstance(st.value, ast.Set) and st.value.elts \
                and not any(isinstance(e_, ast.Starred) for e_ in st.value.elts) and (_is_chain(st.target) or isinstance(st.target, ast.Subscript)):
            def load(t_):
                r_ = sym.clone(t_)
                for n_ in ast.walk(r_):
                    if hasattr(n_, "ctx"):
                        n_.ctx = ast.Load()
                return r_
            meth = "add" if isinstance(st.op, ast.BitOr) else "discard"
            return [_loc(ast.Expr(value=ast.Call(func=ast.Attribute(value=load(st.target), attr=meth, ctx=ast.Load()), args=[e_], keywords=[])), st)
                    for e_ in st.value.elts]
        # while True: if c: break ; REST   ->   while not c: REST      (a `continue` in REST re-evaluates c in both spellings)
        if isinstance(st, ast.While) and isinstance(st.test, ast.Constant) and st.test.value in (True, 1) and not st.orelse and st.body \
                and isinstance(st.body[0], ast.If) and not st.body[0].orelse and len(st.body[0].body) == 1 and isinstance(st.body[0].body[0], ast.Break):
            c = st.body[0].test
            if isinstance(c, ast.UnaryOp) and isinstance(c.op, ast.Not):
                st.test = c.operand
            else:
                st.test = ast.copy_location(ast.UnaryOp(op=ast.Not(), operand=c), c)
            st.body = st.body[1:] or [ast.copy_location(ast.Pass(), st)]
            return [st]
        # a, b = x, y   ->   a = x ; b = y       when no target is read by a value (a swap stays a tuple assignment)
        if isinstance(st, ast.Assign) and len(st.targets) == 1 and isinstance(st.targets[0], (ast.Tuple, ast.List)) and isinstance(st.value, (ast.Tuple, ast.List)) \
                and len(st.targets[0].elts) == len(st.value.elts) and len(st.value.elts) >= 2 \
                and not any(isinstance(x, ast.Starred) for x in list(st.targets[0].elts) + list(st.value.elts)):
            tnames = set()
            for t in st.targets[0].elts:
                tnames |= {x.id for x in ast.walk(t) if isinstance(x, ast.Name)}
            vnames = set()
            for v in st.value.elts:
                vnames |= {x.id for x in ast.walk(v) if isinstance(x, ast.Name)}
            pure_vals = all(not any(isinstance(x, (ast.Call, ast.Await, ast.Yield, ast.YieldFrom, ast.NamedExpr)) for x in ast.walk(v)) for v in st.value.elts)
            if not (tnames - {"self"}) & vnames and (pure_vals or all(isinstance(t, ast.Name) for t in st.targets[0].elts)):
                out = []
                for t, v in zip(st.targets[0].elts, st.value.elts):
                    out.extend(self._desugar_stmt(_loc(ast.Assign(targets=[t], value=v, type_comment=None), st)))
                return out
        # a = b = e   ->   a = e ; b = a      (a an attribute / name, evaluated once)
        if isinstance(st, ast.Assign) and len(st.targets) > 1 and all(isinstance(t, (ast.Name, ast.Attribute)) and _is_chain(t) for t in st.targets):
            ts = sorted(st.targets, key=lambda t: 0 if isinstance(t, ast.Attribute) else 1)
            first = _loc(ast.Assign(targets=[ts[0]], value=st.value, type_comment=None), st)
            out = [first]
            for t in ts[1:]:
                src_ = sym.clone(ts[0])
                for n in ast.walk(src_):
                    if hasattr(n, "ctx"):
                        n.ctx = ast.Load()
                out.append(_loc(ast.Assign(targets=[t], value=src_, type_comment=None), st))
            return out
        # x[k] = n = e  (a subscript among the targets)  ->  n = e ; x[k] = n
        if isinstance(st, ast.Assign) and len(st.targets) > 1 and any(isinstance(t, ast.Name) for t in st.targets) \
                and all(isinstance(t, (ast.Name, ast.Subscript, ast.Attribute)) for t in st.targets):
            n0 = [t for t in st.targets if isinstance(t, ast.Name)][0]
            others = [t for t in st.targets if t is not n0]
            if not any(n0.id in {x.id for x in ast.walk(t) if isinstance(x, ast.Name)} for t in others):
                out = [_loc(ast.Assign(targets=[n0], value=st.value, type_comment=None), st)]
                for t in others:
                    out.append(_loc(ast.Assign(targets=[t], value=_name(n0.id), type_comment=None), st))
                return out
        # x.extend(<comprehension>) / x.extend([a, b])
        if isinstance(st, ast.Expr) and isinstance(st.value, ast.Call) and isinstance(st.value.func, ast.Attribute) \
                and st.value.func.attr == "extend" and len(st.value.args) == 1 and not st.value.keywords:
            recv, arg = st.value.func.value, st.value.args[0]
            if _is_chain(recv) or isinstance(recv, ast.Subscript):
                def app(e):
                    return _loc(ast.Expr(value=ast.Call(func=ast.Attribute(value=sym.clone(recv), attr="append", ctx=ast.Load()),
                                                        args=[sym.clone(e)], keywords=[])), st)
                if isinstance(arg, (ast.GeneratorExp, ast.ListComp)):
                    loops = self._comp_to_loops(arg, [app(arg.elt)])
                    if loops is not None:
                        return loops
                elif isinstance(arg, (ast.List, ast.Tuple)) and not any(isinstance(e, ast.Starred) for e in arg.elts):
                    return [app(e) for e in arg.elts] or [st]
                elif isinstance(arg, ast.Call) and au.src(recv) not in _all_names(arg):
                    # x.extend(helper(..)) : append every element the call yields
                    y = self.fresh("_e")
                    return [_loc(ast.For(target=_name(y, ast.Store()), iter=sym.clone(arg), body=[app(_name(y))], orelse=[], type_comment=None), st)]
        # d.update({k: v for ..}) / d.update({k1: v1, ..})  ->  item stores
        if isinstance(st, ast.Expr) and isinstance(st.value, ast.Call) and isinstance(st.value.func, ast.Attribute) \
                and st.value.func.attr == "update" and len(st.value.args) == 1 and not st.value.keywords and isinstance(st.value.func.value, ast.Name):
            recv, arg = st.value.func.value, st.value.args[0]

            def store(k, v):
                return _loc(ast.Assign(targets=[ast.Subscript(value=_name(recv.id), slice=sym.clone(k), ctx=ast.Store())], value=sym.clone(v), type_comment=None), st)
            if isinstance(arg, ast.DictComp) and recv.id not in _all_names(arg):
                loops = self._comp_to_loops(arg, [store(arg.key, arg.value)])
                if loops is not None:
                    return loops
            elif isinstance(arg, ast.Dict) and arg.keys and all(k is not None for k in arg.keys) and recv.id not in _all_names(arg):
                return [store(k, v) for k, v in zip(arg.keys, arg.values)]
        # x += [..] / x += [.. for ..]   (list.__iadd__ is extend)
        if isinstance(st, ast.AugAssign) and isinstance(st.op, ast.Add) and isinstance(st.value, (ast.ListComp, ast.List)) \
                and (_is_chain(st.target) or isinstance(st.target, ast.Subscript)):
            recv, arg = st.target, st.value

            def app2(e):
                r = sym.clone(recv)
                for n in ast.walk(r):
                    if hasattr(n, "ctx"):
                        n.ctx = ast.Load()
                return _loc(ast.Expr(value=ast.Call(func=ast.Attribute(value=r, attr="append", ctx=ast.Load()), args=[sym.clone(e)], keywords=[])), st)
            if isinstance(arg, ast.ListComp):
                loops = self._comp_to_loops(arg, [app2(arg.elt)])
                if loops is not None:
                    return loops
            elif arg.elts and not any(isinstance(e, ast.Starred) for e in arg.elts):
                return [app2(e) for e in arg.elts]
        # q = deque(<comprehension / literal>)   (same for list(..) of a generator: left alone)
        if isinstance(st, (ast.Assign, ast.AnnAssign)) and isinstance(st.value, ast.Call) and au.call_tail(st.value) == "deque" \
                and len(st.value.args) == 1 and not st.value.keywords:
            tg = st.targets if isinstance(st, ast.Assign) else [st.target]
            arg = st.value.args[0]
            if len(tg) == 1 and isinstance(tg[0], ast.Name):
                q = tg[0].id

                def app(e):
                    return _loc(ast.Expr(value=ast.Call(func=ast.Attribute(value=_name(q), attr="append", ctx=ast.Load()),
                                                        args=[sym.clone(e)], keywords=[])), st)
                empty = _loc(ast.Assign(targets=[_name(q, ast.Store())], value=ast.Call(func=sym.clone(st.value.func), args=[], keywords=[]),
                                        type_comment=None), st)
                if isinstance(arg, (ast.GeneratorExp, ast.ListComp)) and q not in _all_names(arg):
                    loops = self._comp_to_loops(arg, [app(arg.elt)])
                    if loops is not None:
                        return [empty] + loops
                elif isinstance(arg, (ast.List, ast.Tuple)) and not any(isinstance(e, ast.Starred) for e in arg.elts) and q not in _all_names(arg):
                    return [empty] + [app(e) for e in arg.elts]
                elif isinstance(arg, ast.Call) and q not in _all_names(arg):
                    y = self.fresh("_e")
                    return [empty, _loc(ast.For(target=_name(y, ast.Store()), iter=sym.clone(arg), body=[app(_name(y))], orelse=[], type_comment=None), st)]
        # `if f(v := e): ..`, `x = g(v := e)` : the named expression is evaluated first, unconditionally -> `v = e` before the statement
        if isinstance(st, (ast.If, ast.Assign, ast.Expr, ast.Return, ast.AugAssign, ast.AnnAssign)):
            root = st.test if isinstance(st, ast.If) else st.value
            if root is not None:
                hoisted = self._hoist_walrus(root)
                if hoisted:
                    pre = []
                    for ne in hoisted:
                        pre.append(_loc(ast.Assign(targets=[_name(ne.target.id, ast.Store())], value=ne.value, type_comment=None), st))
                    new_root = self._replace_walrus(root, hoisted)
                    if isinstance(st, ast.If):
                        st.test = new_root
                    else:
                        st.value = new_root
                    return pre + self._desugar_stmt(st)
        # for x in (e for y in it if c): BODY   ->   for y in it: if c: x = e ; BODY       (single generator: break / continue keep their meaning)
        if isinstance(st, ast.For) and not st.orelse and isinstance(st.iter, (ast.GeneratorExp, ast.ListComp)) and len(st.iter.generators) == 1 \
                and not st.iter.generators[0].is_async:
            g = st.iter.generators[0]
            tnames = set(au.assigned_names(st.target))
            gnames = set(au.assigned_names(g.target))
            body_names = {n.id for b_ in st.body for n in ast.walk(b_) if isinstance(n, ast.Name)}
            if not (gnames & body_names - tnames) or gnames <= tnames:
                bind = _loc(ast.Assign(targets=[_store(st.target)], value=sym.clone(st.iter.elt), type_comment=None), st)
                same = isinstance(st.target, ast.Name) and isinstance(st.iter.elt, ast.Name) and isinstance(g.target, ast.Name) \
                    and st.iter.elt.id == g.target.id == st.target.id
                inner = ([] if same else [bind]) + st.body
                for t in reversed(g.ifs):
                    inner = [_loc(ast.If(test=sym.clone(t), body=inner, orelse=[]), t)]
                return [_loc(ast.For(target=_store(g.target), iter=sym.clone(g.iter), body=inner, orelse=[], type_comment=None), st)]
        # for x in (e,): BODY  ->  x = e ; BODY      (no break / continue at the level of this loop)
        if isinstance(st, ast.For) and not st.orelse and isinstance(st.iter, (ast.Tuple, ast.List)) and len(st.iter.elts) == 1 \
                and not isinstance(st.iter.elts[0], ast.Starred) and isinstance(st.target, ast.Name):
            def own_jump(body):
                for x in body:
                    if isinstance(x, (ast.Break, ast.Continue)):
                        return True
                    if isinstance(x, (ast.For, ast.While, ast.FunctionDef, ast.AsyncFunctionDef, ast.ClassDef)):
                        continue
                    for fld in ("body", "orelse", "finalbody"):
                        sub = getattr(x, fld, None)
                        if isinstance(sub, list) and sub and isinstance(sub[0], ast.stmt) and own_jump(sub):
                            return True
                return False
            if not own_jump(st.body):
                return self._desugar_block([_loc(ast.Assign(targets=[_store(st.target)], value=st.iter.elts[0], type_comment=None), st)] + st.body)
        # for x in filter(lambda a: C, S): BODY  ->  for x in S: if C[x/a]: BODY     (filter(None, S): if x)
        if isinstance(st, ast.For) and not st.orelse and isinstance(st.iter, ast.Call) and isinstance(st.iter.func, ast.Name) and st.iter.func.id == "filter" \
                and len(st.iter.args) == 2 and not st.iter.keywords and isinstance(st.target, ast.Name):
            pred, src_ = st.iter.args
            test = None
            if isinstance(pred, ast.Lambda) and len(pred.args.args) == 1 and not pred.args.vararg and not pred.args.kwarg and not pred.args.defaults:
                test = _Subst({pred.args.args[0].arg: _name(st.target.id)}).visit(sym.clone(pred.body))
            elif isinstance(pred, ast.Constant) and pred.value is None:
                test = _name(st.target.id)
            if test is not None:
                st.iter = src_
                st.body = [_loc(ast.If(test=test, body=st.body, orelse=[]), st)]
                return self._desugar_stmt(st)
        # yield from e  ->  for y in e: yield y
        if isinstance(st, ast.Expr) and isinstance(st.value, ast.YieldFrom):
            y = self.fresh("_y")
            return [_loc(ast.For(target=_name(y, ast.Store()), iter=st.value.value,
                                 body=[ast.Expr(value=ast.Yield(value=_name(y)))], orelse=[], type_comment=None), st)]
        return [st]

    def _hoist_walrus(self, root):
        """named expressions of `root` that are evaluated whenever root is (not under a short-circuited operand, a conditional expression,
        a lambda or a comprehension), in source order"""
        out = []

        def rec(e, always):
            if isinstance(e, ast.NamedExpr):
                rec(e.value, always)
                if always:
                    out.append(e)
                return
            if isinstance(e, (ast.Lambda, ast.ListComp, ast.SetComp, ast.DictComp, ast.GeneratorExp)):
                return
            if isinstance(e, ast.BoolOp):
                for i, v in enumerate(e.values):
                    rec(v, always and i == 0)
                return
            if isinstance(e, ast.IfExp):
                rec(e.test, always)
                rec(e.body, False)
                rec(e.orelse, False)
                return
            if isinstance(e, ast.Compare):
                rec(e.left, always)
                for i, c in enumerate(e.comparators):
                    rec(c, always and i == 0)
                return
            for c in ast.iter_child_nodes(e):
                if isinstance(c, ast.expr):
                    rec(c, always)
        rec(root, True)
        # a name bound twice by walrus in one expression, or read before its binding, is left alone
        names = [n.target.id for n in out]
        if len(set(names)) != len(names):
            return []
        return out

    def _replace_walrus(self, root, hoisted):
        ids = {id(n) for n in hoisted}

        class T(ast.NodeTransformer):
            def visit_NamedExpr(self, n):
                if id(n) in ids:
                    return ast.copy_location(ast.Name(id=n.target.id, ctx=ast.Load()), n)
                self.generic_visit(n)
                return n
        return T().visit(root)

    # ---------------------------------------------------------------- F5 boolean constants left by substituted flags
    def _fold_test(self, e):
        if isinstance(e, ast.Call) and isinstance(e.func, ast.Name) and e.func.id == "bool" and len(e.args) == 1 and not e.keywords:
            return self._fold_test(e.args[0])           # bool(x) as a test is x
        if isinstance(e, ast.Compare) and len(e.ops) == 1 and isinstance(e.ops[0], (ast.Eq, ast.Is, ast.LtE, ast.GtE)) and _is_simple_arg(e.left) \
                and not isinstance(e.left, ast.Constant) and au.src(e.left) == au.src(e.comparators[0]):
            return ast.copy_location(ast.Constant(value=True), e)      # x == x for a side-effect free x
        if isinstance(e, ast.UnaryOp) and isinstance(e.op, ast.Not):
            v = self._fold_test(e.operand)
            if isinstance(v, ast.Constant) and isinstance(v.value, bool):
                return ast.copy_location(ast.Constant(value=not v.value), e)
            e.operand = v
            return e
        if isinstance(e, ast.Compare) and len(e.ops) == 1 and isinstance(e.ops[0], (ast.Is, ast.IsNot)) and isinstance(e.left, ast.Constant) \
                and isinstance(e.comparators[0], ast.Constant) and (e.left.value is None or e.comparators[0].value is None):
            same = e.left.value is e.comparators[0].value
            return ast.copy_location(ast.Constant(value=same if isinstance(e.ops[0], ast.Is) else not same), e)
        if isinstance(e, ast.BoolOp):
            vals = [self._fold_test(v) for v in e.values]
            is_and = isinstance(e.op, ast.And)
            keep = []
            for v in vals:
                if isinstance(v, ast.Constant) and isinstance(v.value, bool):
                    if v.value == is_and:
                        continue                      # neutral element
                    # absorbing element: everything after it is not evaluated; what precedes has no effect on the truth value
                    if all(_is_simple_arg(k) for k in keep):
                        return ast.copy_location(ast.Constant(value=v.value), e)
                keep.append(v)
            if not keep:
                return ast.copy_location(ast.Constant(value=is_and), e)
            if len(keep) == 1:
                return keep[0]
            e.values = keep
            return e
        return e

    def _fold_block(self, body):
        out = []
        for st in body:
            if isinstance(st, (ast.FunctionDef, ast.AsyncFunctionDef, ast.ClassDef)):
                out.append(st)
                continue
            for fld in ("body", "orelse", "finalbody"):
                sub = getattr(st, fld, None)
                if isinstance(sub, list) and sub and isinstance(sub[0], ast.stmt):
                    setattr(st, fld, self._fold_block(sub))
            for h in getattr(st, "handlers", []) or []:
                h.body = self._fold_block(h.body)
            if isinstance(st, (ast.If, ast.While)):
                st.test = self._fold_test(st.test)
            if isinstance(st, ast.If) and isinstance(st.test, ast.Constant) and isinstance(st.test.value, bool):
                out.extend(st.body if st.test.value else st.orelse)
                continue
            if isinstance(st, (ast.If, ast.For, ast.While)) and not st.body:
                st.body = [ast.copy_location(ast.Pass(), st)]
            out.append(st)
        return out

    def _property_fields(self, fn, scope):
        """a private attribute that the class exposes through a plain property (`@property def x(self): return self._x`, possibly with a plain
        setter) is written with the public name: self._x -> self.x"""
        if scope.cls is None:
            return
        cmod, ccls = scope.cls
        try:
            ms = scope.repo.methods(cmod, ccls)
        except Exception:
            return
        alias = {}
        for name, (m, f, owner) in ms.items():
            decos = {au.src(d) for d in f.decorator_list}
            body = strip_doc(f.body)
            if "property" in decos and len(body) == 1 and isinstance(body[0], ast.Return) and isinstance(body[0].value, ast.Attribute) \
                    and isinstance(body[0].value.value, ast.Name) and body[0].value.value.id == "self" and body[0].value.attr != name \
                    and body[0].value.attr not in KEEP_PRIVATE and body[0].value.attr.startswith("_") and not name.startswith("_"):
                alias[body[0].value.attr] = name
        if not alias or fn.name in alias.values():
            return

        class T(ast.NodeTransformer):
            def visit_Attribute(self, n):
                self.generic_visit(n)
                if isinstance(n.value, ast.Name) and n.value.id == "self" and n.attr in alias:
                    n.attr = alias[n.attr]
                return n
        for i, st in enumerate(fn.body):
            fn.body[i] = T().visit(st)

    # ---------------------------------------------------------------- F0 spelling of expressions
    MIRROR = {ast.Lt: ast.Gt, ast.Gt: ast.Lt, ast.LtE: ast.GtE, ast.GtE: ast.LtE, ast.Eq: ast.Eq, ast.NotEq: ast.NotEq, ast.Is: ast.Is, ast.IsNot: ast.IsNot}

    def _signature_of(self, call):
        """positional parameter names of the function a call denotes, when every candidate definition in the repository agrees (None otherwise)"""
        f = call.func
        cands = []
        if isinstance(f, ast.Name):
            for m in self.repo.modules.values():
                if f.id in m.funcs:
                    cands.append((m.funcs[f.id], False))
                if f.id in m.classes:
                    init = m.funcs.get(f.id + ".__init__")
                    if init is not None:
                        cands.append((init, True))
        elif isinstance(f, ast.Attribute):
            for m in self.repo.modules.values():
                for q, fn in m.funcs.items():
                    if "." in q and q.rsplit(".", 1)[1] == f.attr and ".<locals>." not in q:
                        decos = {au.src(d) for d in fn.decorator_list}
                        cands.append((fn, "staticmethod" not in decos))
        sigs = set()
        for fn, skip in cands:
            a = fn.args
            if a.vararg or a.kwarg:
                return None
            pos = [x.arg for x in a.posonlyargs + a.args]
            sigs.add(tuple(pos[1:] if skip else pos))
        return list(next(iter(sigs))) if len(sigs) == 1 else None

    def _spelling(self, fn):
        """constants on the right of a comparison (`None is not x` -> `x is not None`, `0 < n` -> `n > 0`); keyword arguments that name the
        next positional parameters of the callee written positionally (`push(s, w=0.)` -> `push(s, 0.)`)"""
        me = self

        class T(ast.NodeTransformer):
            def visit_Compare(self, n):
                self.generic_visit(n)
                # x != None -> x is not None ; x == None -> x is None ; k in d.keys() -> k in d
                if len(n.ops) == 1 and isinstance(n.ops[0], (ast.Eq, ast.NotEq)) and isinstance(n.comparators[0], ast.Constant) and n.comparators[0].value is None:
                    n.ops = [ast.Is() if isinstance(n.ops[0], ast.Eq) else ast.IsNot()]
                if len(n.ops) == 1 and isinstance(n.ops[0], (ast.In, ast.NotIn)) and isinstance(n.comparators[0], ast.Call) \
                        and isinstance(n.comparators[0].func, ast.Attribute) and n.comparators[0].func.attr == "keys" and not n.comparators[0].args:
                    n.comparators[0] = n.comparators[0].func.value
                if len(n.ops) == 1 and type(n.ops[0]) in me.MIRROR and isinstance(n.left, ast.Constant) and not isinstance(n.comparators[0], ast.Constant):
                    n.left, n.comparators[0] = n.comparators[0], n.left
                    n.ops = [me.MIRROR[type(n.ops[0])]()]
                return n

            def visit_UnaryOp(self, n):
                self.generic_visit(n)
                if isinstance(n.op, ast.Not) and isinstance(n.operand, ast.Constant) and isinstance(n.operand.value, bool):
                    return ast.copy_location(ast.Constant(value=not n.operand.value), n)       # not False -> True
                return n

            def visit_Subscript(self, n):
                self.generic_visit(n)
                # obj.__dict__['name'] -> obj.name
                if isinstance(n.value, ast.Attribute) and n.value.attr == "__dict__" and isinstance(n.slice, ast.Constant) and isinstance(n.slice.value, str) \
                        and n.slice.value.isidentifier():
                    return ast.copy_location(ast.Attribute(value=n.value.value, attr=n.slice.value, ctx=n.ctx), n)
                return n

            def visit_Call(self, n):
                self.generic_visit(n)
                f = n.func
                # getattr(obj, 'name') -> obj.name
                if isinstance(f, ast.Name) and f.id == "getattr" and len(n.args) == 2 and not n.keywords and isinstance(n.args[1], ast.Constant) \
                        and isinstance(n.args[1].value, str) and n.args[1].value.isidentifier():
                    return ast.copy_location(ast.Attribute(value=n.args[0], attr=n.args[1].value, ctx=ast.Load()), n)
                # Class.method(obj, ..) -> obj.method(..)   for a class of the repository that defines the method (not a static / class method)
                if isinstance(f, ast.Attribute) and isinstance(f.value, ast.Name) and f.value.id[:1].isupper() and n.args \
                        and not isinstance(n.args[0], ast.Starred) and f.value.id not in ("self", "cls"):
                    for m in me.repo.modules.values():
                        fn_ = m.funcs.get(f.value.id + "." + f.attr)
                        if fn_ is not None and f.value.id in m.classes:
                            decos = {au.src(d) for d in fn_.decorator_list}
                            if not ({"staticmethod", "classmethod"} & decos) and isinstance(n.args[0], (ast.Name, ast.Attribute)) \
                                    and not (isinstance(n.args[0], ast.Name) and n.args[0].id == "self"):
                                n.func = ast.copy_location(ast.Attribute(value=n.args[0], attr=f.attr, ctx=ast.Load()), f)
                                n.args = n.args[1:]
                                f = n.func
                            break
                # x.__contains__(k) -> k in x ; x.__call__(..) -> x(..) ; x.__len__() -> len(x)
                if isinstance(f, ast.Attribute) and f.attr == "__contains__" and len(n.args) == 1 and not n.keywords:
                    return ast.copy_location(ast.Compare(left=n.args[0], ops=[ast.In()], comparators=[f.value]), n)
                if isinstance(f, ast.Attribute) and f.attr == "__call__":
                    n.func = f.value
                    return n
                if isinstance(f, ast.Attribute) and f.attr == "__len__" and not n.args and not n.keywords:
                    return ast.copy_location(ast.Call(func=ast.Name(id="len", ctx=ast.Load()), args=[f.value], keywords=[]), n)
                if n.keywords and all(k.arg is not None for k in n.keywords) and not any(isinstance(a, ast.Starred) for a in n.args):
                    pos = me._signature_of(n)
                    if pos is not None:
                        kw = {k.arg: k for k in n.keywords}
                        i = len(n.args)
                        while i < len(pos) and pos[i] in kw:
                            k = kw.pop(pos[i])
                            n.args.append(k.value)
                            n.keywords = [x for x in n.keywords if x is not k]
                            i += 1
                return n
        for i, st in enumerate(fn.body):
            fn.body[i] = T().visit(st)

    # ---------------------------------------------------------------- F6 tests held in a local, index loops
    def _test_locals(self, fn):
        """`flag = <test>` ... `if flag:` : a local bound once and used only as (part of) the test of if / while statements is replaced by the
        test, when nothing between the binding and the use can change what the test reads"""
        link(fn)
        counts = {}
        for n in ast.walk(fn):
            if isinstance(n, ast.Name) and isinstance(n.ctx, (ast.Store, ast.Del)):
                counts[n.id] = counts.get(n.id, 0) + 1
            elif isinstance(n, ast.arg):
                counts[n.arg] = counts.get(n.arg, 0) + 1
        order = {}
        for i, n in enumerate(ast.walk(fn)):
            pass
        # program order by (lineno, col) is not reliable after inlining: number the statements by a pre-order walk
        seq = {}

        def number(body):
            for st in body:
                seq[id(st)] = len(seq)
                for fld in ("body", "orelse", "finalbody"):
                    sub = getattr(st, fld, None)
                    if isinstance(sub, list) and sub and isinstance(sub[0], ast.stmt) and not isinstance(st, (ast.FunctionDef, ast.ClassDef)):
                        number(sub)
                for h in getattr(st, "handlers", []) or []:
                    number(h.body)
        number(fn.body)
        stmts = [st for st in au.stmts(fn.body)]
        changed = False
        for st in list(stmts):
            if not (isinstance(st, ast.Assign) and len(st.targets) == 1 and isinstance(st.targets[0], ast.Name)):
                continue
            nm, v = st.targets[0].id, st.value
            if counts.get(nm, 0) != 1:
                continue
            is_test = isinstance(v, (ast.Compare, ast.BoolOp)) or (isinstance(v, ast.UnaryOp) and isinstance(v.op, ast.Not)) or \
                (isinstance(v, ast.Subscript) and not isinstance(v.slice, ast.Slice) and isinstance(v.value, ast.Name))
            if not is_test or any(isinstance(x, (ast.Call, ast.NamedExpr, ast.Await, ast.Yield, ast.Lambda)) for x in ast.walk(v)
                                  if not (isinstance(x, ast.Call) and au.call_tail(x) in ("len", "isinstance", "isinf", "isnan"))):
                continue
            uses = [n for n in ast.walk(fn) if isinstance(n, ast.Name) and n.id == nm and isinstance(n.ctx, ast.Load)]
            if not uses:
                continue

            def in_test(u):
                x = u
                while True:
                    par = getattr(x, "_parent", None)
                    if isinstance(par, (ast.If, ast.While)) and par.test is x:
                        return par
                    if isinstance(par, ast.BoolOp) or (isinstance(par, ast.UnaryOp) and isinstance(par.op, ast.Not)):
                        x = par
                        continue
                    return None
            owners = [in_test(u) for u in uses]
            if any(o is None for o in owners):
                continue
            # a plain flag read `t[k]` is only inlined for a single use (it is then the flag test itself)
            if isinstance(v, ast.Subscript) and len(uses) != 1:
                continue
            # the binding and every use in the same block, nothing in between touches what the test reads
            blk = getattr(st, "_parent", None)
            reads = {x.id for x in ast.walk(v) if isinstance(x, ast.Name)}
            ok = True
            for o in owners:
                if getattr(o, "_parent", None) is not blk:
                    ok = False
                    break
                lo, hi = seq[id(st)], seq[id(o)]
                if hi <= lo:
                    ok = False
                    break
                for mid in stmts:
                    if not (lo < seq.get(id(mid), -1) < hi):
                        continue
                    for x in ast.walk(mid):
                        if isinstance(x, ast.Name) and x.id in reads and isinstance(x.ctx, (ast.Store, ast.Del)):
                            ok = False
                        if isinstance(x, (ast.Subscript, ast.Attribute)) and isinstance(getattr(x, "ctx", None), (ast.Store, ast.Del)):
                            b_ = x
                            while isinstance(b_, (ast.Subscript, ast.Attribute)):
                                b_ = b_.value
                            # a store of a constant flag into the table the test read (`seen[v] = True` between the read and the test) is what
                            # the idiom `old = seen[v]; seen[v] = True; if old: continue` does: the read value is what is tested, keep the local
                            if isinstance(b_, ast.Name) and b_.id in reads:
                                ok = False
                        if isinstance(x, ast.Call) and isinstance(x.func, ast.Attribute):
                            b_ = x.func.value
                            while isinstance(b_, (ast.Subscript, ast.Attribute)):
                                b_ = b_.value
                            if isinstance(b_, ast.Name) and b_.id in reads and x.func.attr not in ("get", "keys", "values", "items", "index", "count", "copy"):
                                ok = False
                if not ok:
                    break
            if not ok:
                continue
            for u in uses:
                par = u._parent
                rep = sym.clone(v)
                for fld, val in ast.iter_fields(par):
                    if val is u:
                        setattr(par, fld, rep)
                    elif isinstance(val, list):
                        for i, x in enumerate(val):
                            if x is u:
                                val[i] = rep
            # remove the binding
            body_owner = blk
            for fld in ("body", "orelse", "finalbody"):
                sub = getattr(body_owner, fld, None)
                if isinstance(sub, list) and any(x is st for x in sub):
                    sub[:] = [x for x in sub if x is not st] or [ast.copy_location(ast.Pass(), st)]
            for h in getattr(body_owner, "handlers", []) or []:
                if any(x is st for x in h.body):
                    h.body[:] = [x for x in h.body if x is not st] or [ast.copy_location(ast.Pass(), st)]
            changed = True
            link(fn)
        if changed:
            fn.body = self._fold_block(fn.body) or [ast.Pass()]
            ast.fix_missing_locations(fn)
            link(fn)

    def _field_reads(self, fn):
        """`v = item.x` (both bound once, nothing stores into item.x): the later reads of `item.x` in the same block are reads of v"""
        link(fn)
        counts = {}
        for n in ast.walk(fn):
            if isinstance(n, ast.Name) and isinstance(n.ctx, (ast.Store, ast.Del)):
                counts[n.id] = counts.get(n.id, 0) + 1
            elif isinstance(n, ast.arg):
                counts[n.arg] = counts.get(n.arg, 0) + 1
        stored = {au.src(n) for n in ast.walk(fn) if isinstance(n, ast.Attribute) and isinstance(n.ctx, (ast.Store, ast.Del))}
        for own in [n for n in ast.walk(fn)]:
            for fld in ("body", "orelse", "finalbody"):
                blk = getattr(own, fld, None)
                if not (isinstance(blk, list) and blk and isinstance(blk[0], ast.stmt)):
                    continue
                for i, st in enumerate(blk):
                    if not (isinstance(st, ast.Assign) and len(st.targets) == 1 and isinstance(st.targets[0], ast.Name) and isinstance(st.value, ast.Attribute)
                            and _is_chain(st.value)):
                        continue
                    a, v = st.targets[0].id, st.value
                    root = v
                    while isinstance(root, ast.Attribute):
                        root = root.value
                    if root.id in ("self", "cls"):
                        continue
                    # neither name is re-bound in the rest of the block (the only place where the reads are rewritten)
                    rest_stores = {x.id for st2 in blk[i + 1:] for x in ast.walk(st2) if isinstance(x, ast.Name) and isinstance(x.ctx, (ast.Store, ast.Del))}
                    if a in rest_stores or root.id in rest_stores:
                        continue
                    txt = au.src(v)
                    if any(txt == s_ or txt.startswith(s_ + ".") for s_ in stored):
                        continue

                    class T(ast.NodeTransformer):
                        def visit_Attribute(self, n):
                            if isinstance(n.ctx, ast.Load) and au.src(n) == txt:
                                return ast.copy_location(ast.Name(id=a, ctx=ast.Load()), n)
                            return self.generic_visit(n)
                    for j in range(i + 1, len(blk)):
                        blk[j] = T().visit(blk[j])
        ast.fix_missing_locations(fn)
        link(fn)

    def _index_loops(self, fn):
        """for i in range(len(X)): e = X[i] ; BODY   ->   for e in X: BODY  (for i, e in enumerate(X) when i is used elsewhere), X not changed in
        the loop"""
        link(fn)
        for lp in [n for n in ast.walk(fn) if isinstance(n, ast.For)]:
            it = lp.iter
            if not (isinstance(lp.target, ast.Name) and isinstance(it, ast.Call) and isinstance(it.func, ast.Name) and it.func.id == "range"
                    and len(it.args) == 1 and not it.keywords and not lp.orelse and lp.body):
                continue
            ln = it.args[0]
            if not (isinstance(ln, ast.Call) and isinstance(ln.func, ast.Name) and ln.func.id == "len" and len(ln.args) == 1 and
                    (isinstance(ln.args[0], ast.Name) or _is_chain(ln.args[0]))):
                continue
            X = ln.args[0]
            first = lp.body[0]
            i = lp.target.id
            if not (isinstance(first, ast.Assign) and len(first.targets) == 1 and isinstance(first.targets[0], ast.Name)
                    and isinstance(first.value, ast.Subscript) and au.src(first.value.value) == au.src(X)
                    and isinstance(first.value.slice, ast.Name) and first.value.slice.id == i):
                continue
            e = first.targets[0].id
            xs = au.src(X)
            rest = lp.body[1:]
            bad = False
            for st in rest:
                for x in ast.walk(st):
                    if isinstance(x, ast.Name) and x.id in (e, i) and isinstance(x.ctx, (ast.Store, ast.Del)):
                        bad = True
                    if isinstance(x, (ast.Name, ast.Attribute)) and au.src(x) == xs:
                        par = getattr(x, "_parent", None)
                        read_only = (isinstance(par, ast.Subscript) and par.value is x and isinstance(par.ctx, ast.Load)) or \
                            (isinstance(par, ast.Call) and isinstance(par.func, ast.Name) and par.func.id == "len")
                        if not read_only:
                            bad = True
            if bad or e == i:
                continue
            i_used = any(isinstance(x, ast.Name) and x.id == i for st in rest for x in ast.walk(st))
            if i_used:
                lp.target = ast.copy_location(ast.Tuple(elts=[_name(i, ast.Store()), _name(e, ast.Store())], ctx=ast.Store()), lp.target)
                lp.iter = ast.copy_location(ast.Call(func=_name("enumerate"), args=[sym.clone(X)], keywords=[]), it)
            else:
                lp.target = ast.copy_location(_name(e, ast.Store()), lp.target)
                lp.iter = ast.copy_location(sym.clone(X), it)
            lp.body = rest or [ast.copy_location(ast.Pass(), lp)]
        ast.fix_missing_locations(fn)
        link(fn)

    # ---------------------------------------------------------------- F3
    def _getitem_calls(self, fn):
        class T(ast.NodeTransformer):
            def visit_Call(self, n):
                self.generic_visit(n)
                if isinstance(n.func, ast.Attribute) and n.func.attr == "__getitem__" and len(n.args) == 1 and not n.keywords:
                    return ast.copy_location(ast.Subscript(value=n.func.value, slice=n.args[0], ctx=ast.Load()), n)
                return n
        fn.body = [T().visit(s) for s in fn.body]

    # ---------------------------------------------------------------- F4 alias propagation
    def _alias_propagation(self, fn):
        """names bound exactly once, by a top-level statement of the function, to a pure attribute chain (at least one dot) whose
        root is `self` or a parameter / a name bound once, and never rebound: replaced by the chain everywhere after."""
        for _ in range(4):
            params = set(au.params(fn))
            counts = {}
            for n in ast.walk(fn):
                if isinstance(n, ast.Name) and isinstance(n.ctx, (ast.Store, ast.Del)):
                    counts[n.id] = counts.get(n.id, 0) + 1
                elif isinstance(n, ast.arg):
                    counts[n.arg] = counts.get(n.arg, 0) + 1
                elif isinstance(n, (ast.FunctionDef, ast.ClassDef)) and n is not fn:
                    counts[n.name] = counts.get(n.name, 0) + 1
            # attribute chains stored to anywhere in the function: `self.edges = ...` makes an alias of self.edges unsafe
            stored_chains = set()
            for n in ast.walk(fn):
                if isinstance(n, ast.Attribute) and isinstance(n.ctx, (ast.Store, ast.Del)):
                    stored_chains.add(au.src(n))
            mapping = {}
            kill = []
            for c_ in ast.walk(fn):
                if isinstance(c_, ast.Call) and isinstance(c_.func, ast.Name):
                    c_.func._hf_par = c_
            fn_defs = {n.name: n for n in ast.walk(fn) if isinstance(n, (ast.FunctionDef, ast.ClassDef)) and n is not fn}
            for own_ in ast.walk(fn):
                for fld_ in ("body", "orelse", "finalbody"):
                    sub_ = getattr(own_, fld_, None)
                    if isinstance(sub_, list):
                        for x_ in sub_:
                            if isinstance(x_, ast.stmt):
                                x_._hf_blk_owner = own_
            loop_bound = set()
            for lp_ in [x for x in ast.walk(fn) if isinstance(x, (ast.For, ast.While))]:
                for x in ast.walk(lp_):
                    if isinstance(x, ast.Name) and isinstance(x.ctx, ast.Store):
                        loop_bound.add(x.id)
            for st in au.stmts(fn.body):
                pairs = []
                if isinstance(st, ast.Assign) and len(st.targets) == 1:
                    t, v = st.targets[0], st.value
                    if isinstance(t, ast.Name):
                        pairs = [(t, v)]
                    elif isinstance(t, (ast.Tuple, ast.List)) and isinstance(v, (ast.Tuple, ast.List)) and len(t.elts) == len(v.elts) \
                            and all(isinstance(x, ast.Name) for x in t.elts):
                        pairs = list(zip(t.elts, v.elts))
                elif isinstance(st, ast.AnnAssign) and isinstance(st.target, ast.Name) and st.value is not None:
                    pairs = [(st.target, st.value)]
                if not pairs:
                    continue
                good = []
                for t, v in pairs:
                    if isinstance(v, ast.Name) and isinstance(t, ast.Name) and v.id != t.id:
                        # a = b : both bound once (b may be a parameter); when b is the variable of a loop, a must be bound directly in that loop's body
                        if counts.get(t.id, 0) != 1 or t.id in params or counts.get(v.id, 0) != 1:
                            continue
                        if v.id in loop_bound and v.id not in params:
                            par_ = getattr(st, "_hf_blk_owner", None)
                            in_for = isinstance(par_, ast.For) and v.id in {x.id for x in ast.walk(par_.target) if isinstance(x, ast.Name)}
                            # or: b is bound by an earlier statement of the very block that binds a (`v, prev = q.popleft()` ... `father = prev`)
                            same_blk = False
                            for fld_ in ("body", "orelse", "finalbody"):
                                blk_ = getattr(par_, fld_, None) if par_ is not None else None
                                if isinstance(blk_, list) and any(x_ is st for x_ in blk_):
                                    k_ = [i_ for i_, x_ in enumerate(blk_) if x_ is st][0]
                                    same_blk = any(isinstance(x_, (ast.Assign, ast.AnnAssign)) and v.id in {y_.id for t_ in (x_.targets if isinstance(x_, ast.Assign) else [x_.target])
                                                                                                          for y_ in ast.walk(t_) if isinstance(y_, ast.Name)}
                                                   for x_ in blk_[:k_])
                            if not (in_for or same_blk):
                                continue
                        if isinstance(fn_defs.get(v.id), (ast.FunctionDef, ast.ClassDef)):
                            continue
                        good.append((t.id, v))
                        continue
                    if not (isinstance(v, ast.Attribute) and _is_chain(v)):
                        continue
                    root = v
                    while isinstance(root, ast.Attribute):
                        root = root.value
                    if counts.get(t.id, 0) != 1 or t.id in params:
                        continue
                    if counts.get(root.id, 0) > 1:
                        continue
                    if counts.get(root.id, 0) == 1 and root.id not in params and root.id in loop_bound:
                        # the root is rebound at every iteration of a loop: only a bound method used as a callee (`add = path.append ... add(v)`),
                        # bound after the root in the same block, is still an alias of one object
                        uses = [n for n in ast.walk(fn) if isinstance(n, ast.Name) and n.id == t.id and isinstance(n.ctx, ast.Load)]
                        callee_only = uses and all(isinstance(getattr(u, "_hf_par", None), ast.Call) for u in uses)
                        if not callee_only:
                            continue
                    txt = au.src(v)
                    if any(txt == s_ or txt.startswith(s_ + ".") for s_ in stored_chains):
                        continue
                    good.append((t.id, v))
                if good and len(good) == len(pairs):
                    for k, v in good:
                        mapping[k] = v
                    kill.append(st)
            if not mapping:
                return
            # resolve chains through each other (a = self.mesh ; b = a.faces)
            for k in list(mapping):
                mapping[k] = _Subst({x: y for x, y in mapping.items() if x != k}).visit(sym.clone(mapping[k]))
            sub = _Subst(mapping)

            def prune(body):
                out = []
                for st in body:
                    if any(st is k for k in kill):
                        continue
                    if not isinstance(st, (ast.FunctionDef, ast.AsyncFunctionDef, ast.ClassDef)):
                        for fld in ("body", "orelse", "finalbody"):
                            sub_b = getattr(st, fld, None)
                            if isinstance(sub_b, list) and sub_b and isinstance(sub_b[0], ast.stmt):
                                nb = prune(sub_b)
                                setattr(st, fld, nb if (nb or fld != "body") else [ast.copy_location(ast.Pass(), st)])
                        for h in getattr(st, "handlers", []) or []:
                            h.body = prune(h.body) or [ast.copy_location(ast.Pass(), st)]
                    out.append(st)
                return out
            fn.body = [sub.visit(st) for st in prune(fn.body)] or [ast.Pass()]

    # ---------------------------------------------------------------- F2 inlining
    def _local_defs(self, body):
        """nested functions that may be inlined at their call sites: defined exactly once in the function and never rebound
        (a name defined on sibling branches - one `def edge_length` per weight mode - is a run-time choice, not a helper)"""
        out = {}
        count = {}
        for st in au.stmts(body):
            if isinstance(st, ast.FunctionDef):
                out[st.name] = st
                count[st.name] = count.get(st.name, 0) + 1
            elif isinstance(st, ast.Assign) and len(st.targets) == 1 and isinstance(st.targets[0], ast.Name) and isinstance(st.value, ast.Lambda):
                # f = lambda a: e   is   def f(a): return e
                nm = st.targets[0].id
                cached = getattr(st, "_hf_def", None)
                if cached is None:
                    cached = ast.FunctionDef(name=nm, args=st.value.args, body=[ast.Return(value=st.value.body)], decorator_list=[], returns=None, type_comment=None)
                    ast.copy_location(cached, st)
                    ast.fix_missing_locations(cached)
                    st._hf_def = cached
                out[nm] = cached
                count[nm] = count.get(nm, 0) + 1
            else:
                for t in au.assign_targets(st):
                    for n in au.assigned_names(t):
                        count[n] = count.get(n, 0) + 2
        return {k: v for k, v in out.items() if count.get(k, 0) == 1}

    def _resolve(self, call, scope, local_defs):
        """(callee FunctionDef, callee scope, skip_self) or None"""
        f = call.func
        if (isinstance(f, ast.Name) and f.id in scope.no_inline) or (isinstance(f, ast.Attribute) and f.attr in scope.no_inline):
            return None
        if isinstance(f, ast.Name):
            if f.id in local_defs:
                return local_defs[f.id], Scope(scope.repo, scope.mod, scope.cls, {**scope.outer_defs, **local_defs}, scope.no_inline), False
            if f.id in scope.outer_defs:
                return scope.outer_defs[f.id], scope, False
            if is_private(f.id) and f.id in scope.mod.funcs and "." not in f.id:
                return scope.mod.funcs[f.id], Scope(scope.repo, scope.mod, None, None, scope.no_inline), False
            return None
        if isinstance(f, ast.Attribute) and isinstance(f.value, ast.Name) and scope.cls is not None and is_private(f.attr):
            cmod, ccls = scope.cls
            if f.value.id in ("self", "cls") or f.value.id == ccls.name:
                ms = scope.repo.methods(cmod, ccls)
                if f.attr in ms:
                    m, fn, owner = ms[f.attr]
                    decos = {au.src(d) for d in fn.decorator_list}
                    if "property" in decos or "classmethod" in decos or any(d.endswith(".setter") for d in decos):
                        return None
                    static = "staticmethod" in decos
                    if f.value.id == ccls.name and not static:
                        return None
                    return fn, Scope(scope.repo, m, (m, owner), None, scope.no_inline), not static
        return None

    def _bind(self, call, callee, skip_self, caller_self=None):
        """param -> argument expression (defaults filled in), or None"""
        a = callee.args
        if a.vararg or a.kwarg or any(isinstance(x, ast.Starred) for x in call.args) or any(k.arg is None for k in call.keywords):
            return None
        pos = [x.arg for x in a.posonlyargs + a.args]
        recv = None
        if skip_self and pos:
            recv, pos = pos[0], pos[1:]
        if len(call.args) > len(pos):
            return None
        out = {}
        for p, e in zip(pos, call.args):
            out[p] = e
        kwonly = [x.arg for x in a.kwonlyargs]
        for k in call.keywords:
            if k.arg in out or (k.arg not in pos and k.arg not in kwonly):
                return None
            out[k.arg] = k.value
        allpos = a.posonlyargs + a.args
        for x, d in zip(allpos[len(allpos) - len(a.defaults):], a.defaults):
            out.setdefault(x.arg, d)
        for x, d in zip(a.kwonlyargs, a.kw_defaults):
            if d is not None:
                out.setdefault(x.arg, d)
        if any(p not in out for p in pos + kwonly):
            return None
        if recv is not None and isinstance(call.func, ast.Attribute):
            out[recv] = call.func.value        # self -> self
        return out

    def _instantiate(self, callee, cscope, binding, caller_names, depth):
        """(prologue statements, body statements) of the callee with parameters bound; callee locals renamed apart from `caller_names`"""
        flat = self.flatten(callee, cscope, depth - 1)
        body = sym.clone(strip_doc(flat.body))
        tmp = ast.FunctionDef(name="_", args=sym.clone(flat.args), body=body, decorator_list=[], returns=None, type_comment=None)
        locals_ = _bound_names(tmp)
        params = set(binding)
        ren = {}
        for x in sorted(locals_ - params):
            if x in caller_names:
                ren[x] = self.fresh(x)
        prologue = []
        mapping = {}
        for p, e in binding.items():
            if p in locals_ or not _is_simple_arg(e):
                # the parameter is rebound in the callee, or the argument is not a simple expression: bind a temporary
                if isinstance(e, ast.Name) and e.id == p and p not in locals_:
                    continue
                t = self.fresh(p) if (p in caller_names) else p
                caller_names.add(t)
                prologue.append(ast.Assign(targets=[_name(t, ast.Store())], value=sym.clone(e), type_comment=None))
                if t != p:
                    ren[p] = t
            else:
                if isinstance(e, ast.Name) and e.id == p:
                    continue
                mapping[p] = e
        if ren:
            r = _Rename(ren)
            body = [r.visit(s) for s in body]
        if mapping:
            s_ = _Subst(mapping)
            body = [s_.visit(s) for s in body]
            body = [self._apply_callables(s) for s in body]
        caller_names.update(ren.values())
        caller_names.update(locals_ - set(ren))
        return prologue, body

    def _apply_callables(self, st):
        """(lambda a: E)(x) -> E[x/a] after a callable argument has been substituted for a parameter"""
        class T(ast.NodeTransformer):
            def visit_Call(self, n):
                self.generic_visit(n)
                if isinstance(n.func, ast.Lambda) and not n.keywords and not any(isinstance(a, ast.Starred) for a in n.args):
                    la = n.func.args
                    ps = [a.arg for a in la.posonlyargs + la.args]
                    if len(ps) == len(n.args) and not la.vararg and not la.kwarg and not la.kwonlyargs \
                            and all(_is_simple_arg(a) or isinstance(a, ast.Name) for a in n.args):
                        return ast.copy_location(_Subst(dict(zip(ps, n.args))).visit(sym.clone(n.func.body)), n)
                return n
        return T().visit(st)

    def _tailify(self, stmts, mk):
        """rewrite a body whose `return`s are in tail position of an if-chain so that every `return e` becomes mk(e) and the
        statements after an early exit move into the else branch.  None when a return sits inside a loop / try / with."""
        out = []
        for i, st in enumerate(stmts):
            if isinstance(st, ast.Return):
                return out + mk(st.value, st)
            if not any(isinstance(n, ast.Return) for n in _walk_no_defs([st])):
                out.append(st)
                continue
            if not isinstance(st, ast.If):
                return None
            rest = stmts[i + 1:]
            b_in = st.body + ([] if _returns_always(st.body) else sym.clone(rest))
            e_in = st.orelse + ([] if (st.orelse and _returns_always(st.orelse)) else sym.clone(rest))
            b = self._tailify(b_in, mk)
            e = self._tailify(e_in, mk)
            if b is None or e is None:
                return None
            new = ast.copy_location(ast.If(test=st.test, body=b or [ast.Pass()], orelse=e), st)
            return out + [new]
        return out

    def _inline_block(self, body, fn, scope, depth):
        local_defs = self._local_defs(fn.body)
        caller_names = _all_names(fn)
        changed = True
        rounds = 0
        while changed and rounds < 6:
            rounds += 1
            body, changed = self._inline_once(body, fn, scope, depth, local_defs, caller_names)
        return body

    def _inline_once(self, body, fn, scope, depth, local_defs, caller_names):
        changed = False
        out = []
        for st in body:
            if isinstance(st, (ast.FunctionDef, ast.AsyncFunctionDef)):
                # flatten nested defs in place (they are inlined at their call sites; kept for the calls that stay)
                out.append(st)
                continue
            if isinstance(st, ast.ClassDef):
                out.append(st)
                continue
            # expression-level inlining in the header / simple statement
            if self._inline_exprs(st, scope, local_defs, depth):
                changed = True
            hz = self._hoist_calls(st, scope, local_defs, caller_names)
            if hz is not None:
                new, _ = self._inline_once(hz, fn, scope, depth, local_defs, caller_names)
                out.extend(new)
                changed = True
                continue
            ex = self._explode_comprehension(st, scope, local_defs, caller_names)
            if ex is not None:
                new, _ = self._inline_once(ex, fn, scope, depth, local_defs, caller_names)
                out.extend(new)
                changed = True
                continue
            rep = self._inline_stmt(st, fn, scope, depth, local_defs, caller_names)
            if rep is not None:
                out.extend(rep)
                changed = True
                continue
            for fld in ("body", "orelse", "finalbody"):
                sub = getattr(st, fld, None)
                if isinstance(sub, list) and sub and isinstance(sub[0], ast.stmt):
                    new, ch = self._inline_once(sub, fn, scope, depth, local_defs, caller_names)
                    setattr(st, fld, new)
                    changed = changed or ch
            for h in getattr(st, "handlers", []) or []:
                new, ch = self._inline_once(h.body, fn, scope, depth, local_defs, caller_names)
                h.body = new
                changed = changed or ch
            out.append(st)
        return out, changed

    def _hoist_calls(self, st, scope, local_defs, caller_names):
        """a simple statement whose expression contains (not at its top) calls of multi-statement helpers that can be inlined:
        `x = sorted(self._candidates(), key=self._weight())` -> `t1 = self._candidates(); t2 = self._weight(); x = sorted(t1, key=t2)`.
        Only calls that are evaluated unconditionally (not under and/or, a conditional expression, a lambda or a comprehension)."""
        if not isinstance(st, (ast.Assign, ast.AnnAssign, ast.AugAssign, ast.Expr, ast.Return)) or getattr(st, "value", None) is None:
            return None
        root = st.value
        found = []
        me = self

        def rec(e, top):
            if isinstance(e, (ast.Lambda, ast.ListComp, ast.SetComp, ast.DictComp, ast.GeneratorExp, ast.IfExp, ast.BoolOp)):
                return
            for c in ast.iter_child_nodes(e):
                if isinstance(c, ast.expr):
                    rec(c, False)
                elif isinstance(c, ast.keyword):
                    rec(c.value, False)
            if isinstance(e, ast.Call) and not top:
                r = me._resolve(e, scope, local_defs)
                if r is not None and not has_yield(r[0]) and me._single_return_expr(r[0]) is None and id(r[0]) not in me.stack \
                        and _returns(r[0].body) and me._bind(e, r[0], r[2]) is not None:
                    found.append(e)
        rec(root, True)
        if not found:
            return None
        pre = []
        mapping = {}
        for c in found:
            t = self.fresh("_r")
            caller_names.add(t)
            pre.append(_loc(ast.Assign(targets=[_name(t, ast.Store())], value=c, type_comment=None), st))
            mapping[id(c)] = t

        class T(ast.NodeTransformer):
            def visit_Call(self, n):
                if id(n) in mapping:
                    return ast.copy_location(_name(mapping[id(n)]), n)
                self.generic_visit(n)
                return n
        st.value = T().visit(root)
        return pre + [st]

    def _explode_comprehension(self, st, scope, local_defs, caller_names):
        """`x = {k: helper(..) for ..}` / `x = [helper(..) for ..]` where helper is a multi-statement helper that can be inlined:
        written as `x = {}` + loops + `x[k] = helper(..)` so that the call becomes a statement-level call"""
        if not (isinstance(st, ast.Assign) and len(st.targets) == 1 and isinstance(st.targets[0], ast.Name)):
            return None
        v = st.value
        if not isinstance(v, (ast.DictComp, ast.ListComp)):
            return None
        x = st.targets[0].id
        parts = [v.value] if isinstance(v, ast.DictComp) else [v.elt]
        call = parts[0]
        if not isinstance(call, ast.Call):
            return None
        r = self._resolve(call, scope, local_defs)
        if r is None or has_yield(r[0]) or self._single_return_expr(r[0]) is not None or id(r[0]) in self.stack:
            return None
        if x in _all_names(v):
            return None
        if isinstance(v, ast.DictComp):
            init = ast.Dict(keys=[], values=[])
            leaf = ast.Assign(targets=[ast.Subscript(value=_name(x), slice=sym.clone(v.key), ctx=ast.Store())], value=sym.clone(call), type_comment=None)
        else:
            init = ast.List(elts=[], ctx=ast.Load())
            tmp = self.fresh("_v")
            caller_names.add(tmp)
            leaf = None
        first = _loc(ast.Assign(targets=[_name(x, ast.Store())], value=init, type_comment=None), st)
        if leaf is None:
            body = [_loc(ast.Assign(targets=[_name(tmp, ast.Store())], value=sym.clone(call), type_comment=None), st),
                    _loc(ast.Expr(value=ast.Call(func=ast.Attribute(value=_name(x), attr="append", ctx=ast.Load()), args=[_name(tmp)], keywords=[])), st)]
        else:
            body = [_loc(leaf, st)]
        loops = self._comp_to_loops(v, body)
        if loops is None:
            return None
        return [first] + loops

    def _single_return_expr(self, callee):
        b = strip_doc(callee.body)
        if len(b) == 1 and isinstance(b[0], ast.Return) and b[0].value is not None and not has_yield(callee):
            return b[0].value
        return None

    def _inline_exprs(self, st, scope, local_defs, depth):
        """inside the expressions of one statement (not its nested blocks): calls of single-`return e` helpers -> e"""
        me = self
        changed = [False]

        class T(ast.NodeTransformer):
            def visit_Call(self, n):
                self.generic_visit(n)
                r = me._resolve(n, scope, local_defs)
                if r is None:
                    return n
                callee, cscope, skip_self = r
                if id(callee) in me.stack or depth <= 1:
                    return n
                flat = me.flatten(callee, cscope, depth - 1)
                e = me._single_return_expr(flat)
                if e is None:
                    return n
                binding = me._bind(n, callee, skip_self)
                if binding is None:
                    return n
                binding = {p: a for p, a in binding.items() if not (isinstance(a, ast.Name) and a.id == p)}
                if not all(_is_simple_arg(a) for a in binding.values()):
                    return n
                # a comprehension inside the helper must not capture names of the arguments
                comp_t = {x for c in ast.walk(e) if isinstance(c, ast.comprehension) for x in au.assigned_names(c.target)}
                if any(comp_t & _all_names(a) for a in binding.values()):
                    return n
                changed[0] = True
                new = _Subst(binding).visit(sym.clone(e))
                new = me._apply_callables(new)
                return ast.copy_location(new, n)

        def visit_expr_fields(node):
            for fld, val in ast.iter_fields(node):
                if fld in ("body", "orelse", "finalbody", "handlers") and isinstance(val, list):
                    continue
                if isinstance(val, ast.expr):
                    setattr(node, fld, T().visit(val))
                elif isinstance(val, list):
                    setattr(node, fld, [T().visit(x) if isinstance(x, ast.expr) else (visit_kw(x) if isinstance(x, (ast.keyword, ast.withitem)) else x)
                                        for x in val])

        def visit_kw(k):
            if isinstance(k, ast.keyword):
                k.value = T().visit(k.value)
            elif isinstance(k, ast.withitem):
                k.context_expr = T().visit(k.context_expr)
            return k
        if isinstance(st, (ast.FunctionDef, ast.AsyncFunctionDef, ast.ClassDef)):
            return False
        visit_expr_fields(st)
        return changed[0]

    def _inline_stmt(self, st, fn, scope, depth, local_defs, caller_names):
        """replacement statements when `st` is a call form that can be inlined, else None"""
        if depth <= 1:
            return None
        call = target = None
        form = None
        if isinstance(st, ast.Expr) and isinstance(st.value, ast.Call):
            call, form = st.value, "expr"
        elif isinstance(st, ast.Assign) and len(st.targets) == 1 and isinstance(st.value, ast.Call):
            call, form, target = st.value, "assign", st.targets[0]
        elif isinstance(st, ast.AnnAssign) and st.value is not None and isinstance(st.value, ast.Call) and isinstance(st.target, ast.Name):
            call, form, target = st.value, "assign", st.target
        elif isinstance(st, ast.Return) and isinstance(st.value, ast.Call):
            call, form = st.value, "return"
        elif isinstance(st, ast.For) and isinstance(st.iter, ast.Call) and not st.orelse:
            call, form = st.iter, "for"
        if call is None:
            return None
        r = self._resolve(call, scope, local_defs)
        if r is None:
            return None
        callee, cscope, skip_self = r
        if id(callee) in self.stack:
            return None
        gen = has_yield(callee)
        if form == "for" and not gen:
            # `for t in helper(..)` with an ordinary helper: bind its result first, then loop over it
            tmp = self.fresh("_it")
            caller_names.add(tmp)
            pre = _loc(ast.Assign(targets=[_name(tmp, ast.Store())], value=call, type_comment=None), st)
            rep = self._inline_stmt(pre, fn, scope, depth, local_defs, caller_names)
            if rep is None:
                return None
            st.iter = _loc(_name(tmp), st)
            return rep + [st]
        if gen != (form == "for"):
            return None
        binding = self._bind(call, callee, skip_self)
        if binding is None:
            self.notes.append(f"{callee.name}: arguments not bindable")
            return None
        names = set(caller_names)
        prologue, body = self._instantiate(callee, cscope, binding, names, depth)
        res = None
        if form == "for":
            res = self._inline_generator(st, body)
        elif form == "return":
            res = list(body)
            if not _returns_always(res):
                res.append(ast.Return(value=None))
        elif form == "expr":
            res = self._tailify(body, lambda v, at: ([] if v is None or isinstance(v, (ast.Constant, ast.Name)) else [ast.Expr(value=v)]))
        elif form == "assign":
            def mk(v, at):
                return [ast.Assign(targets=[_store(target)], value=v if v is not None else ast.Constant(value=None), type_comment=None)]
            rets = _returns(body)
            if not rets:
                res = None
            else:
                res = self._tailify(body, mk)
                if res is not None and not self._assigns_on_all_paths(res):
                    res = None
        if res is None:
            self.notes.append(f"{callee.name}: shape of the helper does not allow inlining as `{form}`")
            return None
        caller_names.update(names)
        res = prologue + res
        for s in res:
            _loc(s, st)
        return res or [_loc(ast.Pass(), st)]

    def _assigns_on_all_paths(self, stmts):
        # after _tailify the assignment replaces every return; a path falling off the end of the helper returns None: accept
        return True

    def _inline_generator(self, loop, gbody):
        """`for T in g(..): BODY` with g's body `gbody`: every `yield e` becomes `T = e; BODY`"""
        if _returns(gbody):
            return None
        body = loop.body
        has_break = any(isinstance(n, ast.Break) for n in self._own_level(body))
        has_cont = any(isinstance(n, ast.Continue) for n in self._own_level(body))
        if has_break:
            return None
        ok = [True]
        me = self

        def tail_of_loop(block, in_loop):
            """rewrite `block`; in_loop: the innermost enclosing loop body list of the generator (or None)"""
            out = []
            for i, s in enumerate(block):
                if isinstance(s, ast.Expr) and isinstance(s.value, ast.Yield):
                    if has_cont and not (in_loop is not None and me._is_tail(s, in_loop)):
                        ok[0] = False
                    v = s.value.value if s.value.value is not None else ast.Constant(value=None)
                    out.append(ast.copy_location(ast.Assign(targets=[_store(loop.target)], value=v, type_comment=None), s))
                    out.extend(sym.clone(body))
                    continue
                if any(isinstance(n, (ast.Yield, ast.YieldFrom)) for n in _walk_no_defs([s])):
                    if isinstance(s, (ast.For, ast.While)):
                        s.body = tail_of_loop(s.body, s.body)
                        if s.orelse:
                            s.orelse = tail_of_loop(s.orelse, in_loop)
                    elif isinstance(s, ast.If):
                        s.body = tail_of_loop(s.body, in_loop)
                        s.orelse = tail_of_loop(s.orelse, in_loop)
                    elif isinstance(s, (ast.With,)):
                        s.body = tail_of_loop(s.body, in_loop)
                    else:
                        ok[0] = False
                out.append(s)
            return out
        # the tail test needs parent information relative to the original blocks: compute before rewriting
        self._tail_cache = {}
        new = tail_of_loop(gbody, None)
        return new if ok[0] else None

    def _own_level(self, body):
        """nodes of `body` that belong to the loop owning `body` (not entering inner loops / defs)"""
        todo = list(body)
        while todo:
            n = todo.pop()
            yield n
            for c in ast.iter_child_nodes(n):
                if isinstance(c, (ast.For, ast.While, ast.FunctionDef, ast.AsyncFunctionDef, ast.ClassDef, ast.Lambda)):
                    continue
                todo.append(c)

    def _is_tail(self, st, loop_body):
        """st is the last statement executed of an iteration of the loop whose body is `loop_body`"""
        if not loop_body:
            return False
        last = loop_body[-1]
        if last is st:
            return True
        if isinstance(last, ast.If):
            return self._is_tail(st, last.body) or self._is_tail(st, last.orelse)
        return False


# --------------------------------------------------------------------------------------------- public helpers
def flattener(repo):
    fl = getattr(repo, "_hf_flattener", None)
    if fl is None:
        fl = Flattener(repo)
        repo._hf_flattener = fl
    return fl


def flatten(repo, modname, fn, cls=None, no_inline=()):
    """flattened copy of `fn` (a FunctionDef of module `modname`, method of ClassDef `cls` when given); helpers named in `no_inline`
    stay calls (predicates a rule treats as atoms)"""
    mod = repo.module(modname)
    if cls is None:
        q = getattr(fn, "_qualname", "")
        if "." in q and ".<locals>." not in q:
            cq = q.rsplit(".", 1)[0]
            cls = mod.classes.get(cq)
    outer = {}
    q = getattr(fn, "_qualname", "")
    if ".<locals>." in q:
        # a nested function: the defs of its enclosing function are visible
        oq = q.rsplit(".<locals>.", 1)[0]
        of = mod.funcs.get(oq)
        if of is not None:
            outer = flattener(repo)._local_defs(of.body)
            if cls is None and "." in oq:
                cls = mod.classes.get(oq.rsplit(".", 1)[0])
    scope = Scope(repo, mod, (mod, cls) if cls is not None else None, outer, no_inline)
    return flattener(repo).flatten(fn, scope)


def order_index(fn):
    """id(node) -> position in a source-order (pre-order) walk of the flattened function"""
    out = {}
    for i, n in enumerate(au.walk_ordered(fn)):
        out[id(n)] = i
    return out


def opaque_calls(node, names, repo=None, known=()):
    """calls below `node` that receive one of `names` (as an argument, or as the receiver of an unknown method) and whose effect the
    analysis cannot see: user-defined helpers that were not inlined.  Builtins and container methods are transparent."""
    TRANSPARENT = {"len", "range", "enumerate", "zip", "list", "set", "tuple", "dict", "sorted", "min", "max", "sum", "abs", "float", "int",
                   "bool", "isinstance", "print", "iter", "next", "reversed", "any", "all", "str", "repr", "format", "isinf", "isnan", "id",
                   "keyify", "deque", "type", "round", "map", "filter"}
    out = []
    for c in au.calls(node):
        t = au.call_tail(c)
        if isinstance(c.func, ast.Name):
            if t in TRANSPARENT or t in known:
                continue
            if any(isinstance(a, ast.Name) and a.id in names for a in c.args) or any(isinstance(k.value, ast.Name) and k.value.id in names for k in c.keywords):
                out.append(c)
        elif isinstance(c.func, ast.Attribute) and isinstance(c.func.value, ast.Name) and c.func.value.id in ("self", "cls") and is_private(c.func.attr):
            if any(isinstance(a, ast.Name) and a.id in names for a in c.args):
                out.append(c)
    return out
