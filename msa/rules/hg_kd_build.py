"""C11: obligations of the k-d tree construction, decided on the symbolic paths of KDTree.__init__ (helpers executed in line)."""
from __future__ import annotations
import ast, itertools
from .. import au, sym, order
from . import hg_symex as S
from . import c1120_util as U

KD = "spatial.kdtree"
PUSH = {"append": "right", "extend": "right", "appendleft": "left", "extendleft": "left"}
COPY_TAILS = {"copy", "array", "deepcopy", "asarray_copy"}


def dataclass_fields(cls):
    return [st.target.id for st in cls.body if isinstance(st, ast.AnnAssign) and isinstance(st.target, ast.Name)]


def poly(e):
    """integer polynomial of an expression (tokens / attributes are atoms); None when not polynomial"""
    try:
        return sym.to_poly(e, atom_of=lambda n: au.src(n) if isinstance(n, (ast.Attribute, ast.Subscript, ast.Call)) else None, opaque=False)
    except sym.NotPoly:
        return None


class Build:
    """summary of one path of the constructor"""

    def __init__(self, ex, st, leaf_fields, node_fields):
        self.ex, self.st = ex, st
        self.leaf_fields, self.node_fields = leaf_fields, node_fields
        self.R = self.P = self.loop = self.pop = None
        for ev in S.calls(st, tail=("pop", "popleft")):
            if ev.loops and S.tok_name(ev.recv) and len(ev.loops) == 1:
                self.R, self.P, self.loop, self.pop = au.src(ev.recv), ev.tok, ev.loops[0][0], ev
                break

    # ---- events of the iteration
    def inside(self, ev):
        return bool(ev.loops) and ev.loops[0][0] == self.loop

    def created(self, tail):
        return [ev for ev in S.calls(self.st, tail=tail) if not isinstance(ev.call.func, ast.Attribute) or ev.tail == tail]

    def ctor_args(self, tokname, fields):
        """field -> value of a dataclass instance built on this path (constructor arguments, then later attribute stores)"""
        call = self.ex.origin(ast.Name(id=tokname, ctx=ast.Load()))
        out = {}
        ra = self.ex.record_args(ast.Name(id=tokname, ctx=ast.Load()))
        if ra is not None:
            out = {k: v for k, v in ra.items() if k != "$fields"}
        elif isinstance(call, ast.Call) and any(kw.arg is None for kw in call.keywords):
            out = {"**": call}
        elif isinstance(call, ast.Call):
            for i, a in enumerate(call.args):
                if i < len(fields):
                    out[fields[i]] = a
            for kw in call.keywords:
                if kw.arg:
                    out[kw.arg] = kw.value
        for f in fields:
            k = f"{tokname}.{f}"
            if k in self.st.heap:
                out[f] = self.st.heap[k]
        return out

    def is_new(self, e, tail):
        t = S.tok_name(e)
        for _ in range(4):
            if not (t and self.ex.kind(e) == "call"):
                return False
            c = self.ex.origin(e)
            if au.call_tail(c) == tail:
                return True
            if au.call_tail(c) == "replace" and c.args and S.tok_name(c.args[0]):      # dataclasses.replace(template, ...)
                e = c.args[0]
                t = S.tok_name(e)
                continue
            return False
        return False

    def pushes(self, before_loop=False):
        """(values pushed on the work-list, sides, unknown?) in execution order"""
        vals, sides, unknown = [], set(), False
        for ev in self.st.events:
            if ev.kind != "call" or ev.recv is None or au.src(ev.recv) != self.R:
                continue
            if before_loop != (not ev.loops):
                continue
            if ev.tail in PUSH:
                sides.add(PUSH[ev.tail])
                if ev.tail in ("append", "appendleft") and len(ev.args) == 1:
                    vals.append(ev.args[0])
                elif len(ev.args) == 1:
                    a = ev.args[0]
                    items = self.ex.contents(a.id, self.st) if self.ex.kind(a) == "display" else (list(a.elts) if isinstance(a, (ast.Tuple, ast.List)) else None)
                    if items is not None and not any(isinstance(x, ast.Starred) for x in items):
                        vals.extend(items if ev.tail == "extend" else items[::-1])
                    else:
                        unknown = True
                else:
                    unknown = True
            elif ev.tail in ("insert", "rotate", "remove", "clear", "reverse"):
                unknown = True
        return vals, sides, unknown

    def initial(self):
        """initial content of the work-list: constructor argument + pushes made before the loop"""
        vals = []
        o = self.ex.origin(ast.Name(id=self.R, ctx=ast.Load()))
        unknown = False
        if isinstance(o, ast.Call):
            if o.args:
                a = o.args[0]
                d = self.ex.origin(a) if self.ex.kind(a) == "display" else a
                if isinstance(d, (ast.Tuple, ast.List)):
                    vals.extend(d.elts)
                else:
                    unknown = True
        elif isinstance(o, (ast.List,)):
            vals.extend(o.elts)
        else:
            unknown = True
        v2, _, u2 = self.pushes(before_loop=True)
        return vals + v2, unknown or u2

    def node_entries(self):
        """entries added to self.nodes during the iteration (None = cannot tell)"""
        nodes = self.st.heap.get("self.nodes")
        if nodes is None:
            return None
        key = au.src(nodes)
        out = []
        for ev in self.st.events:
            if not self.inside(ev):
                continue
            if ev.kind == "call" and ev.recv is not None and au.src(ev.recv) == key:
                if ev.tail == "append" and len(ev.args) == 1:
                    out.append(ev.args[0])
                elif ev.tail in ("extend", "insert", "pop", "remove", "clear"):
                    return None
            elif ev.kind in ("store", "aug") and au.src(ev.target).startswith(key + "[") or (ev.kind in ("store", "aug") and au.src(ev.target) == "self.nodes"):
                return None
        return out

    def foreign_calls(self):
        """calls of self methods that were not executed in line (their effect is unknown)"""
        return [ev for ev in self.st.events if ev.kind == "call" and isinstance(ev.recv, ast.Name) and ev.recv.id == "self"
                and ev.tail not in self.ex.opaque and not (ev.tail in self.ex.methods and self.ex.pure(self.ex.methods[ev.tail]))]


# ------------------------------------------------------------------------------------------- partition of the points
def selection(ex, e):
    """`e` selects entries of an index array with a boolean mask: np.extract(M, I) / np.compress(M, I) / I[M]  ->  (M, I) else None"""
    o = ex.origin(e) if ex.kind(e) == "call" else e
    if isinstance(o, ast.Call) and au.call_tail(o) in ("extract", "compress") and len(o.args) == 2 and not o.keywords:
        return o.args[0], o.args[1]
    if isinstance(o, ast.Subscript) and not isinstance(o.slice, (ast.Slice, ast.Tuple, ast.Constant)):
        return o.slice, o.value
    return None


def mask_form(ex, m):
    """(coords, op, pivot, negated) of a mask `coords <op> pivot` possibly under ~ / np.logical_not / np.invert"""
    neg = False
    for _ in range(4):
        o = ex.origin(m) if ex.kind(m) == "call" else m
        if isinstance(o, ast.UnaryOp) and isinstance(o.op, (ast.Invert, ast.Not)):
            m, neg = o.operand, not neg
        elif isinstance(o, ast.Call) and au.call_tail(o) in ("logical_not", "invert", "bitwise_not") and len(o.args) == 1:
            m, neg = o.args[0], not neg
        else:
            m = o
            break
    if isinstance(m, ast.Call) and au.call_tail(m) in ("less_equal", "less", "greater", "greater_equal") and len(m.args) == 2:
        op = {"less_equal": ast.LtE, "less": ast.Lt, "greater": ast.Gt, "greater_equal": ast.GtE}[au.call_tail(m)]()
        return m.args[0], op, m.args[1], neg
    if isinstance(m, ast.Compare) and len(m.ops) == 1 and isinstance(m.ops[0], (ast.Lt, ast.LtE, ast.Gt, ast.GtE)):
        return m.left, m.ops[0], m.comparators[0], neg
    return None


def coords_form(ex, c, pts_text):
    """coordinates `X[I, ax]` / `X[I][:, ax]` / `X[:, ax][I]` of the stored points X -> (rows, axis) ; rows may be a Slice"""
    c = ex.origin(c) if ex.kind(c) == "call" else c
    if isinstance(c, ast.Call) and au.call_tail(c) in ("take",) and len(c.args) >= 1:
        return None
    if not isinstance(c, ast.Subscript):
        return None
    if ex.text(c.value) == pts_text and isinstance(c.slice, ast.Tuple) and len(c.slice.elts) == 2:
        return c.slice.elts[0], c.slice.elts[1]
    if isinstance(c.value, ast.Subscript) and ex.text(c.value.value) == pts_text:
        inner, outer = c.value.slice, c.slice
        if isinstance(outer, ast.Tuple) and len(outer.elts) == 2 and isinstance(outer.elts[0], ast.Slice) and not isinstance(inner, ast.Tuple):
            return inner, outer.elts[1]                      # X[I][:, ax]
        if isinstance(inner, ast.Tuple) and len(inner.elts) == 2 and isinstance(inner.elts[0], ast.Slice) and not isinstance(outer, ast.Tuple):
            return outer, inner.elts[1]                      # X[:, ax][I]
    return None


LOW_OPS = (ast.Lt, ast.LtE)
MIRROR = {ast.Lt: ast.Gt, ast.LtE: ast.GtE, ast.Gt: ast.Lt, ast.GtE: ast.LtE}


def orient(ex, m, X):
    """write a mask as `coordinates <op> pivot` whichever side the coordinates were written on"""
    if m is None:
        return None
    c, op, v, neg = m
    if coords_form(ex, c, X) is None and coords_form(ex, v, X) is not None:
        return v, MIRROR[type(op)](), c, neg
    return m


def corner(ex, b, e, P):
    """a corner array handed to AABB(...): (which corner of the popped leaf's box it starts from, [(index, value)] written into it, fresh copy?)"""
    stores = []
    fresh = False
    cur = e
    for _ in range(3):
        t = S.tok_name(cur)
        if t and ex.kind(cur) == "call":
            o = ex.origin(cur)
            tail = au.call_tail(o)
            srcs = None
            if tail in ("copy", "array", "deepcopy", "asarray", "Vec") and len(o.args) >= 1:
                srcs = o.args[0]
            elif tail == "copy" and isinstance(o.func, ast.Attribute) and not o.args:
                srcs = o.func.value
            if srcs is None:
                return None
            if tail not in ("asarray", "Vec"):
                fresh = True
            for ev in b.st.events:
                if ev.kind in ("store", "aug") and isinstance(ev.target, ast.Subscript) and au.src(ev.target.value) == t:
                    stores.append((ev.target.slice, ev.value, ev.kind))
            cur = srcs
            continue
        break
    s = au.src(cur)
    for which in ("mini", "maxi"):
        if s == f"{P}.bb.{which}":
            return which, stores, fresh
    return None


# ------------------------------------------------------------------------------------------------ the rule
def analyse(ctx, site_of, opaque=()):
    """runs the construction obligations; returns the constant id of the root (None when it could not be read)"""
    repo = ctx.repo
    fn = repo.func(KD, "KDTree.__init__")
    site = ctx.site(KD, fn)
    rules = ("C11-T1", "C11-I1", "C11-P1", "C11-A1")
    leaf_fields = dataclass_fields(repo.cls(KD, "KDTree.Leaf"))
    node_fields = dataclass_fields(repo.cls(KD, "KDTree.Node"))
    ex = S.Exec(repo, KD, "KDTree", opaque=set(opaque))
    try:
        states = [s for s in ex.run(fn) if s.end != "raise"]
    except (S.GiveUp, RecursionError) as e:
        for r in rules:
            ctx.undecided(r, site, "the constructor is too branchy for path enumeration", str(e))
        return None
    builds = [Build(ex, s, leaf_fields, node_fields) for s in states]
    iters = [b for b in builds if b.R is not None]
    if not iters:
        for r in rules:
            ctx.undecided(r, site, "construction work-list (a loop that pops a container until it is empty) not recognised in the constructor",
                          "the construction obligations are stated on the iterations of that loop")
        return None
    V = Verdicts(ctx, site)
    root_id = None
    for b in iters:
        root_id = check_iteration(V, ex, b, fn, root_id)
    check_bounded_loops(V, ex, fn, {b.loop for b in iters})
    if getattr(V, "zero_entries", 0):
        if "nodes" in V.res and any(r[1] == "ok" for r in V.res["nodes"]):
            V.fail("nodes", "C11-I1", "a path of the construction loop stores nothing in self.nodes for the element it took from the work-list",
                   "self.nodes[i] must be the node with id i: every element taken from the work-list is stored exactly once")
        else:
            V.und("nodes", "C11-I1", "the construction loop does not fill self.nodes with one append per popped element")
    V.flush()
    return root_id


class Verdicts:
    """collects per-path results of one obligation: any fail -> fail, else any undecided -> undecided, else ok (once)"""

    def __init__(self, ctx, site):
        self.ctx, self.site = ctx, site
        self.res = {}
        self.order = []

    def _put(self, key, rule, kind, construct, what, site=None):
        if key not in self.res:
            self.res[key] = []
            self.order.append(key)
        self.res[key].append((rule, kind, construct, what, site))

    def ok(self, key, rule, note):
        self._put(key, rule, "ok", note, "")

    def fail(self, key, rule, construct, what, site=None):
        self._put(key, rule, "fail", construct, what, site)

    def und(self, key, rule, construct, what=""):
        self._put(key, rule, "und", construct, what)

    def soft(self, key, rule, construct, what=""):
        """undecided on this path only: counts when no other path gave a verdict for the obligation"""
        self._put(key, rule, "soft", construct, what)

    def flush(self):
        for key in self.order:
            rs = self.res[key]
            fails = [r for r in rs if r[1] == "fail"]
            unds = [r for r in rs if r[1] == "und"]
            if not fails and not unds and all(r[1] == "soft" for r in rs):
                unds = rs
            if fails:
                seen = set()
                for r in fails:
                    if r[2] not in seen:
                        seen.add(r[2])
                        self.ctx.fail(r[0], r[4] or self.site, r[2], r[3])
            elif unds:
                self.ctx.undecided(unds[0][0], self.site, unds[0][2], unds[0][3])
            else:
                first = next(r for r in rs if r[1] == "ok")
                self.ctx.ok(first[0], self.site, first[2])
        self.res, self.order = {}, []


def size_of(ex, e, target_text):
    """is `e` the number of entries of the array whose text is target_text ?"""
    o = ex.expand(e)
    if isinstance(o, ast.Attribute) and o.attr == "size" and au.src(o.value) == target_text:
        return True
    if isinstance(o, ast.Call) and au.call_tail(o) == "len" and len(o.args) == 1 and au.src(o.args[0]) == target_text:
        return True
    if isinstance(o, ast.Subscript) and isinstance(o.value, ast.Attribute) and o.value.attr == "shape" and au.const(o.slice) == 0 \
            and au.src(o.value.value) == target_text:
        return True
    return False


def check_iteration(V, ex, b, fn, root_id):
    ctx = V.ctx
    st, P = b.st, b.P
    pushed, sides, unknown_push = b.pushes()
    foreign = b.foreign_calls()
    # ------------------------------------------------ C11-I1 one entry of self.nodes per popped element, carrying its id
    entries = b.node_entries()
    if entries is None or foreign:
        V.und("nodes", "C11-I1", "how the constructor fills self.nodes is not recognised",
              "expected exactly one self.nodes.append(<popped leaf | Node(id=popped.id)>) per iteration"
              + (f"; calls not followed: {sorted({e.tail for e in foreign})}" if foreign else ""))
    elif len(entries) == 0:
        V.zero_entries = getattr(V, "zero_entries", 0) + 1
    elif len(entries) != 1:
        V.fail("nodes", "C11-I1", f"a path of the construction loop adds {len(entries)} entries to self.nodes for one popped element",
               "self.nodes[i] must be the node with id i: every element taken from the work-list is stored exactly once")
    else:
        e = entries[0]
        if S.tok_name(e) == P:
            V.ok("nodes", "C11-I1", "popped leaf stored once")
        elif b.is_new(e, "Node"):
            args = b.ctor_args(e.id, b.node_fields)
            if "**" in args:
                V.und("nodes", "C11-I1", "the inner node is built from an argument dictionary that could not be read")
            elif "id" in args and ex.text(args["id"]) == ex.text(ast.Attribute(value=ast.Name(id=P, ctx=ast.Load()), attr="id", ctx=ast.Load())):
                V.ok("nodes", "C11-I1", "inner node stored under the id of the popped leaf")
            elif "id" in args:
                V.fail("nodes", "C11-I1", "the inner node stored in self.nodes does not carry the id of the leaf it replaces",
                       f"self.nodes[i] must be the node with id i; the node is built with id `{_show(ex, args['id'], P)}`")
            else:
                V.und("nodes", "C11-I1", "id of the inner node not recognised")
            # queries measure the box of inner nodes too
            if "**" in args:
                pass
            elif "bb" in args and ex.text(args["bb"]) == f"{ex.text(_name(P))}.bb":
                V.ok("nodebox", "C11-P1", "inner node keeps the box of the leaf")
            elif "bb" not in args or (isinstance(args["bb"], ast.Constant) and args["bb"].value is None):
                V.fail("nodebox", "C11-P1", "the inner node replacing the split leaf does not keep the leaf's box",
                       "queries measure the distance to self.nodes[child].bb for inner nodes too")
            else:
                V.und("nodebox", "C11-P1", "box of the inner node not recognised")
        else:
            V.und("nodes", "C11-I1", "the entry added to self.nodes is neither the popped leaf nor a KDTree.Node built for it")
    # ------------------------------------------------ C11-I1 FIFO
    pop_left = b.pop.tail == "popleft" or (b.pop.tail == "pop" and len(b.pop.args) == 1 and au.const(b.pop.args[0]) == 0)
    pop_right = b.pop.tail == "pop" and not b.pop.args
    if (pushed or sides) and entries is not None and not foreign:
        if unknown_push or not (pop_left or pop_right):
            V.und("fifo", "C11-I1", "discipline of the construction work-list not recognised")
        elif (pop_left and sides == {"right"}) or (pop_right and sides == {"left"}):
            V.ok("fifo", "C11-I1", "FIFO work-list")
        else:
            V.fail("fifo", "C11-I1", f"the construction work-list is not first-in first-out (`.{b.pop.tail}({', '.join(au.src(a) for a in b.pop.args)})` "
                   f"with {sorted(k for k, v in PUSH.items() if v in sides and any(e.tail == k and e.recv is not None and au.src(e.recv) == b.R for e in S.calls(st)))})",
                   "ids are allotted when a leaf is created and self.nodes is filled in pop order: only a FIFO work-list keeps self.nodes[i].id == i")
    # ------------------------------------------------ C11-I1 fresh consecutive ids
    queued_toks = {S.tok_name(v) for v in pushed} | {S.tok_name(v) for v in b.initial()[0]}
    leaves = [ev for ev in S.calls(st) if ev.tok and b.is_new(ast.Name(id=ev.tok, ctx=ast.Load()), "Leaf") and ev.tok in queued_toks]
    ids = []
    counter = None
    for ev in leaves:
        a = b.ctor_args(ev.tok, b.leaf_fields).get("id")
        raw = None
        for i, x in enumerate(ev.node.args):
            if i < len(b.leaf_fields) and b.leaf_fields[i] == "id":
                raw = x
        for kw in ev.node.keywords:
            if kw.arg == "id":
                raw = kw.value
        if raw is not None and au.is_self_attr(raw):
            counter = "self." + raw.attr
        ids.append(poly(a) if a is not None else None)
    if leaves:
        if counter is None or any(i is None for i in ids):
            V.und("ids", "C11-I1", "how a new leaf gets its id is not recognised (expected the current value of a counter attribute)")
        else:
            dup = any(ids[i] == ids[j] for i in range(len(ids)) for j in range(i + 1, len(ids)))
            final = poly(st.heap[counter]) if counter in st.heap else None
            if dup:
                V.fail("ids", "C11-I1", "two leaves created in a row get the same id (the id counter is not advanced between them)",
                       "node ids must be fresh and consecutive: self.nodes[id] is how every query reaches a node")
            elif final is None:
                V.und("ids", "C11-I1", "value of the id counter after the creation of a leaf not recognised")
            elif not (final - ids[-1] == sym.Poly.const(1)) or any(not (ids[i + 1] - ids[i] == sym.Poly.const(1)) for i in range(len(ids) - 1)):
                V.fail("ids", "C11-I1", "the id counter is not advanced by exactly one for every created leaf",
                       f"ids must be consecutive (self.nodes is filled in creation order): ids {[repr(i) for i in ids]}, counter afterwards {final!r}")
            else:
                V.ok("ids", "C11-I1", f"fresh consecutive ids from {counter}")
    # ------------------------------------------------ root (read on every path: same prefix)
    init, unk = b.initial()
    if unk or len(init) != 1 or not b.is_new(init[0], "Leaf"):
        if not unk and len(init) != 1:
            V.fail("root", "C11-I1", f"the work-list starts with {len(init)} elements instead of exactly the root leaf",
                   "construction must process the root first (its id is stored at index 0)")
        else:
            V.und("root", "C11-I1", "initial content of the construction work-list not recognised (expected one leaf built by the constructor)")
    else:
        rargs = b.ctor_args(init[0].id, b.leaf_fields)
        rid = au.const(ex.expand(rargs.get("id"))) if rargs.get("id") is not None else None
        p = poly(rargs["id"]) if rargs.get("id") is not None else None
        if p is not None and p.is_const():
            rid = int(p.const_value())
        if rid is None:
            V.und("root", "C11-I1", "id of the root leaf is not a constant")
        else:
            root_id = rid
            V.ok("root", "C11-I1", f"work-list starts with the root leaf (id {rid})")
        check_root(V, ex, b, rargs, init[0].id)
    if not pushed:
        return root_id
    # ------------------------------------------------ children
    kids = [v for v in pushed if b.is_new(v, "Leaf") and S.tok_name(v) != S.tok_name(init[0] if init else None)]
    if any(S.tok_name(v) == P for v in pushed) and any(k.startswith(P + ".") for k in st.heap):
        V.und("requeue", "C11-T1", "the popped leaf is modified and put back on the work-list", "termination of such a retry is not decided")
        return root_id
    if any(S.tok_name(v) == P for v in pushed):
        V.fail("requeue", "C11-T1", "a path of the construction loop puts the popped leaf back on the work-list unchanged",
               "the same leaf is popped again and again: construction never terminates")
        return root_id
    if len(kids) != len(pushed) or len(kids) != 2:
        V.und("children", "C11-P1", "the elements queued by a splitting iteration are not two leaves created in that iteration")
        return root_id
    created = [ev.tok for ev in leaves]
    if [k.id for k in kids] != [t for t in created if t in {k.id for k in kids}]:
        V.fail("order", "C11-I1", "children are queued in another order than they were created",
               "the child created first has the smaller id and must be popped (hence stored) first")
    else:
        V.ok("order", "C11-I1", "children queued in creation order")
    cargs = [b.ctor_args(k.id, b.leaf_fields) for k in kids]
    check_split(V, ex, b, kids, cargs, entries)
    return root_id


def _name(t):
    return ast.Name(id=t, ctx=ast.Load())


def _show(ex, e, P=None):
    s = ex.text(e)
    if P:
        s = s.replace(ex.text(_name(P)), "leaf")
    return s if len(s) < 160 else s[:157] + "..."


def pts_text(ex, st):
    v = st.heap.get("self.points")
    return ex.text(v) if v is not None else "self.points"


def check_root(V, ex, b, rargs, rtok):
    st = b.st
    X = pts_text(ex, st)
    pts = rargs.get("points")
    o = ex.expand(pts) if pts is not None else None
    n_forms = {f"{X}.shape[0]", f"len({X})", "self.n_pts", f"{X}.__len__()"}
    npts = st.heap.get("self.n_pts")
    if npts is not None:
        n_forms.add(ex.text(npts))
    if isinstance(o, ast.Call) and au.call_tail(o) == "arange" and len(o.args) == 1 and not o.keywords:
        try:
            pl = sym.to_poly(o.args[0], atom_of=lambda n: "N" if au.src(n) in n_forms else None, opaque=False)
        except sym.NotPoly:
            pl = None
        if pl is not None and pl == sym.Poly.atom("N"):
            V.ok("rootpts", "C11-P1", "root holds arange(number of points)")
        elif pl is not None and (pl.is_const() or ((pl - sym.Poly.atom("N")).is_const() and pl.atoms() == {"N"})):
            V.fail("rootpts", "C11-P1", "the root leaf does not hold np.arange(number of points)",
                   f"it holds np.arange({_show(ex, o.args[0])}): every input point must be stored in exactly one leaf, the root must start with all indices")
        else:
            V.und("rootpts", "C11-P1", "the length of the index array of the root leaf is not recognised as the number of points")
    else:
        V.und("rootpts", "C11-P1", "the index array of the root leaf is not recognised (expected np.arange(number of points))")
    ax = rargs.get("split_axis")
    if ax is not None and isinstance(au.const(ex.expand(ax)), int) and au.const(ex.expand(ax)) != 0:
        V.fail("rootaxis", "C11-P1", f"root split axis is the constant {au.const(ex.expand(ax))}", "only axis 0 exists for every dimension >= 1")
    box = rargs.get("bb")
    check_own_box(V, ex, b, "rootbox", box, pts, X, root=True)


def check_own_box(V, ex, b, key, box, pts, X, root=False):
    """a box that does not come from cutting the parent's: all of space, or the tight box of the leaf's own points"""
    o = ex.expand(box, depth=1) if box is not None else None
    who = "root" if root else "child"
    if isinstance(o, ast.Call) and au.call_name(o) and au.call_name(o).endswith("AABB.infinite"):
        V.ok(key, "C11-P1", f"{who} box is all of space")
        return True
    if isinstance(o, ast.Call) and au.call_name(o) and au.call_name(o).endswith("AABB.of_points") and len(o.args) == 1:
        a = ex.text(o.args[0])
        own = {X, f"{X}[{ex.text(pts)}]", f"{X}[{ex.text(pts)}, :]"} if pts is not None else {X}
        if a in own or (root and a in (X, "points")):
            V.ok(key, "C11-P1", f"{who} box is the bounding box of its own points")
            return True
        V.und(key, "C11-P1", f"the {who} box is the bounding box of points that are not recognised as those the leaf holds")
        return True
    if o is None or (isinstance(o, ast.Constant) and o.value is None):
        if root:
            V.fail(key, "C11-P1", "the root leaf gets no box", "the root box must contain every point, the children boxes are cut out of it")
            return True
        return False
    if root and isinstance(o, ast.Call) and (au.call_name(o) or "").endswith("AABB.unit_cube"):
        V.fail(key, "C11-P1", "the root box is the unit cube, neither AABB.infinite(dim) nor AABB.of_points(points)",
               "the root box must contain every point, the children boxes are cut out of it")
        return True
    if root:
        V.und(key, "C11-P1", "the root box is neither AABB.infinite(dim) nor AABB.of_points(points): whether it contains every point is not decided")
        return True
    return False


# ------------------------------------------------------------------------------------------------ a splitting iteration
def check_split(V, ex, b, kids, cargs, entries):
    st, P = b.st, b.P
    Pn = _name(P)
    X = pts_text(ex, st)
    Ppts = ex.text(ast.Attribute(value=Pn, attr="points", ctx=ast.Load()))
    parts = [a.get("points") for a in cargs]
    # ---------------- C11-P1 the two point sets are complementary selections of the popped leaf's indices
    sel = [selection(ex, p) if p is not None else None for p in parts]
    info = None
    if None in sel:
        V.und("partition", "C11-P1", "the point sets of the two children are not mask selections (np.extract(mask, idx) / idx[mask]) of an index array",
              "every point of the split leaf must land in exactly one child")
    else:
        masks = [orient(ex, mask_form(ex, m), X) for m, _ in sel]
        idx = [ex.text(i) for _, i in sel]
        if idx[0] == idx[1] and idx[0] != Ppts:
            V.und("partition", "C11-P1", "the index array the children select from is not recognised as the indices of the leaf being split")
        elif idx[0] != idx[1]:
            V.fail("partition", "C11-P1", "the two children do not select from the same index array, the indices of the leaf being split",
                   f"selected from `{_show(ex, sel[0][1], P)}` and `{_show(ex, sel[1][1], P)}`: a point selected by neither is lost, a point selected by both is stored twice")
        elif None in masks:
            V.und("partition", "C11-P1", "the masks selecting the children's points are not comparisons `coordinates <op> pivot`")
        else:
            (c0, o0, v0, n0), (c1, o1, v1, n1) = masks
            same_operands = ex.text(c0) == ex.text(c1) and ex.text(v0) == ex.text(v1)
            low0 = isinstance(o0, LOW_OPS) != n0
            low1 = isinstance(o1, LOW_OPS) != n1
            # complementary: one is the negation of the other
            def strict(o, n):
                # truth set written as (below?, includes equality?)
                below = isinstance(o, LOW_OPS) != n
                eq = isinstance(o, (ast.LtE, ast.GtE)) != n
                return below, eq
            comp = same_operands and strict(o0, n0)[0] != strict(o1, n1)[0] and strict(o0, n0)[1] != strict(o1, n1)[1]
            if not comp:
                V.fail("partition", "C11-P1", "the two children are not selected by complementary masks",
                       f"masks `{'~' if n0 else ''}({_show(ex, ast.Compare(left=c0, ops=[o0], comparators=[v0]), P)})` and "
                       f"`{'~' if n1 else ''}({_show(ex, ast.Compare(left=c1, ops=[o1], comparators=[v1]), P)})`: "
                       "a point selected by neither mask is lost, a point selected by both is stored in two leaves")
            else:
                cf = coords_form(ex, c0, X)
                if cf is None:
                    V.und("partition", "C11-P1", "the coordinates compared with the pivot are not `self.points[idx, axis]`")
                elif not isinstance(cf[0], ast.Slice) and ex.text(cf[0]) != Ppts:
                    V.und("partition", "C11-P1", "the rows the mask is computed on are not recognised as the leaf's own points")
                elif isinstance(cf[0], ast.Slice):
                    V.fail("partition", "C11-P1", "the mask is not computed on the rows of the leaf's own points",
                           f"coordinates `{_show(ex, c0, P)}`: a mask computed on other rows is not aligned with the index array it selects from")
                else:
                    # the coordinates the mask is computed from must not be reordered in place in between (np.ndarray.sort / partition ...)
                    ctext = au.src(c0)
                    inplace = [ev for ev in st.events if ev.kind == "call" and b.inside(ev) and (
                        (ev.tail in ("sort", "partition", "fill", "put", "resize", "itemset", "byteswap") and ev.recv is not None and au.src(ev.recv) == ctext)
                        or (ev.tail in ("shuffle",) and ev.args and au.src(ev.args[0]) == ctext))]
                    if inplace:
                        V.fail("partition", "C11-P1", f"the coordinates the mask is computed from are reordered in place (.{inplace[0].tail}) before the mask is built",
                               "the mask is no longer aligned with the index array it selects from: points go to the wrong child and the boxes do not contain them")
                    else:
                        V.ok("partition", "C11-P1", "complementary masks of the leaf's own coordinates")
                    info = {"axis": cf[1], "value": v0, "low": [low0, low1]}
    # ---------------- C11-T1 children are queued only when both parts are non-empty (a mask selection may be empty)
    if None not in sel:
        check_termination(V, ex, b, parts)
    else:
        V.und("nonempty", "C11-T1", "the parts given to the children are not mask selections: whether one of them can be empty is not decided")
    # ---------------- C11-O1 leaf criterion
    check_leaf_test(V, ex, b)
    # ---------------- C11-S1 node.left / node.right
    if entries and len(entries) == 1 and b.is_new(entries[0], "Node"):
        nargs = b.ctor_args(entries[0].id, b.node_fields)
        lr = []
        for f in ("left", "right"):
            v = nargs.get(f)
            t = None
            if isinstance(v, ast.Attribute) and v.attr == "id" and S.tok_name(v.value):
                t = v.value.id
            elif v is not None:
                for k, a in zip(kids, cargs):
                    if a.get("id") is not None and ex.text(a["id"]) == ex.text(v):
                        t = k.id
            lr.append(t)
        want = {k.id for k in kids}
        if None in lr:
            missing = [f for f in ("left", "right") if nargs.get(f) is None or (isinstance(nargs.get(f), ast.Constant) and nargs[f].value is None)]
            if len(missing) == 1:
                V.fail("lr", "C11-S1", f"the inner node records one child only (its {missing[0]} child is never set)",
                       "queries reach the points of a split leaf only through node.left / node.right")
            else:
                V.und("lr", "C11-S1", "left / right of the inner node are not recognised as ids of the queued children")
        elif set(lr) != want:
            V.fail("lr", "C11-S1", "left and right of the inner node are not the ids of the two queued children",
                   "queries reach the points of a split leaf only through node.left / node.right: a child that is not referenced is never visited")
        else:
            V.ok("lr", "C11-S1", "node.left / node.right are the two children ids")
            # facts the queries may rely on when they prune with the splitting plane instead of the boxes:
            # which child holds the points with coordinate <= split value, and that the node records the plane the points were split at
            if info is not None:
                low_of = {k.id: info["low"][i] for i, k in enumerate(kids)}
                plane = getattr(V.ctx, "_hg_kd_plane", {"left_low": set(), "recorded": set()})
                plane["left_low"].add(low_of.get(lr[0]))
                ax, val = nargs.get("split_axis"), nargs.get("split_value")
                plane["recorded"].add(ax is not None and val is not None and ex.text(ax) == ex.text(info["axis"]) and ex.text(val) == ex.text(info["value"]))
                V.ctx._hg_kd_plane = plane
    # ---------------- child axis stays a column
    dim = st.heap.get("self.dim")
    for k, a in zip(kids, cargs):
        ax = a.get("split_axis")
        o = ex.expand(ax) if ax is not None else None
        if isinstance(o, ast.BinOp) and isinstance(o.op, ast.Mod):
            d = au.src(o.right)
            okd = (dim is not None and d == ex.text(dim)) or d == "self.dim" or d == f"{X}.shape[1]"
            if okd:
                V.ok("axis", "C11-P1", "child axis reduced modulo the number of columns")
            else:
                V.und("axis", "C11-P1", "the modulus of the child axis is not recognised as the number of columns of the points")
        elif o is not None and info is not None:
            pa, pb = poly(o), poly(ex.expand(info["axis"]))
            if pa is not None and pb is not None and (pa - pb).is_const() and (pa - pb).const_value() != 0:
                V.fail("axis", "C11-P1", "the split axis of a child is the parent's axis plus a constant, not reduced modulo the number of columns",
                       "below depth dim the axis would index a column that does not exist")
    # ---------------- boxes (C11-P1) and in-place writes (C11-A1)
    check_boxes(V, ex, b, kids, cargs, info, X)


def check_termination(V, ex, b, parts):
    st = b.st
    if None in parts:
        return
    texts = [ex.text(p) for p in parts]

    def sym_of(node):
        for i, t in enumerate(texts):
            if size_of(ex, node, t):
                return "ab"[i]
        return None

    free_atoms, foreign = [], []

    class NotNum(Exception):
        pass

    def numv(e, env):
        """value of a size expression: sizes of the two parts, constants, min / max / + / * of those"""
        s_ = sym_of(e)
        if s_:
            return env[s_] if env is not None else 0
        c = au.const(e)
        if isinstance(c, (int, float)) and not isinstance(c, bool):
            return c
        o = ex.origin(e) if ex.kind(e) == "call" else e
        if isinstance(o, ast.Call) and au.call_tail(o) in ("min", "max") and o.args and not o.keywords:
            vals = [numv(a, env) for a in (o.args if len(o.args) > 1 else (o.args[0].elts if isinstance(o.args[0], (ast.Tuple, ast.List)) else [o.args[0]]))]
            return min(vals) if au.call_tail(o) == "min" else max(vals)
        if isinstance(o, ast.BinOp) and isinstance(o.op, (ast.Add, ast.Mult)):
            a, b_ = numv(o.left, env), numv(o.right, env)
            return a + b_ if isinstance(o.op, ast.Add) else a * b_
        raise NotNum()

    def is_size_expr(e):
        try:
            numv(e, None)
        except NotNum:
            return False
        return any(sym_of(n) for n in ast.walk(ex.expand(e, depth=1))) or bool(sym_of(e))

    def leaf_kind(t, kind):
        """'size' for a test on the size of a child's part, else registers a free boolean (foreign when it could hide a non-emptiness argument)"""
        if isinstance(t, ast.Compare) and len(t.ops) == 1 and type(t.ops[0]) in order.CMP:
            l, r = t.left, t.comparators[0]
            if (is_size_expr(l) or is_size_expr(r)) and all(is_size_expr(x) or isinstance(au.const(x), (int, float)) for x in (l, r)):
                return "size"
        if is_size_expr(t):
            return "size"
        k = au.src(t)
        if k not in free_atoms:
            free_atoms.append(k)
            txt = ex.text(t)
            benign = kind in ("loop", "loop-exit", "except") or "max_leaf_size" in txt or is_counterish(ex, t, texts)
            if not benign:
                foreign.append(txt)
        return "free"

    def scan(t, kind):
        if isinstance(t, ast.BoolOp):
            for v in t.values:
                scan(v, kind)
        elif isinstance(t, ast.UnaryOp) and isinstance(t.op, ast.Not):
            scan(t.operand, kind)
        else:
            leaf_kind(t, kind)

    def tv(t, env, free):
        if isinstance(t, ast.BoolOp):
            vs = [tv(v, env, free) for v in t.values]
            return all(vs) if isinstance(t.op, ast.And) else any(vs)
        if isinstance(t, ast.UnaryOp) and isinstance(t.op, ast.Not):
            return not tv(t.operand, env, free)
        if isinstance(t, ast.Compare) and len(t.ops) == 1 and type(t.ops[0]) in order.CMP:
            l, r = t.left, t.comparators[0]
            if (is_size_expr(l) or is_size_expr(r)) and all(is_size_expr(x) or isinstance(au.const(x), (int, float)) for x in (l, r)):
                return order.CMP[type(t.ops[0])](numv(l, env), numv(r, env))
        if is_size_expr(t):
            return numv(t, env) != 0
        return free[au.src(t)]

    conds = [(c[0], c[1], c[3]) for c in st.conds]
    for t, pol, kind in conds:
        scan(t, kind)
    if len(free_atoms) > 12:
        V.und("nonempty", "C11-T1", "too many conditions on a splitting path")
        return
    bad = None
    for a, bb in ((0, 1), (1, 0), (0, 0)):
        env = {"a": a, "b": bb}
        for fv in itertools.product((False, True), repeat=len(free_atoms)):
            free = dict(zip(free_atoms, fv))
            try:
                if all(bool(tv(t, env, free)) == pol for t, pol, kind in conds):
                    bad = env
                    break
            except Exception:
                V.und("nonempty", "C11-T1", "a condition of a splitting path cannot be evaluated")
                return
        if bad:
            break
    if bad is None:
        V.ok("nonempty", "C11-T1", "children are queued only when both parts of the split are non-empty")
    elif foreign:
        V.und("nonempty", "C11-T1", "children are queued under a condition that is not about the sizes of the two parts",
              "cannot tell whether it excludes an empty part")
    else:
        V.fail("nonempty", "C11-T1", "the construction loop queues the two children although one part of the split may be empty",
               "more than max_leaf_size identical points can never be separated by a pivot: every split returns the whole set on one side, "
               "the child holding everything is the leaf itself and is split again for ever (12 identical points with max_leaf_size=10 never return)")


def is_counterish(ex, t, part_texts):
    """a test that only involves counters / dimensions / sizes of *other* arrays (retry bookkeeping): it cannot establish that a part is non-empty"""
    txt = ex.text(t)
    if any(p in txt for p in part_texts):
        return False
    for n in ast.walk(ex.expand(t)):
        if isinstance(n, ast.Call) and au.call_tail(n) not in ("len", "range", "min", "max", "$elem", "extract", "compress", "_find_pivot", "array",
                                                               "popleft", "pop", "deque", "logical_not"):
            return False
    return True


def check_leaf_test(V, ex, b):
    st, P = b.st, b.P
    Pt = ex.text(_name(P))
    forms = {f"{Pt}.size": "size", f"len({Pt}.points)": "size", f"{Pt}.points.size": "size", f"{Pt}.points.shape[0]": "size",
             "max_leaf_size": "max_leaf_size"}

    def s(node):
        t = ex.text(node)
        if t in forms:
            return forms[t]
        if isinstance(node, ast.BinOp):
            raise order.Unsupported(t)
        return t
    mine = [(t, pol) for t, pol, kind in S.flat_conds(st) if "max_leaf_size" in {n.id for n in ast.walk(t) if isinstance(n, ast.Name)}]
    if not mine:
        V.und("leaftest", "C11-O1", "a splitting path of the construction loop does not test the size of the leaf against max_leaf_size")
        return
    try:
        code = U.conj(mine)
        syms = order.Pred(s).collect(code).symbols
        if not syms <= {"size", "max_leaf_size"}:
            V.und("leaftest", "C11-O1", "operands of the leaf test not recognised")
            return
        r = U.relate(code, "size <= max_leaf_size", s)
        # contradiction: the leaf is split only when it is small enough to be kept
        if r["code_not_spec"] is None and r["spec_not_code"] is not None or (r["code_not_spec"] is None and r["n"]):
            sat = any(True for _ in [0]) and U.relate(code, "size != size", s)["code_not_spec"] is not None
            if sat:
                V.fail("leaftest", "C11-O1", "a leaf is split only when its size is <= max_leaf_size",
                       f"`{_show(ex, code, P)}`: the documented leaf criterion is reversed, leaves larger than max_leaf_size are kept, small ones are split")
                return
        V.ok("leaftest", "C11-O1", "leaves are split only when larger than max_leaf_size")
    except order.Unsupported:
        V.und("leaftest", "C11-O1", "leaf test is not a comparison of the leaf size with max_leaf_size")


def check_boxes(V, ex, b, kids, cargs, info, X):
    st, P = b.st, b.P
    Pt = ex.text(_name(P))
    # ---- C11-A1: subscript stores of the iteration must go to fresh arrays
    n_store = 0
    for ev in st.events:
        if ev.kind not in ("store", "aug") or not b.inside(ev) or not isinstance(ev.target, ast.Subscript):
            continue
        base = ev.target.value
        bt = ex.text(base)
        if ".bb" not in bt and "mini" not in bt and "maxi" not in bt:
            continue
        n_store += 1
        root = base
        while isinstance(root, (ast.Attribute, ast.Subscript)):
            root = root.value
        t = S.tok_name(root)
        fresh, shared = False, False
        if t and ex.kind(root) == "call":
            o = ex.origin(root)
            if root is base:
                fresh = U.is_fresh(o, ("np", "numpy"))
                shared = not fresh and au.call_tail(o) in ("Vec", "asarray", "asanyarray", "view", "ravel", "reshape", "squeeze")
            else:
                fresh = au.call_tail(o) in ("deepcopy",)
        if t == P or (t and ex.kind(root) == "carried"):
            shared = True
        if fresh:
            V.ok("fresh", "C11-A1", "corner arrays are written on fresh copies")
        elif not shared:
            V.und("fresh", "C11-A1", "an array written in the construction loop is neither a recognised fresh copy nor a corner of an existing box")
        else:
            V.fail("fresh", "C11-A1", "a corner array of an existing box is written in place, not a fresh copy of it",
                   "AABB keeps views of the arrays it is given: writing into the parent's corner moves the box of every node sharing it "
                   "(all ancestors and the sibling), and every later query prunes with wrong boxes")
    # ---- C11-P1 boxes of the children
    for i, (k, a) in enumerate(zip(kids, cargs)):
        box = a.get("bb")
        key = "box"
        if check_own_box(V, ex, b, key, box, a.get("points"), X):
            continue
        if box is None or (isinstance(box, ast.Constant) and box.value is None):
            V.und(key, "C11-P1", "a queued child has no box at the end of the iteration", "queries call self.nodes[child].bb.distance(pt) for every child")
            continue
        o = ex.origin(box) if ex.kind(box) == "call" else None
        if not (isinstance(o, ast.Call) and au.call_tail(o) == "AABB" and len(o.args) + len(o.keywords) == 2):
            V.und(key, "C11-P1", "the box of a child is not built by AABB(lower, upper)")
            continue
        lo = o.args[0] if o.args else next((kw.value for kw in o.keywords if kw.arg in ("p_min", "pmin", "mini", "lower")), None)
        hi = o.args[1] if len(o.args) > 1 else next((kw.value for kw in o.keywords if kw.arg in ("p_max", "pmax", "maxi", "upper")), None)
        if lo is None or hi is None or info is None:
            V.und(key, "C11-P1", "corners of a child box / the split they should follow are not recognised")
            continue
        cl, ch = corner(ex, b, lo, P), corner(ex, b, hi, P)
        if cl is None or ch is None:
            V.und(key, "C11-P1", "a corner of a child box is not (a copy of) a corner of the parent's box")
            continue
        low = info["low"][i]
        side = "low" if low else "high"
        kept, cut = (cl, ch) if low else (ch, cl)
        want_kept, want_cut = ("mini", "maxi") if low else ("maxi", "mini")
        ax_t, val_t = ex.text(info["axis"]), ex.text(info["value"])
        problems = []
        if cl[0] != "mini" or ch[0] != "maxi":
            problems.append(f"corners taken from ({cl[0]}, {ch[0]}) of the parent's box instead of (mini, maxi)")
        if kept[1]:
            problems.append(f"the {want_kept} corner, which bounds the {side} side away from the cut, is modified")
        if len(cut[1]) != 1:
            problems.append(f"the {want_cut} corner is moved {len(cut[1])} times (the points of the {side} side lie "
                            f"{'below' if low else 'above'} the split value along the split axis: exactly that coordinate must move)")
        else:
            ix, val, kind = cut[1][0]
            if ex.text(ix) != ax_t:
                problems.append(f"cut along `{_show(ex, ix, P)}` but the points were split along `{_show(ex, info['axis'], P)}`")
            if ex.text(val) != val_t or kind != "store":
                problems.append(f"cut at `{_show(ex, val, P)}` but the points were split at `{_show(ex, info['value'], P)}`")
        if problems:
            V.fail(key, "C11-P1", f"box of the {side}-side child is not the parent's box with its {want_cut} corner moved to the split value along the split axis",
                   "; ".join(problems) + ": the child's box must contain all of its points and be cut where the points were cut; a wrong box makes both "
                   "queries prune subtrees that hold answers")
        else:
            V.ok(key, "C11-P1", f"{side} child: parent box with {want_cut}[axis] = split value")



def check_bounded_loops(V, ex, fn, worklist_loops):
    """C11-T1: every other `while` loop of the construction is bounded by a counter that advances at every turn"""
    seen, todo, loops = set(), [fn], []
    while todo:
        f = todo.pop()
        if id(f) in seen:
            continue
        seen.add(id(f))
        for n in au.walk(f):
            if isinstance(n, ast.While) and id(n) not in worklist_loops:
                loops.append(n)
            if isinstance(n, ast.Call) and isinstance(n.func, ast.Attribute) and isinstance(n.func.value, ast.Name) \
                    and n.func.attr in ex.methods and n.func.attr not in ex.opaque:
                todo.append(ex.methods[n.func.attr])
    for w in loops:
        assigned = set()
        for n in au.walk(ast.Module(body=w.body, type_ignores=[])):
            for t in (n.targets if isinstance(n, ast.Assign) else [n.target] if isinstance(n, (ast.AugAssign, ast.AnnAssign, ast.For)) else []):
                assigned.update(au.assigned_names(t))
        counters = set()
        for st_ in w.body:
            inc = au.increment(st_)
            if inc and inc[1] == 1 and isinstance(au.const(inc[2]), (int, float)) and au.const(inc[2]) > 0 and inc[0].isidentifier():
                counters.add(inc[0])
        exits = []
        t = w.test
        exits.extend(t.values if isinstance(t, ast.BoolOp) and isinstance(t.op, ast.And) else [t])
        for n in au.walk(ast.Module(body=w.body, type_ignores=[])):
            if isinstance(n, ast.If) and n.body and isinstance(n.body[-1], (ast.Break, ast.Return, ast.Raise)) \
                    and not any(isinstance(a, (ast.For, ast.While)) and a is not w for a in au.ancestors(n) if a is not w and w in list(au.ancestors(a))):
                exits.extend(n.test.values if isinstance(n.test, ast.BoolOp) and isinstance(n.test.op, ast.Or) else [n.test])
        bounded = False
        weak = False

        def counter_compare(e):
            e2, _ = au.strip_not(e, True)
            if isinstance(e2, ast.Compare) and len(e2.ops) == 1 and isinstance(e2.ops[0], (ast.Lt, ast.LtE, ast.Gt, ast.GtE)):
                sides = [e2.left, e2.comparators[0]]
                for a, b_ in (sides, sides[::-1]):
                    if isinstance(a, ast.Name) and a.id in counters and not (au.names(b_) & assigned):
                        return True
            return False
        for e in exits:
            if counter_compare(e):
                bounded = True
            elif any(counter_compare(x) for x in ast.walk(e) if isinstance(x, (ast.Compare, ast.UnaryOp))):
                weak = True         # the bound on the counter only counts together with another condition
        # a container emptied by the loop (popped at every turn, never refilled) bounds it as well
        tnames = au.names(w.test)
        for nme in tnames:
            pops = [c for st_ in w.body for c in au.calls(st_) if isinstance(c.func, ast.Attribute) and isinstance(c.func.value, ast.Name)
                    and c.func.value.id == nme and c.func.attr in ("pop", "popleft") and any(c is x for x in au.calls(st_)) and st_ in w.body]
            refills = [c for c in au.calls(ast.Module(body=w.body, type_ignores=[])) if isinstance(c.func, ast.Attribute) and isinstance(c.func.value, ast.Name)
                       and c.func.value.id == nme and c.func.attr in ("append", "appendleft", "extend", "extendleft", "insert", "add")]
            if pops and not refills and nme not in assigned:
                bounded = True
        # a loop that draws the split again: its test reads values that its body computes again by calling a method of the class
        redrawn = set()
        for n in au.walk(ast.Module(body=w.body, type_ignores=[])):
            if isinstance(n, ast.Assign) and isinstance(n.value, ast.Call) and isinstance(n.value.func, ast.Attribute) \
                    and isinstance(n.value.func.value, ast.Name) and n.value.func.value.id == "self":
                for t in n.targets:
                    redrawn.update(au.assigned_names(t))
        retry = bool(redrawn & au.names(w.test))
        other_exits = [e for e in exits if not (au.names(e) & redrawn) and not any(counter_compare(x) for x in ast.walk(e))]
        if not bounded and retry and (weak or not other_exits):
            V.fail("bounded", "C11-T1", "a loop of the construction that draws the split again is not bounded by its number of tries"
                   + (" (the bound on the counter only applies together with another condition)" if weak else ""),
                   "the pivot is a random draw for some strategies and some point sets can never be separated (identical points): a retry loop whose "
                   "exit depends on the outcome of the draw, or on a test of the data, need not terminate - the number of tries must bound it on its own")
            continue
        if bounded:
            V.ok("bounded", "C11-T1", "retry loop bounded by a counter")
        else:
            V.und("bounded", "C11-T1", "a `while` loop of the construction (other than the work-list loop) has no recognisable bound",
                  "expected a counter advanced at every turn and compared with a limit: termination of the loop is not decided")
