"""C04 helper: what text does an exporter emit?

A small abstract interpretation of a (flattened, see hc_flat) exporter gives the text written to the file as a tree

    Lit(text) | Lf(leaf) | Rep(target, iter, ifs, body, sep) | Alt(test, a, b) | Unk(node)

whatever way the code builds it: one `write` per line or several, `'..'.format` / f-strings / `+` / `%`, `sep.join(..)` over a
comprehension, a local string built with `+=` (also inside an inner loop), lists of lines written with `writelines` / `''.join`,
`print(.., file=f)`, conditional expressions, early `continue` / `return`.  The rules then read *lines* and *tokens* off the tree
instead of matching statement shapes.  Anything the interpreter does not model becomes `Unk`: the rules answer `undecided` there.
Nothing is executed."""
from __future__ import annotations
import ast
from .. import au, sym
from . import codec_c04 as cc

OUT = "@out"
MAX_VARIANTS = 64


class Lit:
    def __init__(self, text):
        self.text = text

    def __repr__(self):
        return f"Lit({self.text!r})"


class Lf:
    def __init__(self, leaf):
        self.leaf = leaf

    def __repr__(self):
        return f"Lf({au.src(self.leaf.expr)}{'' if self.leaf.plain() else ':' + str(self.leaf.spec)})"


class Rep:
    def __init__(self, target, it, ifs, body, sep, node):
        self.target, self.iter, self.ifs, self.body, self.sep, self.node = target, it, ifs, body, sep, node
        self.partial = False

    def __repr__(self):
        return f"Rep({au.src(self.target)} in {au.src(self.iter)}{' sep=' + repr(self.sep) if self.sep is not None else ''}: {self.body})"


class Alt:
    def __init__(self, test, a, b, node=None):
        self.test, self.a, self.b, self.node = test, a, b, node

    def __repr__(self):
        return f"Alt({au.src(self.test)} ? {self.a} : {self.b})"


class Unk:
    def __init__(self, node, why=""):
        self.node, self.why = node, why

    def __repr__(self):
        return f"Unk({au.src(self.node)[:40] if isinstance(self.node, ast.AST) else self.node})"


class El:
    """one element of a list of strings"""

    def __init__(self, items):
        self.items = items

    def __repr__(self):
        return f"El({self.items})"


class Phi:
    """value of a local that depends on the path: `x = A` under test, `x = B` otherwise"""

    def __init__(self, test, a, b):
        self.test, self.a, self.b = test, a, b


class _Mark:
    def __init__(self, name):
        self.name = name


def _leaves_block(body):
    """does every path through body end in continue / break / return / raise?"""
    if not body:
        return False
    last = body[-1]
    if isinstance(last, (ast.Continue, ast.Break, ast.Return, ast.Raise)):
        return True
    if isinstance(last, ast.If) and last.orelse:
        return _leaves_block(last.body) and _leaves_block(last.orelse)
    return False


def _contains_leave(body):
    for st in body:
        for n in au.walk(st):
            if isinstance(n, (ast.Continue, ast.Break, ast.Return, ast.Raise)):
                # a continue / break of an inner loop does not leave this block
                inner = False
                for a in au.ancestors(n):
                    if a is st:
                        break
                    if isinstance(a, (ast.For, ast.While)):
                        inner = True
                if isinstance(st, (ast.For, ast.While)) and not isinstance(n, (ast.Return, ast.Raise)):
                    inner = True
                if not inner:
                    return True
    return False


class Emitter:
    def __init__(self, fn):
        self.fn = fn
        self.b = sym.Bindings(fn)

    def run(self):
        env = {OUT: ("str", [])}
        self.handles = set()
        for n in au.walk(self.fn):
            if isinstance(n, (ast.With, ast.AsyncWith)):
                for it in n.items:
                    if it.optional_vars is not None and isinstance(it.context_expr, ast.Call) and au.call_tail(it.context_expr) == "open":
                        self.handles |= set(au.assigned_names(it.optional_vars))
            if isinstance(n, ast.Assign) and isinstance(n.value, ast.Call) and au.call_tail(n.value) == "open":
                for t in n.targets:
                    self.handles |= set(au.assigned_names(t))
        self.block(self.fn.body, env, 0)
        out = env[OUT][1]
        if not self.handles:
            out = out + [Unk(self.fn, "no file opened by the exporter itself: where the text goes is not known")]
        return out

    def escapes(self, node, allowed=()):
        """the file handle is used in `node` other than as the receiver of write / writelines / print(file=..)"""
        ok = set(id(x) for x in allowed)
        for n in au.walk(node):
            if isinstance(n, ast.Name) and n.id in self.handles and isinstance(n.ctx, ast.Load) and id(n) not in ok:
                p = au.parent(n)
                if isinstance(p, ast.Attribute) and p.attr in ("write", "writelines", "flush", "close", "closed", "name"):
                    continue
                if isinstance(p, ast.keyword) and p.arg == "file":
                    continue
                return True
        return False

    # ------------------------------------------------------------------ text expressions
    def text(self, e, env):
        """items of a text-valued expression, None when `e` is not recognisably text"""
        if isinstance(e, ast.Constant):
            return ([Lit(e.value)] if e.value else []) if isinstance(e.value, str) else None
        if isinstance(e, ast.JoinedStr):
            out = []
            for kind, p in cc.fstring_parts(e):
                if kind == "lit":
                    out.append(Lit(p))
                else:
                    out += self.leaf(p, env)
            return out
        if isinstance(e, ast.BinOp) and isinstance(e.op, ast.Add):
            l, r = self.text(e.left, env), self.text(e.right, env)
            if l is None and r is None:
                return None
            return (l if l is not None else [Unk(e.left)]) + (r if r is not None else [Unk(e.right)])
        if isinstance(e, ast.BinOp) and isinstance(e.op, ast.Mod):
            ps = cc.percent_parts(e, self.b)
            if ps is not None:
                return self.parts(ps, env)
            return None
        if isinstance(e, ast.IfExp):
            a, b_ = self.text(e.body, env), self.text(e.orelse, env)
            if a is None and b_ is None:
                return None
            return [Alt(e.test, a if a is not None else [Unk(e.body)], b_ if b_ is not None else [Unk(e.orelse)], e)]
        if isinstance(e, ast.Name):
            v = env.get(e.id)
            if v is not None and v[0] == "str":
                return list(v[1])
            return None
        if isinstance(e, ast.Call):
            ps = cc.format_call_parts(e, self.b)
            if ps is not None:
                return self.parts(ps, env)
            if isinstance(e.func, ast.Attribute) and e.func.attr == "format":
                t = self.text(e.func.value, env)
                if t is not None:
                    return [Unk(e, "format on a non literal template")]
            if isinstance(e.func, ast.Name) and e.func.id == "str" and len(e.args) == 1 and not e.keywords:
                t = self.text(e.args[0], env)
                return t if t is not None else [Lf(cc.Leaf(e.args[0], "", None, "str", e))]
            if isinstance(e.func, ast.Name) and e.func.id == "repr" and len(e.args) == 1:
                return [Lf(cc.Leaf(e.args[0], "", None, "repr", e))]
            if isinstance(e.func, ast.Name) and e.func.id == "format" and 1 <= len(e.args) <= 2:
                sp = "" if len(e.args) == 1 else cc._const_str(e.args[1], self.b, e)
                return [Lf(cc.Leaf(e.args[0], sp, None, "format", e))]
            if isinstance(e.func, ast.Attribute) and e.func.attr == "join" and len(e.args) == 1 and not e.keywords:
                sep = self.text(e.func.value, env)
                if sep is None or any(not isinstance(x, Lit) for x in sep):
                    return None
                return self.join("".join(x.text for x in sep), e.args[0], env, e)
            if isinstance(e.func, ast.Attribute) and e.func.attr in ("strip", "rstrip", "lstrip") and not e.args:
                t = self.text(e.func.value, env)
                return t
        return None

    def leaf(self, lf, env):
        """a rendered field: spliced when it is itself plain text"""
        if lf.plain():
            t = self.text(lf.expr, env)
            if t is not None:
                return t
            if isinstance(lf.expr, ast.Constant) and not isinstance(lf.expr.value, str):
                return [Lit(str(lf.expr.value))]
        return [Lf(lf)]

    def parts(self, ps, env):
        out = []
        for kind, p in ps:
            if kind == "lit":
                out.append(Lit(p))
            else:
                out += self.leaf(p, env)
        return out

    def elem_text(self, e, env, node):
        """text of an expression that must evaluate to a str (element of a joined / written sequence)"""
        t = self.text(e, env)
        if t is not None:
            return t
        return [Lf(cc.Leaf(e, "", None, "str", node))]

    def starred(self, a, env, node, sep):
        """`print(*values)`: every value of the sequence, separated by sep"""
        v = a.value
        if isinstance(v, (ast.ListComp, ast.GeneratorExp)):
            body = self.elem_text(v.elt, env, node)
            for g in reversed(v.generators):
                body = [Rep(g.target, g.iter, list(g.ifs), body, sep, v)]
            return body
        # a plain sequence: a synthetic `(p for p in <seq>)` so that the elements can be classified through its binding
        nm = ast.Name(id="_p", ctx=ast.Load())
        tg = ast.Name(id="_p", ctx=ast.Store())
        comp = ast.comprehension(target=tg, iter=v, ifs=[], is_async=0)
        gen = ast.GeneratorExp(elt=nm, generators=[comp])
        for x in (nm, tg, comp, gen):
            ast.copy_location(x, a) if not isinstance(x, ast.comprehension) else None
        nm._parent, comp._parent, tg._parent, gen._parent = gen, gen, comp, node
        return [Rep(tg, v, [], [Lf(cc.Leaf(nm, "", None, "str", node))], sep, gen)]

    def join(self, sep, arg, env, node):
        if isinstance(arg, (ast.ListComp, ast.GeneratorExp)):
            body = self.elem_text(arg.elt, env, node)
            for g in reversed(arg.generators):
                body = self.rep_over(g.target, g.iter, list(g.ifs), body, sep, arg, env)
            return body
        if isinstance(arg, (ast.List, ast.Tuple)):
            out = []
            for i, x in enumerate(arg.elts):
                if i and sep:
                    out.append(Lit(sep))
                if isinstance(x, ast.Starred):
                    out += self.starred(x, env, node, sep)
                else:
                    out += self.elem_text(x, env, node)
            return out
        if isinstance(arg, ast.Name) and arg.id in env and env[arg.id][0] == "list":
            out = self.join_list(sep, env[arg.id][1])
            for x, _p in walk(out):
                if isinstance(x, Rep) and getattr(x, "src_list", None) is None:
                    x.src_list = arg.id          # the lines of this repetition are the elements of that local list
            return out
        if isinstance(arg, ast.Call) and isinstance(arg.func, ast.Name) and arg.func.id in ("list", "tuple") and len(arg.args) == 1:
            return self.join(sep, arg.args[0], env, node)
        return [Unk(node, "join over an unrecognised sequence")]

    def join_list(self, sep, entries):
        out = []
        for i, x in enumerate(entries):
            if i and sep:
                out.append(Lit(sep))
            if isinstance(x, El):
                out += x.items
            elif isinstance(x, Rep):
                r = Rep(x.target, x.iter, x.ifs, self.join_list(sep, x.body), sep if sep else x.sep, x.node)
                r.partial = x.partial
                out.append(r)
            elif isinstance(x, Alt):
                out.append(Alt(x.test, self.join_list(sep, x.a), self.join_list(sep, x.b), x.node))
            else:
                out.append(x)
        return out

    def list_value(self, e, env):
        """entries of a list-of-strings expression or None"""
        if isinstance(e, (ast.List, ast.Tuple)):
            if any(isinstance(x, ast.Starred) for x in e.elts):
                return None
            ts = [self.text(x, env) for x in e.elts]
            if any(t is None for t in ts):
                return None
            return [El(t) for t in ts]
        if isinstance(e, ast.Call) and isinstance(e.func, ast.Name) and e.func.id == "list" and not e.args:
            return []
        if isinstance(e, (ast.ListComp, ast.GeneratorExp)):
            t = self.text(e.elt, env)
            if t is None:
                return None
            body = [El(t)]
            for g in reversed(e.generators):
                body = [Rep(g.target, g.iter, list(g.ifs), body, None, e)]
            return body
        if isinstance(e, ast.Name) and e.id in env and env[e.id][0] == "list":
            return list(env[e.id][1])
        if isinstance(e, ast.BinOp) and isinstance(e.op, ast.Add):
            l, r = self.list_value(e.left, env), self.list_value(e.right, env)
            if l is not None and r is not None:
                return l + r
        return None

    # ------------------------------------------------------------------ statements
    def emit(self, env, items):
        kind, cur = env[OUT]
        env[OUT] = (kind, cur + items)

    def block(self, stmts, env, depth):
        """interpret the statements; returns 'fall' | 'leave' | 'abort' | 'break'"""
        for i, st in enumerate(stmts):
            if isinstance(st, (ast.Continue, ast.Return)):
                return "leave"
            if isinstance(st, ast.Raise):
                return "abort"
            if isinstance(st, ast.Break):
                return "break"
            if isinstance(st, ast.If):
                rest = stmts[i + 1:]
                if _contains_leave([st]) and depth < 12:
                    # the statements after the `if` belong to the paths that do not leave
                    ea, eb = dict(env), dict(env)
                    sa = self.block(st.body + ([] if _leaves_block(st.body) else rest), ea, depth + 1)
                    sb = self.block(st.orelse + ([] if _leaves_block(st.orelse) else rest), eb, depth + 1)
                    return self.merge(st, env, ea, sa, eb, sb)
                ea, eb = dict(env), dict(env)
                sa = self.block(st.body, ea, depth + 1)
                sb = self.block(st.orelse, eb, depth + 1)
                self.merge(st, env, ea, sa, eb, sb)
                continue
            self.stmt(st, env, depth)
        return "fall"

    def merge(self, st, env, ea, sa, eb, sb):
        if sa == "abort" and sb == "abort":
            return "abort"
        if sa == "abort":
            env.clear()
            env.update(eb)
            return sb
        if sb == "abort":
            env.clear()
            env.update(ea)
            return sa
        names = set(ea) | set(eb)
        new = {}
        for v in names:
            a, b_ = ea.get(v), eb.get(v)
            if a is not None and b_ is not None and a[0] == b_[0] == "bound":
                new[v] = a
                continue
            if a is not None and b_ is not None and a[0] == b_[0] == "val":
                new[v] = a if a[1] is b_[1] else ("val", Phi(st.test, a[1], b_[1]))
                continue
            if a is not None and a[0] in ("val", "bound") or b_ is not None and b_[0] in ("val", "bound"):
                continue
            if a is None or b_ is None or a[0] != b_[0]:
                if v in env or v == OUT:
                    new[v] = ((a or b_)[0], [Unk(st, "bound on one path only")])
                continue
            ia, ib = a[1], b_[1]
            k = 0
            while k < len(ia) and k < len(ib) and ia[k] is ib[k]:
                k += 1
            if k == len(ia) and k == len(ib):
                new[v] = (a[0], ia)
            else:
                new[v] = (a[0], ia[:k] + [Alt(st.test, ia[k:], ib[k:], st)])
        env.clear()
        env.update(new)
        if sa == "break" or sb == "break":
            return "break"
        return "leave" if (sa == "leave" and sb == "leave") else "fall"

    def stmt(self, st, env, depth):
        if isinstance(st, (ast.FunctionDef, ast.AsyncFunctionDef, ast.ClassDef, ast.Pass, ast.Import, ast.ImportFrom, ast.Assert,
                           ast.Global, ast.Nonlocal, ast.Delete)):
            return
        if isinstance(st, (ast.With, ast.AsyncWith)):
            self.block(st.body, env, depth + 1)
            return
        if isinstance(st, ast.Try):
            self.block(st.body, env, depth + 1)
            self.block(st.orelse, env, depth + 1)
            for h in st.handlers:
                self.clobber(h.body, env, st)
            self.block(st.finalbody, env, depth + 1)
            return
        if isinstance(st, (ast.For, ast.AsyncFor)):
            self.loop(st, env, depth)
            return
        if isinstance(st, ast.While):
            self.clobber(st.body, env, st)
            return
        if isinstance(st, ast.Expr) and isinstance(st.value, ast.Call):
            self.call_stmt(st.value, env, st)
            return
        if isinstance(st, (ast.Assign, ast.AnnAssign, ast.AugAssign, ast.Expr)) and getattr(st, "value", None) is not None \
                and self.escapes(st.value):
            v = st.value
            bound = isinstance(v, ast.Attribute) and v.attr in ("write", "writelines") and isinstance(v.value, ast.Name) \
                and v.value.id in self.handles
            if not bound:
                self.emit(env, [Unk(st, "the file object is handed to code the writer model does not follow")])
        if isinstance(st, (ast.Assign, ast.AnnAssign)):
            targets = st.targets if isinstance(st, ast.Assign) else [st.target]
            value = st.value
            if value is None:
                return
            if isinstance(value, ast.Attribute) and value.attr in ("write", "writelines") and len(targets) == 1 \
                    and isinstance(targets[0], ast.Name):
                env[targets[0].id] = ("bound", value.attr)          # `write = f.write`
                return
            if len(targets) == 1 and isinstance(targets[0], (ast.Tuple, ast.List)) and isinstance(value, (ast.Tuple, ast.List)) \
                    and len(value.elts) == len(targets[0].elts) and not any(isinstance(x, ast.Starred) for x in value.elts):
                for t, v in zip(targets[0].elts, value.elts):
                    self.stmt(ast.copy_location(ast.Assign(targets=[t], value=v), st), env, depth)
                return
            for t in targets:
                if isinstance(t, ast.Name) and isinstance(value, ast.Tuple) and not value.elts:
                    env[t.id] = ("val", value)
                    continue
                if isinstance(t, ast.Name):
                    tv = self.text(value, env)
                    if tv is not None:
                        env[t.id] = ("str", tv)
                        continue
                    lv = self.list_value(value, env)
                    if lv is not None:
                        env[t.id] = ("list", lv)
                        continue
                    if isinstance(value, (ast.Call, ast.ListComp, ast.GeneratorExp, ast.Attribute, ast.Subscript, ast.Name)):
                        v0 = env[value.id][1] if isinstance(value, ast.Name) and value.id in env and env[value.id][0] == "val" else value
                        env[t.id] = ("val", v0)
                        continue
                    env.pop(t.id, None)
                else:
                    for n in au.assigned_names(t):
                        env.pop(n, None)
            return
        if isinstance(st, ast.AugAssign):
            if isinstance(st.target, ast.Name) and st.target.id in env and isinstance(st.op, ast.Add):
                kind, cur = env[st.target.id]
                if kind == "str":
                    tv = self.text(st.value, env)
                    env[st.target.id] = (kind, cur + (tv if tv is not None else [Unk(st.value)]))
                else:
                    lv = self.list_value(st.value, env)
                    env[st.target.id] = (kind, cur + (lv if lv is not None else [Unk(st.value)]))
            else:
                for n in au.assigned_names(st.target):
                    env.pop(n, None)
            return

    def call_stmt(self, c, env, st):
        f = c.func
        if isinstance(f, ast.Name) and f.id in env and env[f.id][0] == "bound" and len(c.args) == 1 and not c.keywords:
            if env[f.id][1] == "write":
                self.emit(env, self.elem_text(c.args[0], env, c))
            else:
                self.emit(env, self.join("", c.args[0], env, c))
            return
        if self.escapes(c) and not (isinstance(f, ast.Attribute) and f.attr in ("write", "writelines")) \
                and not (isinstance(f, ast.Name) and f.id == "print"):
            self.emit(env, [Unk(c, "the file object is handed to code the writer model does not follow")])
        if isinstance(f, ast.Attribute):
            recv = f.value
            if f.attr == "write" and len(c.args) == 1 and not c.keywords:
                self.emit(env, self.elem_text(c.args[0], env, c))
                return
            if f.attr == "writelines" and len(c.args) == 1:
                self.emit(env, self.join("", c.args[0], env, c))
                return
            if isinstance(recv, ast.Name) and recv.id in env:
                kind, cur = env[recv.id]
                if kind == "list" and f.attr == "append" and len(c.args) == 1:
                    t = self.text(c.args[0], env)
                    env[recv.id] = (kind, cur + [El(t) if t is not None else Unk(c.args[0])])
                    return
                if kind == "list" and f.attr == "extend" and len(c.args) == 1:
                    lv = self.list_value(c.args[0], env)
                    env[recv.id] = (kind, cur + (lv if lv is not None else [Unk(c.args[0])]))
                    return
                env[recv.id] = (kind, cur + [Unk(c, "method call on a tracked value")]) if f.attr not in ("count", "index") else (kind, cur)
                return
        if isinstance(f, ast.Name) and f.id == "print":
            fk = [k for k in c.keywords if k.arg == "file"]
            if fk:
                sep = next((cc._const_str(k.value) for k in c.keywords if k.arg == "sep"), " ")
                end = next((cc._const_str(k.value) for k in c.keywords if k.arg == "end"), "\n")
                if sep is None or end is None:
                    self.emit(env, [Unk(c, "print with dynamic sep / end")])
                    return
                out = []
                for i, a in enumerate(c.args):
                    if i and sep:
                        out.append(Lit(sep))
                    if isinstance(a, ast.Starred):
                        out += self.starred(a, env, c, sep)
                    else:
                        out += self.elem_text(a, env, c)
                if end:
                    out.append(Lit(end))
                self.emit(env, out)
            return
        # a tracked value handed to an unknown function may be written there
        for a in list(c.args) + [k.value for k in c.keywords]:
            if isinstance(a, ast.Name) and a.id in env and a.id != OUT and env[a.id][0] == "list":
                env[a.id] = (env[a.id][0], env[a.id][1] + [Unk(c, "passed to a call")])

    def clobber(self, body, env, node):
        """a construct that is not modelled touches these values: unknown from here on"""
        touched = set()
        for s in au.stmts(body):
            for t in au.assign_targets(s):
                touched |= set(au.assigned_names(t))
            for c in au.calls(s):
                if isinstance(c.func, ast.Attribute) and c.func.attr in ("write", "writelines"):
                    touched.add(OUT)
                if isinstance(c.func, ast.Attribute) and isinstance(c.func.value, ast.Name):
                    touched.add(c.func.value.id)
                if isinstance(c.func, ast.Name) and c.func.id == "print" and any(k.arg == "file" for k in c.keywords):
                    touched.add(OUT)
        for v in touched:
            if v in env:
                env[v] = (env[v][0], env[v][1] + [Unk(node, "modified in an unmodelled construct")])

    def loop(self, st, env, depth):
        before = {v: kv for v, kv in env.items() if kv[0] not in ("val", "bound")}
        vals = {v: kv for v, kv in env.items() if kv[0] in ("val", "bound")}
        inner = {v: (k, [_Mark(v)]) for v, (k, _) in before.items()}
        inner.update(vals)
        status = self.block(st.body, inner, depth + 1)
        if st.orelse:
            self.clobber(st.orelse, env, st)
        for v, (kind, cur) in before.items():
            got = inner.get(v)
            if got is None or got[0] != kind:
                env[v] = (kind, cur + [Unk(st, "rebound in a loop")])
                continue
            items = got[1]
            if items and isinstance(items[0], _Mark) and items[0].name == v:
                delta = items[1:]
                if not delta:
                    env[v] = (kind, cur)
                    continue
                delta = self.unmark(delta, before, inner, v)
                partial = status == "break" or _has_break(st) or any(isinstance(n, ast.Return) for n in au.walk(st.body))
                env[v] = (kind, cur + self.rep_over(st.target, st.iter, [], delta, None, st, env, partial))
            else:
                env[v] = (kind, [Unk(st, "rebound in a loop")])
        for v in inner:
            if v not in before and v not in vals:
                if inner[v][0] in ("val", "bound"):
                    env[v] = inner[v]
                else:
                    env[v] = (inner[v][0], [Unk(st, "value of the last iteration")])
        for v in vals:
            if inner.get(v) is not vals[v]:
                env.pop(v, None)

    def rep_over(self, target, it, ifs, body, sep, node, env, partial=False):
        """[Rep] - or, when the iterated local has a value per path, the alternative of one Rep per path"""
        def mk(i2):
            r = Rep(target, i2, ifs, body, sep, node)
            r.partial = partial
            r.src_iter = it
            return r
        if isinstance(it, ast.Name) and it.id in env and env[it.id][0] == "val":
            def build(v):
                if isinstance(v, Phi):
                    return [Alt(v.test, build(v.a), build(v.b))]
                return [mk(v)]
            if isinstance(env[it.id][1], Phi):
                return build(env[it.id][1])
        # `for x in (A if c else B)`: one repetition per outcome; an empty literal writes nothing
        if isinstance(it, ast.IfExp):
            def side(v):
                if isinstance(v, (ast.List, ast.Tuple)) and not v.elts:
                    return []
                return self.rep_over(target, v, ifs, copy_items(body), sep, node, env, partial)
            return [Alt(it.test, side(it.body), side(it.orelse), it)]
        # `for x in A + B` writes the rows of A, then those of B (each part gets its own copy of the body: its values are
        # classified in the context of that part)
        parts = concat_parts(it, env)
        if len(parts) > 1:
            out = []
            for k_, p_ in enumerate(parts):
                r = Rep(target, p_, ifs, body if k_ == 0 else copy_items(body), sep, node)
                r.partial = partial
                r.src_iter = it
                r.part = (k_, len(parts))
                out.append(r)
                if sep and k_ < len(parts) - 1:
                    out.append(Lit(sep))
            return out
        return [mk(it)]

    def unmark(self, items, before, inner, own):
        out = []
        for x in items:
            if isinstance(x, _Mark):
                stable = x.name != own and inner.get(x.name) is not None and len(inner[x.name][1]) == 1 \
                    and isinstance(inner[x.name][1][0], _Mark)
                out += list(before[x.name][1]) if stable else [Unk(x.name, "accumulator read inside its loop")]
            elif isinstance(x, Rep):
                x.body = self.unmark(x.body, before, inner, own)
                out.append(x)
            elif isinstance(x, Alt):
                x.a, x.b = self.unmark(x.a, before, inner, own), self.unmark(x.b, before, inner, own)
                out.append(x)
            elif isinstance(x, El):
                x.items = self.unmark(x.items, before, inner, own)
                out.append(x)
            else:
                out.append(x)
        return out


def concat_parts(it, env, depth=0):
    """the operands of `A + B + ..` (through list(..) / tuple(..) and locals holding such a sum)"""
    if depth > 4:
        return [it]
    if isinstance(it, ast.BinOp) and isinstance(it.op, ast.Add):
        return concat_parts(it.left, env, depth + 1) + concat_parts(it.right, env, depth + 1)
    if isinstance(it, ast.Call) and isinstance(it.func, ast.Name) and it.func.id in ("list", "tuple") and len(it.args) == 1 and not it.keywords \
            and isinstance(it.args[0], ast.BinOp):
        return concat_parts(it.args[0], env, depth + 1)
    if isinstance(it, ast.Call) and au.call_tail(it) == "chain" and len(it.args) >= 2 and not it.keywords:
        return [p_ for a in it.args for p_ in concat_parts(a, env, depth + 1)]
    if isinstance(it, ast.Name) and it.id in env and env[it.id][0] == "val" and isinstance(env[it.id][1], ast.BinOp) \
            and isinstance(env[it.id][1].op, ast.Add):
        return concat_parts(env[it.id][1], env, depth + 1)
    return [it]


def copy_items(items):
    """copy of a piece of emission tree with fresh Leaf objects (same expressions)"""
    out = []
    for x in items:
        if isinstance(x, Lf):
            l = x.leaf
            out.append(Lf(cc.Leaf(l.expr, l.spec, l.conv, l.how, l.node)))
        elif isinstance(x, Rep):
            r = Rep(x.target, x.iter, x.ifs, copy_items(x.body), x.sep, x.node)
            r.partial = x.partial
            for a in ("src_iter", "src_list", "extra_ifs", "ids_iter"):
                if hasattr(x, a):
                    setattr(r, a, getattr(x, a))
            out.append(r)
        elif isinstance(x, Alt):
            out.append(Alt(x.test, copy_items(x.a), copy_items(x.b), x.node))
        elif isinstance(x, El):
            out.append(El(copy_items(x.items)))
        else:
            out.append(x)
    return out


def _has_break(loop):
    for n in au.walk(loop.body):
        if isinstance(n, ast.Break):
            inner = False
            for a in au.ancestors(n):
                if a is loop:
                    break
                if isinstance(a, (ast.For, ast.While)):
                    inner = True
            if not inner:
                return True
    return False


# =========================================================================== reading the tree
def walk(items, path=()):
    """(item, path) for every item of the tree, depth first in emission order; path = tuple of ('alt', Alt, polarity) | ('rep', Rep)"""
    for x in items:
        yield x, path
        if isinstance(x, Rep):
            yield from walk(x.body, path + (("rep", x),))
        elif isinstance(x, Alt):
            yield from walk(x.a, path + (("alt", x, True),))
            yield from walk(x.b, path + (("alt", x, False),))
        elif isinstance(x, El):
            yield from walk(x.items, path)


def unknowns(items):
    return [x for x, p in walk(items) if isinstance(x, Unk) or (isinstance(x, Rep) and x.partial)]


def leaves_of(items):
    return [x.leaf for x, p in walk(items) if isinstance(x, Lf)]


def variants(items, limit=MAX_VARIANTS):
    """[(conditions, flat items)] : every combination of the alternatives that are not inside a repetition; the alternatives
    inside nested repetitions are kept.  None beyond `limit`."""
    out = [([], [])]
    for x in items:
        if isinstance(x, Alt):
            va, vb = variants(x.a, limit), variants(x.b, limit)
            if va is None or vb is None:
                return None
            new = []
            for conds, flat in out:
                for c2, f2 in va:
                    new.append((conds + [(x.test, True)] + c2, flat + f2))
                for c2, f2 in vb:
                    new.append((conds + [(x.test, False)] + c2, flat + f2))
            out = new
            if len(out) > limit:
                return None
        else:
            out = [(c, f + [x]) for c, f in out]
    return out


def is_ws(s):
    return s != "" and s.strip() == ""


class Token:
    """a whitespace-delimited token: parts are ('lit', text) | ('leaf', Leaf) | ('rep', Rep) | ('unk', Unk)"""

    def __init__(self):
        self.parts = []

    def literal(self):
        return "".join(p[1] for p in self.parts) if all(p[0] == "lit" for p in self.parts) else None

    def single_leaf(self):
        return self.parts[0][1] if len(self.parts) == 1 and self.parts[0][0] == "leaf" else None

    def first_leaf(self):
        return self.parts[0][1] if self.parts and self.parts[0][0] == "leaf" else None

    def __repr__(self):
        return "Tok(" + "+".join(p[1] if p[0] == "lit" else (au.src(p[1].expr) if p[0] == "leaf" else p[0]) for p in self.parts) + ")"


class RepTokens:
    """a repetition of tokens inside a line: `' '.join(str(v) for v in row)`, or an inner loop appending `tok + ' '`"""

    def __init__(self, rep, tokens, separated):
        self.rep, self.tokens, self.separated = rep, tokens, separated

    def __repr__(self):
        return f"RepTok({au.src(self.rep.iter)}: {self.tokens})"


def tokenize(flat):
    """lines of a flat item list (alternatives only inside repetitions): [[Token | RepTokens, ...], ...]; a repetition that emits
    line breaks is returned as ('block', Rep) element of its own line list."""
    lines, cur, tok = [], [], None

    def end_tok():
        nonlocal tok
        if tok is not None and tok.parts:
            cur.append(tok)
        tok = None

    def end_line():
        nonlocal cur
        end_tok()
        lines.append(cur)
        cur = []
    for x in flat:
        if isinstance(x, Lit):
            buf = ""
            for ch in x.text:
                if ch == "\n":
                    if buf:
                        tok = tok or Token()
                        tok.parts.append(("lit", buf))
                        buf = ""
                    end_line()
                elif ch.isspace():
                    if buf:
                        tok = tok or Token()
                        tok.parts.append(("lit", buf))
                        buf = ""
                    end_tok()
                else:
                    buf += ch
            if buf:
                tok = tok or Token()
                tok.parts.append(("lit", buf))
        elif isinstance(x, Lf):
            tok = tok or Token()
            tok.parts.append(("leaf", x.leaf))
        elif isinstance(x, Rep):
            if has_newline(x.body) or (x.sep is not None and "\n" in x.sep):
                end_tok()
                cur.append(("block", x))
                continue
            inner_alts = variants(x.body)
            sep_ws = x.sep is not None and is_ws(x.sep)
            body_end_ws = ends_with_ws(x.body)
            if inner_alts is None or not (sep_ws or body_end_ws or x.sep is None):
                tok = tok or Token()
                tok.parts.append(("rep", x))
                continue
            if sep_ws or body_end_ws:
                end_tok()
                toks = [tokenize(f) for c, f in inner_alts]
                cur.append(RepTokens(x, toks, True))
            else:
                tok = tok or Token()
                tok.parts.append(("rep", x))
        elif isinstance(x, Alt):
            tok = tok or Token()
            tok.parts.append(("unk", Unk(x.node or x.test, "alternative inside a line")))
        elif isinstance(x, Unk):
            tok = tok or Token()
            tok.parts.append(("unk", x))
    end_tok()
    if cur:
        lines.append(cur)
    return lines


def has_newline(items):
    return any(isinstance(x, Lit) and "\n" in x.text for x, p in walk(items)) or \
        any(isinstance(x, Rep) and x.sep and "\n" in x.sep for x, p in walk(items))


def ends_with_ws(items):
    if not items:
        return False
    last = items[-1]
    if isinstance(last, Lit):
        return last.text[-1:].isspace()
    if isinstance(last, Alt):
        return ends_with_ws(last.a) and ends_with_ws(last.b)
    return False


def emission(fn):
    return Emitter(fn).run()


# =========================================================================== row blocks
class Block:
    """One way an exporter writes the rows of `mesh.<kind>`: the repetition, the conditions under which it runs, the selection of
    rows inside it, and the tokens of the line(s) written per row."""

    def __init__(self, **kw):
        self.__dict__.update(kw)

    def describe(self):
        t = self.tag if not isinstance(self.tag, tuple) else "len(row)"
        return f"{self.fmt} {self.kind} row (tag {t}, {self.fields} field(s))"


def _len_eq(test, pol, is_row_len):
    """N when (test, pol) says len(row) == N"""
    if isinstance(test, ast.Compare) and len(test.ops) == 1:
        op = test.ops[0]
        eq = (isinstance(op, ast.Eq) and pol) or (isinstance(op, ast.NotEq) and not pol)
        if eq:
            for a, c in ((test.left, test.comparators[0]), (test.comparators[0], test.left)):
                if is_row_len(a) and isinstance(au.const(c), int) and not isinstance(au.const(c), bool):
                    return au.const(c)
    return None


def row_iteration(rep, prov, b):
    """(kind, via) when the repetition runs over rows of mesh.<kind>: via = loop (every row) | slice | index (rows picked by an
    id sequence) | range (indices 0..n-1); None otherwise."""
    it, en = cc.strip_enumerate(rep.iter)
    for _ in range(3):
        if isinstance(it, ast.Call) and isinstance(it.func, ast.Name) and it.func.id in ("list", "tuple", "iter") and len(it.args) == 1:
            it = it.args[0]
    k = prov.container_kind(it)
    if k is not None:
        rep.corner = k in cc.CORNER_KINDS
        return cc.CORNER_KINDS.get(k, k), "loop"
    info = prov.rows_info(it, rep.node if au.parent(it) is None else it)
    if info is not None:
        rep.extra_ifs = info[1]
        if isinstance(info[2], tuple):
            rep.ids_iter = info[2][1]
            return info[0], "index"
        return info[0], "slice" if info[2] else "loop"
    tgt = rep.target.elts[1] if en and isinstance(rep.target, (ast.Tuple, ast.List)) and len(rep.target.elts) == 2 else rep.target
    if isinstance(tgt, ast.Name):
        body = rep.node.body if isinstance(rep.node, (ast.For, ast.AsyncFor)) else []
        for s in au.stmts(body):
            if isinstance(s, ast.Assign) and isinstance(s.value, ast.Subscript) and prov.container_kind(s.value.value) in cc.KINDS \
                    and isinstance(s.value.slice, ast.Name) and s.value.slice.id == tgt.id:
                rng = isinstance(it, ast.Call) and au.call_tail(it) == "range"
                return prov.container_kind(s.value.value), "range" if rng else "index"
        for lf in leaves_of(rep.body):
            for x in au.walk(lf.expr):
                if isinstance(x, ast.Subscript) and prov.container_kind(x.value) in cc.KINDS and isinstance(x.slice, ast.Name) \
                        and x.slice.id == tgt.id:
                    rng = isinstance(it, ast.Call) and au.call_tail(it) == "range"
                    return prov.container_kind(x.value), "range" if rng else "index"
    return None


def leaf_class(prov, lf):
    """classification of a rendered value, as computed in the context of the row block it belongs to"""
    if hasattr(lf, "cls"):
        return lf.cls
    return prov.classify(lf.expr, lf.expr)


def row_blocks(fmt, fn, tree=None, prov=None, b=None):
    """(prov, bindings, tree, [Block], problems) of a flattened exporter"""
    b = b or sym.Bindings(fn)
    prov = prov or cc.Prov(fn, b=b)
    tree = tree if tree is not None else emission(fn)
    blocks, problems = [], []

    def visit(items, path, before):
        for i, x in enumerate(items):
            if isinstance(x, Alt):
                visit(x.a, path + [(x.test, True, x)], before + [items[:i]])
                visit(x.b, path + [(x.test, False, x)], before + [items[:i]])
            elif isinstance(x, Rep):
                ri = row_iteration(x, prov, b)
                if ri is None:
                    visit(x.body, path + [("rep", x)], [])
                    continue
                kind, via = ri
                vs = variants(x.body)
                if vs is None:
                    problems.append((x, "too many alternatives inside a row loop"))
                    continue
                for conds, flat in vs:
                    if not flat:
                        continue
                    blk = make_block(fmt, fn, prov, b, x, kind, via, path, conds, flat, before + [items[:i]])
                    blocks.append(blk)
    visit(tree, [], [])
    return prov, b, tree, blocks, problems


def make_block(fmt, fn, prov, b, rep, kind, via, path, conds, flat, before):
    blk = Block(fmt=fmt, kind=kind, via=via, rep=rep, loop=rep.node, fn=fn, prov=prov, b=b, flat=flat, before=before,
                conds=[(t, p) for t, p, *_ in path if t != "rep"], outer_reps=[p[1] for p in path if p[0] == "rep"],
                guard_n=None, other_guards=[], tag=None, tag_fields=0, fields=0, star=False, offsets=set(), positions=[], trailing=0,
                leaves=[], others=[], unknown=[], lines=[], write=None)
    tgt_names = set(au.names(rep.target))
    loop_names = set(tgt_names)
    if isinstance(rep.node, (ast.For, ast.AsyncFor)):
        for s_ in au.stmts(rep.node.body):
            for t_ in au.assign_targets(s_):
                loop_names |= set(au.assigned_names(t_))
            if isinstance(s_, ast.For):
                loop_names |= set(au.assigned_names(s_.target))

    def is_row_len(e):
        e = cc.resolve(b, e, at=rep.node.body[0] if isinstance(rep.node, ast.For) and rep.node.body else e, keep=tuple(tgt_names)) \
            if isinstance(e, ast.Name) else e
        return len_of_row(e, prov, rep) == kind
    for t, pol in list(conds) + [(t, True) for t in list(rep.ifs) + list(getattr(rep, 'extra_ifs', []))]:
        tt = cc.resolve(b, t, at=_at(t, rep), keep=tuple(tgt_names))
        n = _len_eq(tt, pol, lambda e: _is_len_of(e, prov, kind, t))
        if n is None:
            n = _len_eq(t, pol, lambda e: _is_len_of(e, prov, kind, t))
        if n is not None:
            blk.guard_n = n
        elif (t, pol) in conds and not (set(au.names(t)) & loop_names):
            blk.conds.append((t, pol))          # a condition inside the loop that does not depend on the row
        else:
            blk.other_guards.append((t, pol))
    blk.conds_row = list(conds)
    blk.lines = tokenize(flat)
    prov.context[id(rep.target)] = (kind, getattr(rep, 'corner', False))
    try:
        _classify_tokens(blk)
        for lf in leaves_of(flat):
            lf.cls = prov.classify(lf.expr, lf.expr)
    finally:
        prov.context.pop(id(rep.target), None)
    lv = leaves_of(flat)
    blk.write = lv[0].node if lv else rep.node
    return blk


def _at(t, rep):
    return t if au.parent(t) is not None else rep.node


def _is_len_of(e, prov, kind, at):
    if isinstance(e, ast.Call) and isinstance(e.func, ast.Name) and e.func.id == "len" and len(e.args) == 1:
        a = e.args[0]
        # the clone made by `resolve` has no parents: classify through the original name when there is one
        return prov.row_expr_kind(a, a if au.parent(a) is not None else at) == kind
    return False


def len_of_row(e, prov, at):
    if isinstance(e, ast.Call) and isinstance(e.func, ast.Name) and e.func.id == "len" and len(e.args) == 1:
        return prov.row_expr_kind(e.args[0], e.args[0] if au.parent(e.args[0]) is not None else at)
    return None


def _classify_tokens(blk):
    prov = blk.prov
    seen = False
    first = True

    def elem(lf):
        c = prov.classify(lf.expr, lf.expr)
        if c and c[0] == "elem" and c[1] == blk.kind:
            return c
        return None
    for line in blk.lines:
        for tk in line:
            if isinstance(tk, tuple):              # ('block', Rep): a repetition that writes whole lines (one value per line)
                rep = tk[1]
                sub = variants(rep.body)
                okk = False
                if sub is not None and prov.row_expr_kind(cc.Prov.unwrap_row(rep.iter), rep.iter) == blk.kind:
                    for conds, fl in sub:
                        for lf in leaves_of(fl):
                            c = elem(lf)
                            if c:
                                blk.fields = "all"
                                blk.offsets.add(c[2])
                                blk.leaves.append(lf)
                                okk = seen = True
                if not okk:
                    blk.unknown.append(rep.node)
                first = False
                continue
            if isinstance(tk, RepTokens):
                rep = tk.rep
                rk = prov.row_expr_kind(cc.Prov.unwrap_row(rep.iter), rep.iter)
                good = rk == blk.kind and not rep.ifs and not rep.partial
                if good:
                    for alt in tk.tokens:
                        toks = [t for ln in alt for t in ln]
                        if len(toks) != 1 or not isinstance(toks[0], Token) or toks[0].first_leaf() is None or elem(toks[0].first_leaf()) is None:
                            good = False
                            break
                        if any(p[0] in ("unk", "rep") for p in toks[0].parts):
                            good = False
                            break
                if good:
                    for alt in tk.tokens:
                        lf = alt[0][0].first_leaf()
                        c = elem(lf)
                        blk.offsets.add(c[2])
                        if lf not in blk.leaves:
                            blk.leaves.append(lf)
                        for p in alt[0][0].parts[1:]:
                            if p[0] == "leaf":
                                blk.others.append(p[1])
                    blk.fields = "all"
                    seen = True
                    blk.trailing = 0
                else:
                    blk.unknown.append(rep.node)
                first = False
                continue
            lit = tk.literal()
            if lit is not None:
                if not seen and (first or blk.tag is not None and not isinstance(blk.tag, tuple) and blk.tag_fields and not blk.fields):
                    if first:
                        blk.tag = lit
                    blk.tag_fields += 1
                elif seen:
                    blk.trailing += 1
                else:
                    blk.tag_fields += 1
                first = False
                continue
            lf = tk.first_leaf()
            if lf is None or any(p[0] in ("unk", "rep") for p in tk.parts):
                blk.unknown.append(tk.parts[0][1].node if tk.parts and tk.parts[0][0] == "unk" else blk.rep.node)
                first = False
                continue
            c = elem(lf)
            if c is not None:
                blk.fields = blk.fields + 1 if blk.fields != "all" else "all"
                if isinstance(lf.expr, ast.Starred):
                    blk.star = True
                blk.offsets.add(c[2])
                blk.positions.append(c[3])
                blk.leaves.append(lf)
                for p in tk.parts[1:]:
                    if p[0] == "leaf":
                        blk.others.append(p[1])
                seen = True
                blk.trailing = 0
            elif len(tk.parts) == 1 and len_of_row(lf.expr, prov, lf.expr) == blk.kind and not seen:
                if first:
                    blk.tag = ("len",)
                blk.tag_fields += 1
            else:
                blk.others.append(lf)
                if seen:
                    blk.trailing += 1
            first = False
