"""C20 / C11: obligations of the heap-backed PriorityQueue (utils/priority_queue.py), decided on symbolic paths of its methods."""
from __future__ import annotations
import ast
from .. import au, sym, order
from . import hg_symex as S
from . import c1120_util as U
from .hg_kd_build import Verdicts
from .hg_uf import field_of, is_field, writes

PQM = "utils.priority_queue"
PQC = "PriorityQueue"
HEAP_WRITERS = {"heappush", "heappop", "heappushpop", "heapreplace", "heapify"}


def heap_call(ev, heap_mods, heap_names):
    """name of the heapq function called by a call event on self.data (None otherwise)"""
    if ev.kind != "call":
        return None
    ch = au.chain(ev.call.func) or []
    fn = None
    if len(ch) == 2 and ch[0] in heap_mods:
        fn = ch[1]
    elif len(ch) == 1 and ch[0] in heap_names:
        fn = heap_names[ch[0]]
    if fn in HEAP_WRITERS and ev.args and is_field(ev.args[0], "data"):
        return fn
    return None


def data_effects(st, heap_mods, heap_names):
    """(heapq calls on self.data, other writers of self.data) along a path"""
    heap, other = [], []
    for ev in st.events:
        h = heap_call(ev, heap_mods, heap_names)
        if h:
            heap.append((h, ev))
    for f, k, ev in writes(st):
        if f == "data":
            other.append((k, ev))
    return heap, other


def item_fields(item):
    return [s.target.id for s in item.body if isinstance(s, ast.AnnAssign) and isinstance(s.target, ast.Name)]


def q1_methods(ctx, rule="C20-Q1", with_empty=True):
    repo = ctx.repo
    mod = repo.module(PQM)
    cls = repo.cls(PQM, PQC)
    item = repo.cls(PQM, "PriorityItem")
    heap_mods, heap_names = U.module_aliases(mod.tree, "heapq")
    fields = item_fields(item)
    payload = [f for f in fields if f != "priority"]

    def paths(qual, **kw):
        fn = repo.func(PQM, qual)
        ex = S.Exec(repo, PQM, PQC, fields_by_name=True, **kw)
        core = set(au.params(fn, skip_self=True)) if qual.endswith("__init__") else set(au.params(fn, skip_self=True)[:2])
        return fn, ex, ex.run(fn, args=S.default_args(fn, core))

    # ------------------------------------------------------------------ __init__: a fresh, empty, private list
    try:
        fn, ex, states = paths(PQC + ".__init__")
        site = ctx.site(PQM, fn)
        V = Verdicts(ctx, site)
        ps = au.params(fn, skip_self=True)
        for st in states:
            if st.end == "raise":
                continue
            first = next((ev for ev in st.events if ev.kind == "store" and isinstance(ev.target, ast.Attribute) and field_of(ev.target) == "data"), None)
            if first is None:
                V.und("init", rule, "__init__ does not bind self.data with a plain assignment", "a fresh queue must own an empty list")
                continue
            o = ex.expand(first.value)
            raw = first.value
            if (isinstance(o, ast.List) and not o.elts) or au.src(o) == "list()":
                if ex.kind(raw) == "default":
                    V.fail("init", rule, "__init__ binds self.data to a default argument value (one list object shared by every queue built without argument)",
                           "whatever is left pending in one default-constructed queue shows up in every other one")
                else:
                    V.ok("init", rule, "fresh empty list")
            elif isinstance(o, (ast.ListComp, ast.List)) or (isinstance(o, ast.Call) and au.call_tail(o) in ("list", "sorted") and ex.kind(raw) == "call"):
                V.und("init", rule, "__init__ builds self.data from its arguments", "whether the new list satisfies the heap order is not decided")
            elif (isinstance(raw, ast.Name) and raw.id in ps) or ex.kind(raw) == "default" or (isinstance(raw, ast.Attribute) and isinstance(raw.value, ast.Name) and raw.value.id in ps):
                V.fail("init", rule, "__init__ binds self.data to an object received from the caller (or to a default argument) instead of a fresh empty list",
                       "the list is a heap only as long as nothing but heapq.heappush / heappop modifies it: a caller-owned (or shared default) list "
                       "is modified behind the queue's back, and a fresh queue may not be empty")
            else:
                V.und("init", rule, "initial value of self.data not recognised")
            heap, other = data_effects(st, heap_mods, heap_names)
            bad = [k for k, ev in other if not (ev is first) and not (k == "store" and (isinstance(ex.expand(ev.value), ast.List)))]
            if bad and any(h == "heapify" for h, _ in heap):
                V.und("initw", rule, "__init__ fills self.data and heapifies it", "whether the items are PriorityItem built from (element, priority) is not decided")
            elif bad:
                V.fail("initw", rule, f"__init__ modifies self.data outside heapq ({bad[0]})", "only heapq keeps the heap order")
        V.flush()
    except (S.GiveUp, RecursionError):
        ctx.undecided(rule, ctx.site(PQM, PQC + ".__init__"), "__init__ of the queue is too branchy")

    # ------------------------------------------------------------------ push
    try:
        fn, ex, states = paths(PQC + ".push")
        site = ctx.site(PQM, fn)
        V = Verdicts(ctx, site)
        ps = au.params(fn, skip_self=True)
        for st in states:
            if st.end == "raise":
                continue            # rejecting invalid input by raising is not a lost item
            heap, other = data_effects(st, heap_mods, heap_names)
            if other:
                V.fail("push", rule, f"push modifies self.data outside heapq ({other[0][0].replace('call:', '.')})",
                       "the list is a heap only as long as nothing but heapq.heappush / heappop modifies it: an item placed without sifting can sit "
                       "above a smaller one, and later pops (and front) return an item that is not of minimum priority")
                continue
            pushes = [ev for h, ev in heap if h == "heappush"]
            if len(heap) != len(pushes) or len(pushes) > 1:
                V.und("push", rule, "push calls heapq functions other than one heappush")
                continue
            if not pushes:
                foreign = [ev for ev in st.events if ev.kind == "call" and isinstance(ev.recv, ast.Name) and ev.recv.id == "self"
                           and not (ev.tail in ex.methods and ex.pure(ex.methods[ev.tail]))]
                if foreign:
                    V.und("push", rule, "push delegates to a method that could not be followed")
                else:
                    V.fail("push", rule, "push has a path that returns normally without queueing the item",
                           "every pushed item must be handed out exactly once: an item that is silently dropped is never handed out and empty() reports "
                           "True although it was pushed (e.g. infinite priorities rejected by a finiteness test)")
                continue
            it = pushes[0].args[1] if len(pushes[0].args) == 2 else None
            o = ex.origin(it) if it is not None and ex.kind(it) == "call" else None
            if not (isinstance(o, ast.Call) and au.call_tail(o) == "PriorityItem") or len(ps) < 2 or len(payload) != 1 or "priority" not in fields:
                V.und("push", rule, "the item pushed on the heap is not a PriorityItem built from the two arguments")
                continue
            args = {}
            for i, a in enumerate(o.args):
                if i < len(fields):
                    args[fields[i]] = a
            for kw in o.keywords:
                args[kw.arg] = kw.value
            if au.src(args.get(payload[0])) == ps[0] and au.src(args.get("priority")) == ps[1]:
                V.ok("push", rule, "push builds (payload, priority) in field order")
            elif au.src(args.get(payload[0])) == ps[1] and au.src(args.get("priority")) == ps[0]:
                V.fail("push", rule, "push builds the item with payload and priority swapped", "every pushed element must be queued under its own priority")
            elif au.src(args.get(payload[0])) == ps[0] and args.get("priority") is not None:
                # the priority differs from the argument: only acceptable on a path reserved to an omitted optional priority (`w is None`)
                a_ = fn.args
                names = [x.arg for x in a_.args]
                dflt = dict(zip(names[len(names) - len(a_.defaults):], a_.defaults)).get(ps[1])
                only_default = isinstance(dflt, ast.Constant) and dflt.value is None and any(
                    isinstance(t, ast.Compare) and len(t.ops) == 1 and isinstance(t.ops[0], (ast.Is, ast.IsNot)) and au.src(t.left) == ps[1]
                    and au.const(t.comparators[0], 0) is None and isinstance(t.comparators[0], ast.Constant) and (isinstance(t.ops[0], ast.Is) == pol)
                    for t, pol, k in S.flat_conds(st))
                if only_default:
                    V.ok("push", rule, "omitted priority replaced by a default")
                else:
                    V.fail("push", rule, "push has a path that queues the element under a priority other than the one it was given",
                           "every pushed element must be queued under its own priority (e.g. a legitimate priority 0 is falsy: `if not w` replaces it)")
            else:
                V.und("push", rule, "fields of the pushed item not recognised")
        V.flush()
    except (S.GiveUp, RecursionError):
        ctx.undecided(rule, ctx.site(PQM, PQC + ".push"), "push is too branchy")

    # ------------------------------------------------------------------ get / pop
    for name in ("get", "pop"):
        if not repo.has_func(PQM, f"{PQC}.{name}"):
            continue
        try:
            fn, ex, states = paths(f"{PQC}.{name}")
        except (S.GiveUp, RecursionError):
            ctx.undecided(rule, ctx.site(PQM, f"{PQC}.{name}"), f"{name} is too branchy")
            continue
        site = ctx.site(PQM, fn)
        V = Verdicts(ctx, site)
        for st in states:
            if st.end == "raise":
                continue
            heap, other = data_effects(st, heap_mods, heap_names)
            if other:
                V.fail("pop", rule, f"{name}() takes an item out of self.data without heapq ({other[0][0].replace('call:', '.')})",
                       "each call must hand out one pending item of minimum priority: only heapq.heappop removes the minimum and restores the heap")
                continue
            pops = [ev for h, ev in heap if h == "heappop"]
            if len(heap) == 1 and len(pops) == 1 and st.ret is not None and S.tok_name(st.ret) == pops[0].tok:
                V.ok("pop", rule, f"{name} pops the heap once")
            elif len(pops) > 1:
                V.fail("pop", rule, f"{name}() pops the heap {len(pops)} times", "each pushed item must be handed out exactly once")
            else:
                V.und("pop", rule, f"{name}() does not return the result of one heapq.heappop(self.data)")
        V.flush()

    # ------------------------------------------------------------------ front
    if repo.has_func(PQM, PQC + ".front"):
        try:
            fn, ex, states = paths(PQC + ".front")
            site = ctx.site(PQM, fn)
            V = Verdicts(ctx, site)
            for st in states:
                if st.end == "raise":
                    continue
                heap, other = data_effects(st, heap_mods, heap_names)
                r = st.ret
                if heap or other:
                    V.fail("front", rule, "front modifies the queue", "front reads the minimum without removing it")
                elif isinstance(r, ast.Subscript) and is_field(r.value, "data") and au.const(r.slice) == 0:
                    V.ok("front", rule, "front is data[0]")
                elif isinstance(r, ast.Subscript) and is_field(r.value, "data") and isinstance(au.const(r.slice), int):
                    V.fail("front", rule, f"front returns self.data[{au.const(r.slice)}] instead of self.data[0]", "the minimum of a heap list is its first entry")
                else:
                    V.und("front", rule, "front does not return self.data[0]")
            V.flush()
        except (S.GiveUp, RecursionError):
            ctx.undecided(rule, ctx.site(PQM, PQC + ".front"), "front is too branchy")

    # ------------------------------------------------------------------ empty
    if with_empty and repo.has_func(PQM, PQC + ".empty"):
        try:
            fn, ex, states = paths(PQC + ".empty")
            site = ctx.site(PQM, fn)
            V = Verdicts(ctx, site)

            def is_len(o):
                return isinstance(o, ast.Call) and au.call_tail(o) in ("len", "__len__") and (
                    (len(o.args) == 1 and is_field(o.args[0], "data")) or (not o.args and isinstance(o.func, ast.Attribute) and is_field(o.func.value, "data")))

            class N(ast.NodeTransformer):
                """the length of self.data is `n`; self.data / bool(self.data) / len(self.data) used as a truth value is `n > 0`"""
                def __init__(self):
                    self.unknown = []

                def num(self, e):
                    o = ex.origin(e) if ex.kind(e) == "call" else e
                    if is_len(o):
                        return ast.Name(id="n", ctx=ast.Load())
                    if isinstance(e, ast.Constant) and isinstance(e.value, (int, float)) and not isinstance(e.value, bool):
                        return e
                    self.unknown.append(au.src(e))
                    return e

                def truth(self, e):
                    if isinstance(e, ast.BoolOp):
                        return ast.BoolOp(op=e.op, values=[self.truth(v) for v in e.values])
                    if isinstance(e, ast.UnaryOp) and isinstance(e.op, ast.Not):
                        return ast.UnaryOp(op=ast.Not(), operand=self.truth(e.operand))
                    if isinstance(e, ast.Constant) and isinstance(e.value, bool):
                        return e
                    if isinstance(e, ast.Compare):
                        return ast.Compare(left=self.num(e.left), ops=e.ops, comparators=[self.num(c) for c in e.comparators])
                    o = ex.origin(e) if ex.kind(e) == "call" else e
                    if is_field(e, "data") or is_len(o) or (isinstance(o, ast.Call) and au.call_tail(o) == "bool" and len(o.args) == 1
                                                            and (is_field(o.args[0], "data") or is_len(ex.origin(o.args[0]) if ex.kind(o.args[0]) == "call" else o.args[0]))):
                        return ast.Compare(left=ast.Name(id="n", ctx=ast.Load()), ops=[ast.Gt()], comparators=[ast.Constant(value=0)])
                    self.unknown.append(au.src(e))
                    return e
            tr = N()
            disj = []
            modifies = False
            for st in states:
                if st.end == "raise":
                    continue
                heap, other = data_effects(st, heap_mods, heap_names)
                if heap or other or st.ret is None:
                    modifies = True
                    continue
                parts = [tr.truth(c[0]) if c[1] else ast.UnaryOp(op=ast.Not(), operand=tr.truth(c[0])) for c in st.conds if c[3] in ("if", "ifexp")]
                parts.append(tr.truth(st.ret))
                disj.append(parts[0] if len(parts) == 1 else ast.BoolOp(op=ast.And(), values=parts))
            if modifies:
                V.fail("empty", rule, "empty() modifies the queue or returns nothing", "")
            elif tr.unknown or not disj:
                V.und("empty", rule, "empty() is not a test on the length of self.data")
            else:
                whole = disj[0] if len(disj) == 1 else ast.BoolOp(op=ast.Or(), values=disj)
                try:
                    r = U.relate(whole, "n == 0", lambda node: "n" if isinstance(node, ast.Name) and node.id == "n" else (_ for _ in ()).throw(order.Unsupported(au.src(node))),
                                 env_ok=lambda env: env.get("n", 0) >= 0 and float(env.get("n", 0)).is_integer())
                    if r["code_not_spec"] is None and r["spec_not_code"] is None:
                        V.ok("empty", rule, "empty is len == 0")
                    else:
                        V.fail("empty", rule, "empty() is not `len(self.data) == 0`",
                               f"emptiness must be reported exactly when no item is pending (differs for {r['code_not_spec'] or r['spec_not_code']})")
                except order.Unsupported:
                    V.und("empty", rule, "empty() is not a test on the length of self.data")
            V.flush()
        except (S.GiveUp, RecursionError):
            ctx.undecided(rule, ctx.site(PQM, PQC + ".empty"), "empty is too branchy")

    # ------------------------------------------------------------------ ordering of items
    lt = [s_ for s_ in item.body if isinstance(s_, ast.FunctionDef) and s_.name == "__lt__"]
    isite = ctx.site(PQM, lt[0] if lt else "PriorityItem")
    if lt:
        lps = au.params(lt[0])
        ex = S.Exec(repo, PQM, "PriorityItem")
        try:
            states = [s_ for s_ in ex.run(lt[0]) if s_.end != "raise"]
        except (S.GiveUp, RecursionError):
            states = None
        if states is None or len(lps) != 2:
            ctx.undecided(rule, isite, "PriorityItem.__lt__ not recognised")
        else:
            V = Verdicts(ctx, isite)
            forms = {f"{lps[0]}.priority": "a", f"{lps[1]}.priority": "b"}

            def s2(node):
                t = au.src(node)
                if t in forms:
                    return forms[t]
                raise order.Unsupported(f"`{t}` takes part in the ordering of items")
            for st in states:
                if st.ret is None:
                    V.und("lt", rule, "PriorityItem.__lt__ has a path that returns nothing")
                    continue
                try:
                    r = U.relate(st.ret, "a < b", s2, env_ok=lambda env: env.get("a") != env.get("b"), extra_symbols=("a", "b"))
                    if r["code_not_spec"] is None and r["spec_not_code"] is None:
                        # conditions of the path must not depend on anything but the priorities either
                        extra = [c for c in st.conds if c[3] in ("if", "ifexp")]
                        if extra:
                            V.und("lt", rule, "PriorityItem.__lt__ compares the priorities under a condition")
                        else:
                            V.ok("lt", rule, "items ordered by priority only")
                    else:
                        V.fail("lt", rule, "PriorityItem.__lt__ is not `self.priority < other.priority`",
                               f"heapq orders items with `<` only: it must be the strict order of the priorities and nothing else (differs for {r['code_not_spec'] or r['spec_not_code']})")
                except order.Unsupported as ex_:
                    used = {n.attr for c_ in [st.ret] + [c[0] for c in st.conds] for n in ast.walk(c_) if isinstance(n, ast.Attribute)
                            and isinstance(n.value, ast.Name) and n.value.id in lps}
                    other_calls = [n for c_ in [st.ret] + [c[0] for c in st.conds] for n in ast.walk(ex.expand(c_)) if isinstance(n, ast.Call)
                                   and au.call_tail(n) in ("id", "hash", "isclose", "abs", "round")]
                    if not (used - {"priority"}) and not other_calls and not any(isinstance(n, ast.Tuple) for n in ast.walk(st.ret)):
                        V.und("lt", rule, "PriorityItem.__lt__ is not written as a comparison of the two priorities")
                        continue
                    V.fail("lt", rule, "PriorityItem.__lt__ orders items by something else than `self.priority < other.priority` on some path",
                           f"heapq orders items with `<` only: it must be the order of the priorities and nothing else ({str(ex_)[:80]}); payloads need not be comparable")
            V.flush()
        others = [s_.name for s_ in item.body if isinstance(s_, ast.FunctionDef) and s_.name in ("__gt__", "__le__", "__ge__", "__eq__")]
        if others:
            ctx.undecided(rule, isite, f"PriorityItem also defines {others}", "other rich comparisons must agree with __lt__")
    else:
        order_kw = any(isinstance(d, ast.Call) and any(kw.arg == "order" and au.const(kw.value) is True for kw in d.keywords) for d in item.decorator_list)
        excluded = all(any(isinstance(s_, ast.AnnAssign) and s_.target.id == f and isinstance(s_.value, ast.Call) and
                           any(kw.arg == "compare" and au.const(kw.value) is False for kw in s_.value.keywords) for s_ in item.body) for f in payload)
        first = bool(fields) and [f for f in fields if f not in payload][:1] == ["priority"]
        if order_kw and excluded and first:
            ctx.ok(rule, isite, "order=True dataclass comparing the priority only")
        else:
            ctx.undecided(rule, isite, "PriorityItem has no __lt__ on priority and is not an order=True dataclass whose payload is compare=False",
                          "heapq needs `<` on items, decided by the priority alone")
