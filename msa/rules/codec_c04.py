"""Helpers for the C04 codec rules (reader/writer agreement of the text mesh formats).

Nothing here executes repository code.  Three small tools:

* formatting leaves: every value that is turned into text (f-string field, `'..'.format(..)` argument,
  `str(x)`, `'..' % x`) with its format spec / conversion;
* text flattening: the string passed to a `.write(...)` call as a sequence of literal pieces and leaves
  (`+`, `.format`, f-strings, `sep.join(comprehension)`, local names incl. `+=` accumulation);
* provenance of mesh rows in an exporter (`for face in mesh.faces`, `a, b = mesh.edges[e]`,
  `for v in face`, `*mesh.vertices[i]` ...);
* a constant folder for the tiny pure enum helper functions (`from_string`, `to_string`, `byte_size`).
"""
from __future__ import annotations
import ast, re, string
from .. import au, sym

KINDS = ("vertices", "edges", "faces", "cells")
CORNER_KINDS = {"face_corners": "faces", "cell_corners": "cells"}


# --------------------------------------------------------------------------- cheap resolve
def clean(node):
    """Structural copy of an AST without the `_parent` back links (copy.deepcopy would follow them and copy the
    whole module, which makes sym.Bindings.resolve very slow)."""
    if isinstance(node, ast.AST):
        new = node.__class__()
        for f in node._fields:
            if hasattr(node, f):
                setattr(new, f, clean(getattr(node, f)))
        for a in ("lineno", "col_offset", "end_lineno", "end_col_offset"):
            if hasattr(node, a):
                setattr(new, a, getattr(node, a))
        return new
    if isinstance(node, list):
        return [clean(x) for x in node]
    return node


class _Subst(ast.NodeTransformer):
    def __init__(self, mapping):
        self.mapping = mapping

    def visit_Name(self, node):
        if isinstance(node.ctx, ast.Load) and node.id in self.mapping:
            return clean(self.mapping[node.id])
        return node


def subst(expr, mapping):
    return _Subst(mapping).visit(clean(expr))


def resolve(b, expr, at, keep=(), depth=8):
    """Same contract as sym.Bindings.resolve(expr, at=..., keep=...): substitute local names by the definition
    reaching `at`, repeatedly; local version that does not deep-copy parent links."""
    if depth <= 0:
        return clean(expr)
    mapping = {}
    for n in au.names(expr):
        if n in keep:
            continue
        d = b.reaching(n, at)
        if d is not None and n not in au.names(d):
            mapping[n] = resolve(b, d, getattr(b, "_last_def_stmt", at), keep, depth - 1)
    return subst(expr, mapping) if mapping else clean(expr)


# --------------------------------------------------------------------------- formatting leaves
class Leaf:
    """One value rendered as text. spec: '' = default rendering, other str = explicit spec,
    None = dynamic spec; conv: None or 'r'/'s'/'a'; how: fstring|format|str|percent|repr."""

    def __init__(self, expr, spec, conv, how, node):
        self.expr, self.spec, self.conv, self.how, self.node = expr, spec, conv, how, node

    def plain(self):
        if self.how == "percent":
            return self.spec == "%s"
        if self.how == "repr":
            return False
        return self.spec == "" and self.conv in (None, "s")

    def __repr__(self):
        return f"Leaf({au.src(self.expr)}, spec={self.spec!r}, conv={self.conv!r}, {self.how})"


PCT = re.compile(r"%(?:\([^)]*\))?[#0\- +]*(?:\*|\d+)?(?:\.(?:\*|\d+))?[hlL]?([a-zA-Z%])")


def _const_str(node, b=None, at=None):
    if isinstance(node, ast.Constant) and isinstance(node.value, str):
        return node.value
    if b is not None and isinstance(node, ast.Name):
        d = b.reaching(node.id, at if at is not None else node)
        if isinstance(d, ast.Constant) and isinstance(d.value, str):
            return d.value
    return None


def format_fields(fmt):
    """[(literal_text, field_name|None, spec, conv)] of a str.format template, or None if malformed."""
    try:
        return list(string.Formatter().parse(fmt))
    except ValueError:
        return None


def format_call_parts(call, b=None):
    """`'tpl'.format(a, b, *c)` -> list of ('lit', text) / ('leaf', Leaf); None if not a literal template."""
    if not (isinstance(call, ast.Call) and isinstance(call.func, ast.Attribute) and call.func.attr == "format"):
        return None
    fmt = _const_str(call.func.value, b, call)
    if fmt is None:
        return None
    fields = format_fields(fmt)
    if fields is None:
        return None
    args = list(call.args)
    kw = {k.arg: k.value for k in call.keywords if k.arg}
    star_at = next((i for i, a in enumerate(args) if isinstance(a, ast.Starred)), None)
    parts, auto = [], 0
    for lit, name, spec, conv in fields:
        if lit:
            parts.append(("lit", lit))
        if name is None:
            continue
        base = re.split(r"[.\[]", name, 1)[0]
        if base == "":
            idx, auto = auto, auto + 1
        elif base.isdigit():
            idx = int(base)
        else:
            idx = None
        if idx is None:
            expr = kw.get(base)
        elif star_at is not None and idx >= star_at:
            expr = args[star_at]            # an element of the starred iterable
        else:
            expr = args[idx] if idx < len(args) else None
        if expr is None:
            expr = ast.Constant(value=None)
        sp = spec if "{" not in (spec or "") else None
        parts.append(("leaf", Leaf(expr, sp, conv, "format", call)))
    return parts


def fstring_parts(js):
    parts = []
    for v in js.values:
        if isinstance(v, ast.Constant):
            parts.append(("lit", str(v.value)))
        elif isinstance(v, ast.FormattedValue):
            if v.format_spec is None:
                spec = ""
            elif all(isinstance(x, ast.Constant) for x in v.format_spec.values):
                spec = "".join(str(x.value) for x in v.format_spec.values)
            else:
                spec = None
            conv = None if v.conversion == -1 else chr(v.conversion)
            parts.append(("leaf", Leaf(v.value, spec, conv, "fstring", js)))
    return parts


def percent_parts(binop, b=None):
    fmt = _const_str(binop.left, b, binop)
    if fmt is None:
        return None
    args = list(binop.right.elts) if isinstance(binop.right, ast.Tuple) else [binop.right]
    parts, pos, k = [], 0, 0
    for m in PCT.finditer(fmt):
        if m.start() > pos:
            parts.append(("lit", fmt[pos:m.start()]))
        pos = m.end()
        if m.group(1) == "%":
            parts.append(("lit", "%"))
            continue
        expr = args[k] if k < len(args) else ast.Constant(value=None)
        k += 1
        parts.append(("leaf", Leaf(expr, m.group(0), None, "percent", binop)))
    if pos < len(fmt):
        parts.append(("lit", fmt[pos:]))
    return parts


def leaves(fn, b=None):
    """Every formatting leaf of a function body (not entering nested defs); a default-formatted field that is itself a
    string expression is not a leaf (its own fields are)."""
    return [lf for lf in _leaves(fn, b) if not (lf.plain() and _is_text_expr(lf.expr))]


def _leaves(fn, b=None):
    out = []
    inside_spec = set()
    for n in au.walk(fn):
        if isinstance(n, ast.FormattedValue) and n.format_spec is not None:
            inside_spec.add(id(n.format_spec))
    for n in au.walk(fn):
        if isinstance(n, ast.JoinedStr) and id(n) not in inside_spec:
            out += [p[1] for p in fstring_parts(n) if p[0] == "leaf"]
        elif isinstance(n, ast.Call):
            if isinstance(n.func, ast.Attribute) and n.func.attr == "format":
                ps = format_call_parts(n, b)
                if ps is not None:
                    out += [p[1] for p in ps if p[0] == "leaf"]
            elif isinstance(n.func, ast.Name) and n.func.id in ("str", "repr", "format") and n.args:
                if n.func.id == "format" and len(n.args) > 1:
                    sp = _const_str(n.args[1])
                    out.append(Leaf(n.args[0], sp, None, "format", n))
                else:
                    out.append(Leaf(n.args[0], "", None, "str" if n.func.id != "repr" else "repr", n))
        elif isinstance(n, ast.BinOp) and isinstance(n.op, ast.Mod):
            ps = percent_parts(n, b)
            if ps is not None:
                out += [p[1] for p in ps if p[0] == "leaf"]
    return out


# --------------------------------------------------------------------------- text flattening
class Join:
    """`sep.join(<elt> for x in it)`: an unknown number of repetitions of `parts`."""

    def __init__(self, sep, parts, gens, node):
        self.sep, self.parts, self.gens, self.node = sep, parts, gens, node


def flatten(expr, b, at, depth=6):
    """Text written by `expr` as a list of ('lit', s) | ('leaf', Leaf) | ('join', Join) | ('unknown', node).
    A default-formatted field whose value is itself a string expression (`'{} {}'.format(n, ' '.join(..))`) is expanded."""
    out = []
    for p in _flatten(expr, b, at, depth):
        if p[0] == "leaf" and p[1].plain() and depth > 1 and _is_text_expr(p[1].expr):
            out += flatten(p[1].expr, b, at, depth - 1)
        else:
            out.append(p)
    return out


def _is_text_expr(e):
    if isinstance(e, ast.JoinedStr):
        return True
    if isinstance(e, ast.Call) and isinstance(e.func, ast.Attribute) and e.func.attr in ("join", "format") \
            and isinstance(e.func.value, ast.Constant) and isinstance(e.func.value.value, str):
        return True
    if isinstance(e, ast.BinOp) and isinstance(e.op, ast.Add) and (_is_text_expr(e.left) or _is_text_expr(e.right)
                                                                  or (isinstance(e.left, ast.Constant) and isinstance(e.left.value, str))
                                                                  or (isinstance(e.right, ast.Constant) and isinstance(e.right.value, str))):
        return True
    return False


def _flatten(expr, b, at, depth=6):
    if depth <= 0:
        return [("unknown", expr)]
    if isinstance(expr, ast.Constant) and isinstance(expr.value, str):
        return [("lit", expr.value)] if expr.value else []
    if isinstance(expr, ast.JoinedStr):
        return fstring_parts(expr)
    if isinstance(expr, ast.BinOp) and isinstance(expr.op, ast.Add):
        return flatten(expr.left, b, at, depth) + flatten(expr.right, b, at, depth)
    if isinstance(expr, ast.BinOp) and isinstance(expr.op, ast.Mod):
        ps = percent_parts(expr, b)
        if ps is not None:
            return ps
    if isinstance(expr, ast.Call):
        ps = format_call_parts(expr, b)
        if ps is not None:
            return ps
        if isinstance(expr.func, ast.Name) and expr.func.id == "str" and len(expr.args) == 1:
            return [("leaf", Leaf(expr.args[0], "", None, "str", expr))]
        if isinstance(expr.func, ast.Attribute) and expr.func.attr == "join" and len(expr.args) == 1:
            sep = _const_str(expr.func.value, b, at)
            a = expr.args[0]
            if sep is not None and isinstance(a, (ast.ListComp, ast.GeneratorExp)):
                return [("join", Join(sep, flatten(a.elt, b, at, depth - 1), a.generators, expr))]
            if sep is not None and isinstance(a, (ast.List, ast.Tuple)):
                out = []
                for i, e in enumerate(a.elts):
                    if i:
                        out.append(("lit", sep))
                    out += flatten(e, b, at, depth - 1)
                return out
    if isinstance(expr, ast.Name):
        acc = accumulated(expr.id, at, b, depth - 1)
        if acc is not None:
            return acc
    return [("unknown", expr)]


def accumulated(name, at, b, depth):
    """Text held by local string `name` at statement `at`: `name = A`, then `name += B` ... in the same block."""
    st = au.enclosing_stmt(at)
    blk, owner = au.enclosing_block(st)
    if blk is None:
        return None
    idx = [id(x) for x in blk].index(id(st))
    pieces = []
    for s in reversed(blk[:idx]):
        if isinstance(s, ast.AugAssign) and isinstance(s.target, ast.Name) and s.target.id == name \
                and isinstance(s.op, ast.Add):
            pieces.insert(0, flatten(s.value, b, s, depth))
            continue
        if isinstance(s, ast.Assign) and len(s.targets) == 1 and isinstance(s.targets[0], ast.Name) \
                and s.targets[0].id == name:
            pieces.insert(0, flatten(s.value, b, s, depth))
            return [p for ps in pieces for p in ps]
        if sym.Bindings._assigns(s, name):
            # assigned inside a nested statement (loop / branch): contents unknown from here
            pieces.insert(0, [("unknown", s)])
            # keep looking for the initial value
            continue
    return None


def leading_token(parts):
    """First whitespace-delimited token of the flattened text if it is literal, else None."""
    if not parts or parts[0][0] != "lit":
        return None
    txt = parts[0][1]
    toks = txt.split()
    if not toks:
        return None
    # the token must be complete: followed by whitespace inside the literal, or the literal ends
    # the line; `'v ' + ...` -> 'v'
    if txt.lstrip().startswith(toks[0]) and (len(txt.lstrip()) > len(toks[0]) or len(parts) == 1):
        return toks[0]
    return toks[0] if len(parts) > 1 and parts[1][0] == "lit" else None


def lines_of(parts):
    """Split flattened parts at newlines: list of lines, each a list of parts (literals stripped of '\n')."""
    lines, cur = [], []
    for p in parts:
        if p[0] == "lit":
            chunks = p[1].split("\n")
            for i, c in enumerate(chunks):
                if i:
                    lines.append(cur)
                    cur = []
                if c:
                    cur.append(("lit", c))
        else:
            cur.append(p)
    if cur:
        lines.append(cur)
    return lines


# --------------------------------------------------------------------------- provenance in exporters
def strip_enumerate(it):
    if isinstance(it, ast.Call) and au.call_tail(it) == "enumerate" and it.args:
        return it.args[0], True
    return it, False


class Prov:
    """Scope-aware provenance of mesh rows in an exporter: does a local name hold a row (`face`) or an
    element (`vid`, `a`, `v[0]`) of a mesh container `mesh.<kind>`?  `mesh` is the first parameter."""

    def __init__(self, fn, mesh_name=None, b=None):
        self.fn = fn
        ps = au.params(fn, skip_self=True)
        self.mesh = mesh_name or (ps[0] if ps else None)
        self.b = b
        self.ids_of = {}
        self.context = {}          # id(loop / comprehension node) -> kind of the rows it iterates (set while a row block is read)

    # mesh.<kind>
    def container_kind(self, e):
        # a local that caches the container (`faces = mesh.faces`)
        if isinstance(e, ast.Name) and self.b is not None and au.parent(e) is not None:
            d = self.b.reaching(e.id, e)
            if isinstance(d, ast.Attribute):
                e = d
        if isinstance(e, ast.Attribute) and isinstance(e.value, ast.Name) and e.value.id == self.mesh:
            if e.attr in KINDS or e.attr in CORNER_KINDS:
                return e.attr
        return None

    # -- binding lookup -------------------------------------------------------------------------
    def find_binding(self, name, at):
        """(target, source expr, how, node) of the innermost binding of `name` visible at node `at`."""
        child = at
        via_iter = False
        for a in au.ancestors(at):
            if isinstance(a, ast.comprehension):
                via_iter = child is a.iter
                child = a
                continue
            if isinstance(a, (ast.For, ast.AsyncFor)):
                if child is not a.iter and child is not a.target and name in au.assigned_names(a.target):
                    return a.target, a.iter, "for", a
            elif isinstance(a, (ast.ListComp, ast.GeneratorExp, ast.SetComp, ast.DictComp)):
                gens = a.generators
                if isinstance(child, ast.comprehension):
                    k = [i for i, g in enumerate(gens) if g is child][0]
                    visible = gens[:k] if via_iter else gens[:k + 1]
                else:
                    visible = gens
                for g in reversed(visible):
                    if name in au.assigned_names(g.target):
                        return g.target, g.iter, "comp", a
            # assignments earlier in the enclosing block
            if isinstance(child, ast.stmt):
                blk, _ = au.enclosing_block(child)
                if blk:
                    idx = [id(x) for x in blk].index(id(child))
                    for s in reversed(blk[:idx]):
                        if isinstance(s, ast.Assign) and len(s.targets) == 1 \
                                and name in au.assigned_names(s.targets[0]):
                            return s.targets[0], s.value, "assign", s
                        if sym.Bindings._assigns(s, name):
                            return None
            if isinstance(a, (ast.FunctionDef, ast.AsyncFunctionDef)):
                break
            child = a
        return None

    def name_role(self, name, at, depth=0):
        """('row', kind) | ('elem', kind, position|None) | None for local `name` as seen from `at`."""
        if depth > 6:
            return None
        bd = self.find_binding(name, at)
        if bd is None:
            return None
        target, src_e, how, node = bd
        if how in ("for", "comp") and id(target) in self.context:
            inner, en = strip_enumerate(src_e)
            if en and isinstance(target, (ast.Tuple, ast.List)) and len(target.elts) == 2:
                if name in au.assigned_names(target.elts[0]):
                    return None
                target = target.elts[1]
            ckind, corner = self.context[id(bd[0])]
            if corner:
                return ("elem", ckind, None) if isinstance(target, ast.Name) else None
            return self._from_row(target, name, ckind)
        if how in ("for", "comp"):
            inner, en = strip_enumerate(src_e)
            if en:
                if not (isinstance(target, (ast.Tuple, ast.List)) and len(target.elts) == 2):
                    return None
                if name in au.assigned_names(target.elts[0]):
                    return None
                target = target.elts[1]
            k = self.container_kind(inner)
            if k is None and depth < 5:
                # a positional subset / copy / filtered copy of the container still yields rows of it
                ri = self.rows_info(inner, node, depth + 1)
                k = ri[0] if ri else None
            if k is not None:
                if k in CORNER_KINDS:
                    return ("elem", CORNER_KINDS[k], None) if isinstance(target, ast.Name) else None
                return self._from_row(target, name, k)
            un = self.unwrap_row(inner)
            # the iterable of a comprehension clause is looked up from inside the comprehension (earlier clauses are visible)
            rk = self.row_expr_kind(un, un if how == "comp" and au.parent(un) is not None else node, depth + 1)
            if rk is not None and isinstance(target, ast.Name):
                return ("elem", rk, None)
            return None
        rk = self.row_expr_kind(src_e, node, depth + 1)
        if rk is not None:
            return self._from_row(target, name, rk)
        return None

    def rows_info(self, e, at=None, depth=0):
        """(kind, filters, sliced) when `e` denotes a sequence of rows of mesh.<kind>: the container itself, a slice / copy of it,
        a comprehension `[r for r in <rows> if cond]`, or a local bound to one of these; filters = the `if` tests met on the way"""
        if depth > 6:
            return None
        at = at if at is not None else e
        k = self.container_kind(e)
        if k in KINDS:
            return k, [], False
        if isinstance(e, ast.Call) and au.call_tail(e) in self.ROW_WRAPPERS and e.args and not isinstance(e.func, ast.Attribute):
            return self.rows_info(e.args[0], at, depth + 1)
        if isinstance(e, ast.Subscript) and isinstance(e.slice, ast.Slice):
            r = self.rows_info(e.value, at, depth + 1)
            if r is None:
                return None
            sl = e.slice
            full = sl.lower is None and sl.upper is None and (sl.step is None or au.const(sl.step) == 1)
            return r[0], r[1], r[2] or not full
        if isinstance(e, (ast.ListComp, ast.GeneratorExp)) and len(e.generators) == 1 and isinstance(e.elt, ast.Name) \
                and isinstance(e.generators[0].target, ast.Name) and e.elt.id == e.generators[0].target.id:
            r = self.rows_info(e.generators[0].iter, at, depth + 1)
            if r is None:
                return None
            return r[0], r[1] + list(e.generators[0].ifs), r[2]
        if isinstance(e, ast.IfExp):
            empty = lambda x: isinstance(x, (ast.List, ast.Tuple)) and not x.elts
            if empty(e.orelse):
                return self.rows_info(e.body, at, depth + 1)       # `rows if cond else []`: nothing is written otherwise
            if empty(e.body):
                return self.rows_info(e.orelse, at, depth + 1)
            return None
        if isinstance(e, ast.Name):
            bd = self.find_binding(e.id, at if au.parent(e) is None else e)
            if bd and bd[2] == "assign" and isinstance(bd[0], ast.Name):
                return self.rows_info(bd[1], bd[3], depth + 1)
            if bd is None:
                # bound on several paths (`rows = A if .. else B` spelt with statements): rows of one kind on every path
                defs = [st for st in au.stmts(self.fn.body) if isinstance(st, ast.Assign) and len(st.targets) == 1
                        and isinstance(st.targets[0], ast.Name) and st.targets[0].id == e.id]
                others = [st for st in au.stmts(self.fn.body) if st not in defs and sym.Bindings._assigns(st, e.id, deep=False)]
                infos = [self.rows_info(st.value, st, depth + 1) for st in defs]
                if len(defs) >= 2 and not others and all(i_ is not None for i_ in infos) and len({i_[0] for i_ in infos}) == 1:
                    return infos[0][0], [ast.Constant(value="<selection depends on the path>")], True
        if isinstance(e, (ast.ListComp, ast.GeneratorExp)) and len(e.generators) == 1 and isinstance(e.elt, ast.Subscript) \
                and self.container_kind(e.elt.value) in KINDS and isinstance(e.generators[0].target, ast.Name) \
                and isinstance(e.elt.slice, ast.Name) and e.elt.slice.id == e.generators[0].target.id:
            # rows picked by an id sequence: [mesh.K[i] for i in ids]
            self.ids_of[id(e)] = e.generators[0].iter
            return self.container_kind(e.elt.value), list(e.generators[0].ifs), ("ids", e.generators[0].iter)
        return None

    ROW_WRAPPERS = {"sorted", "reversed", "list", "tuple", "set", "frozenset", "keyify", "array", "asarray", "flip", "sort",
                    "unique"}

    @classmethod
    def unwrap_row(cls, e):
        """`sorted(face)`, `face[::-1]`, `list(face)` -> `face` (the elements are still those of the row; whether
        their order survives is the business of C04-V1)."""
        for _ in range(4):
            if isinstance(e, ast.Call) and au.call_tail(e) in cls.ROW_WRAPPERS and e.args:
                e = e.args[0]
            elif isinstance(e, ast.Subscript) and isinstance(e.slice, ast.Slice):
                e = e.value
            else:
                break
        return e

    @staticmethod
    def _from_row(target, name, kind):
        if isinstance(target, ast.Name):
            return ("row", kind)
        if isinstance(target, (ast.Tuple, ast.List)):
            for i, t in enumerate(target.elts):
                if isinstance(t, ast.Name) and t.id == name:
                    return ("elem", kind, i)
        return None

    def row_expr_kind(self, e, at=None, depth=0):
        """kind if `e` denotes one row: a row name, or `mesh.<kind>[i]`."""
        at = at if at is not None else e
        if isinstance(e, ast.Name):
            r = self.name_role(e.id, at, depth)
            return r[1] if r and r[0] == "row" else None
        if isinstance(e, ast.Subscript) and not isinstance(e.slice, ast.Slice):
            k = self.container_kind(e.value)
            if k in KINDS:
                return k
        return None

    # -- loops over rows --------------------------------------------------------------------------
    def row_loops(self):
        """[(kind, For node, via)]: `for r in mesh.K` (via='loop', also enumerate) and
        `for e in <ids>: a, b = mesh.K[e]` (via='index')."""
        out = []
        for st in au.stmts(self.fn.body):
            if not isinstance(st, ast.For):
                continue
            inner, en = strip_enumerate(st.iter)
            k = self.container_kind(inner)
            if k is not None:
                out.append((CORNER_KINDS.get(k, k), st, "loop"))
                continue
            if isinstance(st.target, ast.Name):
                for s in st.body:
                    if isinstance(s, ast.Assign) and isinstance(s.value, ast.Subscript) \
                            and self.container_kind(s.value.value) in KINDS \
                            and isinstance(s.value.slice, ast.Name) and s.value.slice.id == st.target.id:
                        out.append((self.container_kind(s.value.value), st, "index"))
                        break
        return out

    # -- classification of a rendered expression -------------------------------------------------------
    def classify(self, e, at=None):
        """('elem', kind, offset|None, position|None) for an expression that renders one element of a row;
        ('row', kind) for a whole row; None otherwise.  `offset` is the integer added to the element."""
        at = at if at is not None else e
        if isinstance(e, ast.Starred):
            v = e.value
            rk = self.row_expr_kind(v, at)
            if rk is not None:
                return ("elem", rk, 0, None)
            if isinstance(v, (ast.GeneratorExp, ast.ListComp)) and len(v.generators) == 1:
                g = v.generators[0]
                rk = self.row_expr_kind(g.iter, at)
                if rk is not None and isinstance(g.target, ast.Name) and not g.ifs:
                    off = affine_offset(v.elt, lambda x: isinstance(x, ast.Name) and x.id == g.target.id)
                    return ("elem", rk, off, None)
            return None
        rk = self.row_expr_kind(e, at)
        if rk is not None:
            return ("row", rk)
        found = []
        for x in au.walk(e):
            if isinstance(x, ast.Name) and isinstance(x.ctx, ast.Load):
                r = self.name_role(x.id, x if au.parent(x) is not None else at)
                if r and r[0] == "elem":
                    found.append((x, r[1], r[2]))
            elif isinstance(x, ast.Subscript) and not isinstance(x.slice, ast.Slice):
                rk = self.row_expr_kind(x.value, x.value if au.parent(x.value) is not None else at)
                if rk is not None:
                    found.append((x, rk, au.const(x.slice)))
        if not found:
            return None
        x, kind, pos = found[0]
        if len(found) > 1 and not all(au.same(f[0], x) for f in found):
            return ("elem", kind, None, pos)
        return ("elem", kind, affine_offset(e, lambda y: au.same(y, x)), pos)


def affine_offset(expr, is_atom):
    """k if expr == atom + k (integer k), else None."""
    try:
        p = sym.to_poly(expr, atom_of=lambda n: "@" if is_atom(n) else None, opaque=False)
    except sym.NotPoly:
        return None
    if p.coeff("@") == sym.Poly.const(1) and p.without("@").is_const() and p.degree_in("@") == 1:
        c = p.without("@").const_value()
        if c.denominator == 1:
            return int(c)
    return None


def arith_context(call, root):
    """Largest `+/- constant` expression around `call` inside `root`; returns its offset or None."""
    parents = {}
    for n in ast.walk(root):
        for c in ast.iter_child_nodes(n):
            parents[id(c)] = n
    top = call
    while id(top) in parents and isinstance(parents[id(top)], (ast.BinOp, ast.UnaryOp)):
        p = parents[id(top)]
        if isinstance(p, ast.BinOp) and not isinstance(p.op, (ast.Add, ast.Sub)):
            return None
        top = p
    return affine_offset(top, lambda x: x is call)


# --------------------------------------------------------------------------- constant folding of enum helpers
class Unfoldable(Exception):
    pass


class Raised(Exception):
    pass


class Member:
    def __init__(self, enum, name, value=None):
        self.enum, self.name, self.value = enum, name, value

    def __eq__(self, o):
        return isinstance(o, Member) and (o.enum, o.name) == (self.enum, self.name)

    def __hash__(self):
        return hash((self.enum, self.name))

    def __repr__(self):
        return f"{self.enum}.{self.name}"


def enum_members(cls):
    """Member names (and literal values when they are literals) of an Enum class body."""
    out = {}
    for st in cls.body:
        if isinstance(st, ast.Assign) and len(st.targets) == 1 and isinstance(st.targets[0], ast.Name) \
                and not st.targets[0].id.startswith("_"):
            out[st.targets[0].id] = Member(cls.name, st.targets[0].id, au.literal(st.value))
    return out


class Folder:
    """Evaluates a tiny pure function (if / return / raise, comparisons with literals, str methods,
    dict literal .get) on enum members and strings.  Anything else raises Unfoldable."""

    STR_METHODS = {"lower", "upper", "strip", "lstrip", "rstrip", "replace", "startswith", "endswith", "split",
                   "capitalize", "title", "format"}

    def __init__(self, cls, consts=None):
        self.cls = cls
        self.members = enum_members(cls)
        self.steps = 0
        self.consts = consts or {}          # module-level literal tables the methods may look up

    def method(self, name):
        for st in self.cls.body:
            if isinstance(st, ast.FunctionDef) and st.name == name:
                return st
        return None

    def call(self, name, *args):
        fn = self.method(name)
        if fn is None:
            raise Unfoldable(f"{self.cls.name}.{name} not found")
        ps = au.params(fn)
        env = {}
        if ps:
            is_cls = any(isinstance(d, ast.Name) and d.id == "classmethod" for d in fn.decorator_list)
            if is_cls:
                env[ps[0]] = ("cls",)
                rest = ps[1:]
                vals = list(args)
            else:
                rest = ps[1:]
                env[ps[0]] = args[0]
                vals = list(args[1:])
            defaults = fn.args.defaults
            for i, p in enumerate(rest):
                if i < len(vals):
                    env[p] = vals[i]
                else:
                    j = i - (len(rest) - len(defaults))
                    if j < 0:
                        raise Unfoldable("missing argument")
                    env[p] = self.ev(defaults[j], {})
        r = self.run(fn.body, env)
        return r[1] if r is not None else None

    def run(self, body, env):
        for st in body:
            self.steps += 1
            if self.steps > 5000:
                raise Unfoldable("too many steps")
            if isinstance(st, ast.Expr):
                if isinstance(st.value, ast.Constant):
                    continue
                self.ev(st.value, env)
            elif isinstance(st, ast.Return):
                return ("ret", None if st.value is None else self.ev(st.value, env))
            elif isinstance(st, ast.Raise):
                raise Raised(au.src(st))
            elif isinstance(st, ast.If):
                r = self.run(st.body if self.truth(self.ev(st.test, env)) else st.orelse, env)
                if r is not None:
                    return r
            elif isinstance(st, ast.Assign) and len(st.targets) == 1 and isinstance(st.targets[0], ast.Name):
                env[st.targets[0].id] = self.ev(st.value, env)
            elif isinstance(st, ast.Pass):
                continue
            else:
                raise Unfoldable(au.src(st))
        return None

    @staticmethod
    def truth(v):
        if isinstance(v, Member):
            return True
        return bool(v)

    def ev(self, e, env):
        if isinstance(e, ast.Constant):
            return e.value
        if isinstance(e, ast.Name):
            if e.id in env:
                return env[e.id]
            if e.id in ("None", "True", "False"):
                return {"None": None, "True": True, "False": False}[e.id]
            if e.id in self.consts:
                return self.ev(self.consts[e.id], {})
            raise Unfoldable(e.id)
        if isinstance(e, ast.Attribute):
            # <anything>.<Enum>.<Member> or cls.<Member>
            if e.attr in self.members:
                base = e.value
                if (isinstance(base, ast.Name) and env.get(base.id) == ("cls",)) or \
                        (isinstance(base, ast.Attribute) and base.attr == self.cls.name) or \
                        (isinstance(base, ast.Name) and base.id == self.cls.name):
                    return self.members[e.attr]
            v = self.ev(e.value, env)
            if isinstance(v, Member) and e.attr == "name":
                return v.name
            if isinstance(v, Member) and e.attr == "value":
                if v.value is None:
                    raise Unfoldable("enum value")
                return v.value
            raise Unfoldable(au.src(e))
        if isinstance(e, (ast.Set, ast.List, ast.Tuple)):
            vals = [self.ev(x, env) for x in e.elts]
            return set(vals) if isinstance(e, ast.Set) else (vals if isinstance(e, ast.List) else tuple(vals))
        if isinstance(e, ast.Dict):
            return {self.ev(k, env): self.ev(v, env) for k, v in zip(e.keys, e.values)}
        if isinstance(e, ast.Compare):
            left = self.ev(e.left, env)
            for op, c in zip(e.ops, e.comparators):
                right = self.ev(c, env)
                if isinstance(op, ast.Eq):
                    ok = left == right
                elif isinstance(op, ast.NotEq):
                    ok = left != right
                elif isinstance(op, ast.In):
                    ok = left in right
                elif isinstance(op, ast.NotIn):
                    ok = left not in right
                elif isinstance(op, ast.Is):
                    ok = left is right or (isinstance(left, Member) and left == right)
                elif isinstance(op, ast.IsNot):
                    ok = not (left is right or (isinstance(left, Member) and left == right))
                else:
                    raise Unfoldable(au.src(e))
                if not ok:
                    return False
                left = right
            return True
        if isinstance(e, ast.BoolOp):
            if isinstance(e.op, ast.And):
                v = True
                for x in e.values:
                    v = self.ev(x, env)
                    if not self.truth(v):
                        return v
                return v
            v = False
            for x in e.values:
                v = self.ev(x, env)
                if self.truth(v):
                    return v
            return v
        if isinstance(e, ast.UnaryOp) and isinstance(e.op, ast.Not):
            return not self.truth(self.ev(e.operand, env))
        if isinstance(e, ast.IfExp):
            return self.ev(e.body if self.truth(self.ev(e.test, env)) else e.orelse, env)
        if isinstance(e, ast.BinOp) and isinstance(e.op, ast.Add):
            a, c = self.ev(e.left, env), self.ev(e.right, env)
            if isinstance(a, str) and isinstance(c, str):
                return a + c
            raise Unfoldable(au.src(e))
        if isinstance(e, ast.JoinedStr):
            out = ""
            for v in e.values:
                if isinstance(v, ast.Constant):
                    out += str(v.value)
                else:
                    raise Unfoldable("f-string")
            return out
        if isinstance(e, ast.Subscript):
            base = self.ev(e.value, env)
            if isinstance(e.slice, ast.Slice):
                lo = None if e.slice.lower is None else self.ev(e.slice.lower, env)
                hi = None if e.slice.upper is None else self.ev(e.slice.upper, env)
                if isinstance(base, (str, list, tuple)) and e.slice.step is None:
                    return base[lo:hi]
                raise Unfoldable(au.src(e))
            k = self.ev(e.slice, env)
            if base == ("cls",) or (isinstance(e.value, ast.Name) and e.value.id == self.cls.name):
                if isinstance(k, str) and k in self.members:
                    return self.members[k]          # Enum[name]
                raise Raised(f"no member {k!r}")
            try:
                return base[k]
            except (KeyError, IndexError, TypeError):
                raise Raised(f"{au.src(e)} has no entry {k!r}")
        if isinstance(e, ast.Call) and isinstance(e.func, ast.Attribute):
            recv = self.ev(e.func.value, env)
            args = [self.ev(a, env) for a in e.args]
            m = e.func.attr
            if isinstance(recv, str) and m in self.STR_METHODS and not e.keywords:
                return getattr(recv, m)(*args)
            if isinstance(recv, dict) and m == "get":
                return recv.get(*args)
            if recv == ("cls",) and self.method(m) is not None:
                return self.call(m, *args)
            if isinstance(recv, Member) and self.method(m) is not None:
                return self.call(m, recv, *args)
            raise Unfoldable(au.src(e))
        if isinstance(e, ast.Call) and isinstance(e.func, ast.Name) and e.func.id in ("str", "int", "len") \
                and len(e.args) == 1:
            v = self.ev(e.args[0], env)
            if e.func.id == "str" and isinstance(v, (str, int)):
                return str(v)
            if e.func.id == "len" and isinstance(v, (str, list, tuple, set, dict)):
                return len(v)
            if e.func.id == "int" and isinstance(v, (int, bool)):
                return int(v)
            raise Unfoldable(au.src(e))
        raise Unfoldable(au.src(e))


def folder_for(repo, modname, qual):
    """Folder of an enum class with the literal module-level tables of its module"""
    from . import hc_flat
    return Folder(repo.cls(modname, qual), hc_flat.module_constants(repo.module(modname)))


# --------------------------------------------------------------------------- small evaluators
def eval_test(test, env):
    """Evaluate a comparison / boolean test whose only free names are in env (ints / strs); None if it
    mentions anything else."""
    if isinstance(test, ast.Constant):
        return test.value
    if isinstance(test, ast.Name):
        return env.get(test.id, None) if test.id in env else None
    if isinstance(test, ast.BoolOp):
        vals = [eval_test(v, env) for v in test.values]
        if any(v is None for v in vals):
            return None
        return all(vals) if isinstance(test.op, ast.And) else any(vals)
    if isinstance(test, ast.UnaryOp) and isinstance(test.op, ast.Not):
        v = eval_test(test.operand, env)
        return None if v is None else (not v)
    if isinstance(test, ast.Compare):
        def val(x):
            if isinstance(x, ast.Constant):
                return x.value
            if isinstance(x, ast.Name) and x.id in env:
                return env[x.id]
            if isinstance(x, (ast.Tuple, ast.List, ast.Set)):
                vs = [val(y) for y in x.elts]
                return None if any(v is None for v in vs) else vs
            if isinstance(x, ast.UnaryOp) and isinstance(x.op, ast.USub):
                v = val(x.operand)
                return None if v is None else -v
            return None
        if len(test.ops) == 1 and isinstance(test.ops[0], (ast.Is, ast.IsNot)) and isinstance(test.comparators[0], ast.Constant) \
                and test.comparators[0].value is None:
            lv = val(test.left)
            if lv is None:
                return None
            return isinstance(test.ops[0], ast.IsNot)
        left = val(test.left)
        if left is None:
            return None
        for op, c in zip(test.ops, test.comparators):
            right = val(c)
            if right is None:
                return None
            try:
                if isinstance(op, ast.Eq): ok = left == right
                elif isinstance(op, ast.NotEq): ok = left != right
                elif isinstance(op, ast.Lt): ok = left < right
                elif isinstance(op, ast.LtE): ok = left <= right
                elif isinstance(op, ast.Gt): ok = left > right
                elif isinstance(op, ast.GtE): ok = left >= right
                elif isinstance(op, ast.In): ok = left in right
                elif isinstance(op, ast.NotIn): ok = left not in right
                else: return None
            except TypeError:
                return None
            if not ok:
                return False
            left = right
        return True
    return None


def if_chain(stmt):
    """[(test|None, body)] of an if / elif / else chain starting at `stmt`."""
    out = []
    cur = stmt
    while True:
        out.append((cur.test, cur.body))
        if len(cur.orelse) == 1 and isinstance(cur.orelse[0], ast.If):
            cur = cur.orelse[0]
            continue
        if cur.orelse:
            out.append((None, cur.orelse))
        return out


def is_chain_head(stmt):
    """An `if` that is not itself the `elif` of another one."""
    p = au.parent(stmt)
    return not (isinstance(p, ast.If) and len(p.orelse) == 1 and p.orelse[0] is stmt)
