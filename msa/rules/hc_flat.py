"""C04 helper: one flat function per codec entry point.

`flat(repo, modname, fn)` returns a copy of `fn` in which the calls to helpers the maintainers may have extracted (functions of the
same module, private functions, nested defs, lambdas bound to a local name) are replaced by their bodies, so that the codec rules see
one function whatever the decomposition into helpers is.  Only semantics-preserving steps:

  * expression helpers (assignments to fresh locals, if/return chains, one return value) are substituted as expressions;
  * other helpers are spliced as statements: locals renamed apart, parameters bound (substituted when the argument is a plain
    name / attribute / literal and the parameter is never re-bound), `return` turned into the continuation of the call statement
    (early `if c: return` becomes `if c: .. else: <rest>`);
  * `map(f, xs)` is written as the generator `(f(m) for m in xs)`; module-level literal tables / constants are substituted for their
    name; `a, b = <tuple>` stays.

A call that cannot be inlined safely (return inside a loop, *args, recursion, generator, decorator) is left as it is: the rules then
see an opaque call and answer `undecided`, never a violation.  Nothing is executed."""
from __future__ import annotations
import ast
from .. import au
from ..normal import normalise
from .codec_c04 import clean

MAX_DEPTH = 4
QUIET = {"logger", "logging", "warnings", "log", "print", "_logger", "LOGGER"}


class _Sub(ast.NodeTransformer):
    def __init__(self, mapping, rename=None):
        self.mapping, self.rename = mapping, rename or {}

    def visit_Name(self, node):
        if node.id in self.mapping and isinstance(node.ctx, ast.Load):
            return ast.copy_location(clean(self.mapping[node.id]), node)
        if node.id in self.rename:
            return ast.copy_location(ast.Name(id=self.rename[node.id], ctx=node.ctx), node)
        return node

    def visit_arg(self, node):
        return node

    def visit_Lambda(self, node):
        shadow = {a.arg for a in node.args.args}
        inner = _Sub({k: v for k, v in self.mapping.items() if k not in shadow},
                     {k: v for k, v in self.rename.items() if k not in shadow})
        node.body = inner.visit(node.body)
        return node


def _stored(body):
    out = set()
    for st in body:
        for n in ast.walk(st):
            if isinstance(n, ast.Name) and isinstance(n.ctx, (ast.Store, ast.Del)):
                out.add(n.id)
            elif isinstance(n, (ast.FunctionDef, ast.AsyncFunctionDef, ast.ClassDef)):
                out.add(n.name)
            elif isinstance(n, ast.ExceptHandler) and n.name:
                out.add(n.name)
    return out


def _simple(e):
    """an argument that may be substituted for its parameter (no evaluation, no effect)"""
    if isinstance(e, (ast.Name, ast.Constant)):
        return True
    if isinstance(e, ast.Attribute):
        return _simple(e.value)
    if isinstance(e, ast.Subscript) and not isinstance(e.slice, ast.Slice):
        return _simple(e.value) and _simple(e.slice)
    if isinstance(e, (ast.Tuple, ast.List)):
        return all(_simple(x) for x in e.elts)
    if isinstance(e, ast.UnaryOp) and isinstance(e.operand, ast.Constant):
        return True
    return False


def _docless(body):
    if body and isinstance(body[0], ast.Expr) and isinstance(body[0].value, ast.Constant) and isinstance(body[0].value.value, str):
        return body[1:]
    return body


def _has(body, types):
    return any(isinstance(n, types) for st in body for n in au.walk(st))


def _always_returns(body):
    if not body:
        return False
    last = body[-1]
    if isinstance(last, (ast.Return, ast.Raise)):
        return True
    if isinstance(last, ast.If) and last.orelse:
        return _always_returns(last.body) and _always_returns(last.orelse)
    if isinstance(last, (ast.With, ast.AsyncWith)):
        return _always_returns(last.body)
    return False


def _bind(helper, call):
    """{param: argument expr} or None"""
    a = helper.args
    # `f(x, *CONST, y)` with a literal tuple / list: the elements are the arguments
    cargs = []
    for x in call.args:
        if isinstance(x, ast.Starred) and isinstance(x.value, (ast.Tuple, ast.List)) and not any(isinstance(e, ast.Starred) for e in x.value.elts):
            cargs += list(x.value.elts)
        else:
            cargs.append(x)
    if a.vararg or a.kwarg or any(isinstance(x, ast.Starred) for x in cargs) or any(k.arg is None for k in call.keywords):
        return None
    pos = [x.arg for x in a.posonlyargs + a.args]
    out = {}
    if len(cargs) > len(pos):
        return None
    for p, v in zip(pos, cargs):
        out[p] = v
    kwn = pos + [x.arg for x in a.kwonlyargs]
    for k in call.keywords:
        if k.arg not in kwn or k.arg in out:
            return None
        out[k.arg] = k.value
    defaults = dict(zip(pos[len(pos) - len(a.defaults):], a.defaults))
    for x, d in zip(a.kwonlyargs, a.kw_defaults):
        if d is not None:
            defaults[x.arg] = d
    for p in kwn:
        if p not in out:
            if p not in defaults:
                return None
            out[p] = defaults[p]
    return out


class Flattener:
    def __init__(self, repo, keep=()):
        self.repo = repo
        self.keep = set(keep)
        self.counter = 0
        self.cache = {}

    # ------------------------------------------------------------------ callee lookup
    def callee(self, modname, scope_fn, call, stack):
        f = call.func
        if not isinstance(f, ast.Name):
            return None
        name = f.id
        if name in self.keep:
            return None
        # nested def / lambda of the function being flattened
        for st in scope_fn.body:
            if isinstance(st, ast.FunctionDef) and st.name == name:
                return self._usable(modname, st, stack, nested=True)
        lam = [st for st in au.stmts(scope_fn.body) if isinstance(st, ast.Assign) and len(st.targets) == 1
               and isinstance(st.targets[0], ast.Name) and st.targets[0].id == name]
        if len(lam) == 1 and isinstance(lam[0].value, ast.Lambda) and name not in au.params(scope_fn):
            return ("lambda", modname, lam[0].value)
        if name in _stored(scope_fn.body) or name in au.params(scope_fn):
            return None
        full = modname if modname.startswith("mouette") else "mouette." + modname
        r = self.repo.resolve(full, name)
        if not r or r[0] != "def":
            return None
        m = self.repo.modules.get(r[1])
        if m is None:
            return None
        target = m.funcs.get(r[2])
        if target is None:
            return None
        if not (r[1] == full or r[2].startswith("_") or r[1].startswith("mouette.mesh.io")):
            return None
        return self._usable(r[1], target, stack, nested=False)

    def _usable(self, modname, fn, stack, nested):
        if fn.decorator_list or isinstance(fn, ast.AsyncFunctionDef):
            return None
        key = (modname, getattr(fn, "_qualname", fn.name))
        if key in stack or len(stack) >= MAX_DEPTH:
            return None
        if _has(fn.body, (ast.Yield, ast.YieldFrom, ast.Global, ast.Nonlocal)):
            return None
        return ("def", modname, fn)

    # ------------------------------------------------------------------ expression form of a helper
    def as_expr(self, fn_body, env):
        """value of a body made of assignments to fresh names and if / return chains, or None"""
        env = dict(env)
        body = _docless(fn_body)
        for i, st in enumerate(body):
            if isinstance(st, ast.Return):
                return _Sub(env).visit(clean(st.value)) if st.value is not None else ast.Constant(value=None)
            if isinstance(st, ast.Assign) and len(st.targets) == 1 and isinstance(st.targets[0], ast.Name):
                env[st.targets[0].id] = _Sub(env).visit(clean(st.value))
                continue
            if isinstance(st, ast.AnnAssign) and isinstance(st.target, ast.Name) and st.value is not None:
                env[st.target.id] = _Sub(env).visit(clean(st.value))
                continue
            if isinstance(st, ast.Assign) and len(st.targets) == 1 and isinstance(st.targets[0], (ast.Tuple, ast.List)) \
                    and isinstance(st.value, (ast.Tuple, ast.List)) and len(st.value.elts) == len(st.targets[0].elts) \
                    and all(isinstance(t, ast.Name) for t in st.targets[0].elts):
                vals = [_Sub(env).visit(clean(v)) for v in st.value.elts]
                for t, v in zip(st.targets[0].elts, vals):
                    env[t.id] = v
                continue
            if isinstance(st, ast.Expr) and isinstance(st.value, ast.Call) and (au.chain(st.value.func) or ["?"])[0] in QUIET:
                continue
            if isinstance(st, ast.Pass):
                continue
            if isinstance(st, ast.If):
                rest = body[i + 1:]
                a = self.as_expr(st.body + (rest if not _always_returns(st.body) else []), env)
                b = self.as_expr(st.orelse + (rest if not _always_returns(st.orelse) else []), env)
                if a is None or b is None:
                    return None
                return ast.IfExp(test=_Sub(env).visit(clean(st.test)), body=a, orelse=b)
            return None
        return None

    # ------------------------------------------------------------------ statement form
    def structure(self, body, cont):
        """body with every `return v` replaced by cont(v) (a list of statements); None when a return is not in tail position"""
        out = []
        for i, st in enumerate(body):
            if isinstance(st, (ast.FunctionDef, ast.AsyncFunctionDef, ast.ClassDef)):
                out.append(st)
                continue
            if isinstance(st, ast.Return):
                out += cont(st.value)
                return out
            if isinstance(st, ast.Raise):
                out.append(st)
                return out
            if isinstance(st, ast.If) and _has([st], ast.Return):
                rest = body[i + 1:]
                ar_b, ar_e = _always_returns(st.body), _always_returns(st.orelse)
                if not (ar_b or ar_e):
                    return None
                nb = self.structure(st.body + ([] if ar_b else rest), cont)
                ne = self.structure(st.orelse + ([] if ar_e else rest), cont)
                if nb is None or ne is None:
                    return None
                out.append(ast.copy_location(ast.If(test=st.test, body=nb or [ast.Pass()], orelse=ne), st))
                return out
            if isinstance(st, (ast.With, ast.AsyncWith)) and _has([st], ast.Return):
                if i != len(body) - 1:
                    return None
                nb = self.structure(st.body, cont)
                if nb is None:
                    return None
                st.body = nb or [ast.Pass()]
                out.append(st)
                return out
            if _has([st], ast.Return):
                return None
            out.append(st)
        out += cont(None)
        return out

    def prepared(self, kind, modname, fn, stack):
        """flattened body of the helper (a fresh copy)"""
        if kind == "lambda":
            return [ast.Return(value=clean(fn.body))]
        key = (modname, getattr(fn, "_qualname", fn.name))
        flat_fn = self.flat(modname, fn, stack)
        return clean(flat_fn.body)

    def inline_stmt(self, modname, scope_fn, st, stack):
        """[statements] replacing `st`, or None when nothing was inlined"""
        if isinstance(st, ast.Expr) and isinstance(st.value, ast.Call):
            call, mode = st.value, "expr"
        elif isinstance(st, ast.Return) and isinstance(st.value, ast.Call):
            call, mode = st.value, "return"
        elif isinstance(st, ast.Assign) and isinstance(st.value, ast.Call):
            call, mode = st.value, "assign"
        elif isinstance(st, (ast.AnnAssign, ast.AugAssign)) and isinstance(st.value, ast.Call):
            call, mode = st.value, "assign"
        else:
            return self.hoist(modname, scope_fn, st, stack)
        cal = self.callee(modname, scope_fn, call, stack)
        if cal is None:
            return self.hoist(modname, scope_fn, st, stack)
        kind, cmod, helper = cal
        binding = _bind(helper, call) if kind == "def" else _bind(_LambdaDef(helper), call)
        if binding is None:
            return None
        key = (cmod, getattr(helper, "_qualname", getattr(helper, "name", "<lambda>")))
        body = _docless(self.prepared(kind, cmod, helper, stack + [key]))
        self.counter += 1
        k = self.counter
        params = set(binding)
        stored = _stored(body)
        free_ok = kind == "lambda" or any(st_ is helper for st_ in scope_fn.body)
        rename = {n: f"{n}__{k}" for n in stored if n not in params}
        mapping, pre = {}, []
        for p, arg in binding.items():
            if p not in stored and _simple(arg):
                mapping[p] = arg
            else:
                nm = f"{p}__{k}"
                pre.append(ast.copy_location(ast.Assign(targets=[ast.Name(id=nm, ctx=ast.Store())], value=clean(arg)), st))
                rename[p] = nm
        body = [_Sub(mapping, rename).visit(s) for s in body]

        def cont(v):
            if mode == "expr":
                return []
            val = v if v is not None else ast.Constant(value=None)
            new = clean(st)
            new.value = val
            return [ast.copy_location(new, st)]
        res = self.structure(body, cont)
        if res is None:
            return None
        return pre + res

    def hoist(self, modname, scope_fn, st, stack):
        """a helper call evaluated unconditionally inside the expression of a simple statement / of an `if` test is computed into
        a temporary first (`if helper(x) > 0:` -> `t = helper(x)` inlined, `if t > 0:`)"""
        if isinstance(st, ast.If):
            roots = [st.test]
        elif isinstance(st, (ast.Assign, ast.AnnAssign, ast.AugAssign, ast.Return, ast.Expr)) and getattr(st, "value", None) is not None:
            roots = [st.value]
        else:
            return None
        found = []

        def visit(e):
            if found:
                return
            if isinstance(e, (ast.Lambda, ast.ListComp, ast.SetComp, ast.DictComp, ast.GeneratorExp)):
                return
            if isinstance(e, ast.IfExp):
                visit(e.test)
                return
            if isinstance(e, ast.BoolOp):
                visit(e.values[0])
                return
            for c in ast.iter_child_nodes(e):
                visit(c)
                if found:
                    return
            if isinstance(e, ast.Call) and self.callee(modname, scope_fn, e, stack) is not None:
                found.append(e)
        for r in roots:
            visit(r)
        if not found:
            return None
        call = found[0]
        self.counter += 1
        tmp = f"tmp__{self.counter}"
        pre = self.inline_stmt(modname, scope_fn, ast.copy_location(
            ast.Assign(targets=[ast.Name(id=tmp, ctx=ast.Store())], value=call), st), stack)
        if pre is None:
            return None

        class R(ast.NodeTransformer):
            def visit_Call(self, node):
                if node is call:
                    return ast.copy_location(ast.Name(id=tmp, ctx=ast.Load()), node)
                self.generic_visit(node)
                return node
        if isinstance(st, ast.If):
            st.test = R().visit(st.test)
        else:
            st.value = R().visit(st.value)
        return pre + [st]

    # ------------------------------------------------------------------ driver
    def flat(self, modname, fn, stack=None):
        stack = stack or []
        key = (modname, getattr(fn, "_qualname", fn.name))
        if key in self.cache and not stack:
            return self.cache[key]
        new = clean(fn)
        new._qualname = getattr(fn, "_qualname", fn.name)
        stack2 = stack + [key]
        self._constants(modname, new)
        for _ in range(6):
            changed = self._expr_pass(modname, new, stack2)
            new.body, ch2 = self._stmt_pass(modname, new, new.body, stack2)
            if not (changed or ch2):
                break
        if not stack:
            new = self.finish(modname, new)
            self.cache[key] = new
        return new

    def _stmt_pass(self, modname, scope_fn, body, stack):
        out, changed = [], False
        for st in body:
            if isinstance(st, (ast.FunctionDef, ast.AsyncFunctionDef, ast.ClassDef)):
                out.append(st)
                continue
            rep = self.inline_stmt(modname, scope_fn, st, stack)
            if rep is not None:
                out += rep
                changed = True
                continue
            for fld in ("body", "orelse", "finalbody"):
                sub = getattr(st, fld, None)
                if isinstance(sub, list) and sub and isinstance(sub[0], ast.stmt):
                    nb, ch = self._stmt_pass(modname, scope_fn, sub, stack)
                    setattr(st, fld, nb)
                    changed = changed or ch
            for h in getattr(st, "handlers", []) or []:
                h.body, ch = self._stmt_pass(modname, scope_fn, h.body, stack)
                changed = changed or ch
            out.append(st)
        return out, changed

    def _expr_pass(self, modname, scope_fn, stack):
        """substitute calls of expression helpers anywhere in the function"""
        me = self
        changed = [False]

        class T(ast.NodeTransformer):
            def visit_FunctionDef(self, node):
                if node is scope_fn:
                    self.generic_visit(node)
                return node

            def visit_Call(self, node):
                self.generic_visit(node)
                cal = me.callee(modname, scope_fn, node, stack)
                if cal is None:
                    return node
                kind, cmod, helper = cal
                binding = _bind(helper, node) if kind == "def" else _bind(_LambdaDef(helper), node)
                if binding is None:
                    return node
                key = (cmod, getattr(helper, "_qualname", getattr(helper, "name", "<lambda>")))
                body = me.prepared(kind, cmod, helper, stack + [key])
                stored = _stored(body)
                if any(p in stored for p in binding):
                    return node
                e = me.as_expr(body, {p: a for p, a in binding.items()})
                if e is None:
                    return node
                # an argument with an effect / cost may be duplicated or dropped by the substitution: analysis only, accepted
                changed[0] = True
                return ast.copy_location(e, node)
        T().visit(scope_fn)
        return changed[0]

    def _constants(self, modname, fn):
        """module-level literal constants / tables of the function's own module are substituted for their names"""
        full = modname if modname.startswith("mouette") else "mouette." + modname
        mod = self.repo.modules.get(full)
        local = _stored(fn.body) | set(au.params(fn))
        consts = module_constants(mod) if mod is not None else {}
        if not consts:
            return

        class C(ast.NodeTransformer):
            def visit_Name(self, node):
                if isinstance(node.ctx, ast.Load) and node.id in consts and node.id not in local:
                    return ast.copy_location(clean(consts[node.id]), node)
                return node
        C().visit(fn)

    def decontinue(self, body):
        """loop body with its `continue` statements replaced by if / else nesting; None when not possible"""
        def has_c(stmts):
            for st in stmts:
                if isinstance(st, ast.Continue):
                    return True
                if isinstance(st, (ast.For, ast.While, ast.FunctionDef, ast.ClassDef)):
                    continue
                for fld in ("body", "orelse", "finalbody"):
                    sub = getattr(st, fld, None)
                    if isinstance(sub, list) and sub and isinstance(sub[0], ast.stmt) and has_c(sub):
                        return True
                for h in getattr(st, "handlers", []) or []:
                    if has_c(h.body):
                        return True
            return False

        def always_c(stmts):
            if not stmts:
                return False
            last = stmts[-1]
            if isinstance(last, ast.Continue):
                return True
            if isinstance(last, ast.If) and last.orelse:
                return always_c(last.body) and always_c(last.orelse)
            return False
        out = []
        for i, st in enumerate(body):
            if isinstance(st, ast.Continue):
                return out or [ast.Pass()]
            if isinstance(st, ast.If) and has_c([st]):
                rest = body[i + 1:]
                ab, ae = always_c(st.body), always_c(st.orelse)
                if not (ab or ae):
                    return None
                nb = self.decontinue(st.body + ([] if ab else rest))
                ne = self.decontinue(st.orelse + ([] if ae else rest))
                if nb is None or ne is None:
                    return None
                out.append(ast.copy_location(ast.If(test=st.test, body=nb or [ast.Pass()], orelse=ne), st))
                return out
            if has_c([st]):
                return None
            out.append(st)
        return out

    def unroll(self, body, depth=0):
        """`for a, b in ((k1, n1), (k2, n2)): BODY` over a short literal table -> the copies of BODY (no break / continue inside)"""
        out = []
        for st in body:
            for fld in ("body", "orelse", "finalbody"):
                sub = getattr(st, fld, None)
                if isinstance(sub, list) and sub and isinstance(sub[0], ast.stmt) and not isinstance(st, (ast.FunctionDef, ast.ClassDef)):
                    setattr(st, fld, self.unroll(sub, depth))
            for h in getattr(st, "handlers", []) or []:
                h.body = self.unroll(h.body, depth)
            if isinstance(st, ast.For) and not st.orelse and isinstance(st.iter, (ast.Tuple, ast.List)) and 1 <= len(st.iter.elts) <= 8 \
                    and all(_literalish(e) or _simple(e) for e in st.iter.elts) and depth < 3 \
                    and not any(isinstance(n, ast.Break) for n in au.walk(st.body)) and self.decontinue(st.body) is not None:
                st.body = self.decontinue(st.body)
                names = au.assigned_names(st.target)
                rebound = any(n in names for s2 in st.body for n in _stored([s2]))
                ok = not rebound
                copies = []
                for e in st.iter.elts:
                    if isinstance(st.target, ast.Name):
                        mapping = {st.target.id: e}
                    elif isinstance(st.target, (ast.Tuple, ast.List)) and isinstance(e, (ast.Tuple, ast.List)) \
                            and len(e.elts) == len(st.target.elts) and all(isinstance(t, ast.Name) for t in st.target.elts):
                        mapping = {t.id: v for t, v in zip(st.target.elts, e.elts)}
                    else:
                        ok = False
                        break
                    self.counter += 1
                    k = self.counter
                    stored = _stored(st.body)
                    rename = {n: f"{n}__{k}" for n in stored}
                    copies += [_Sub(mapping, rename).visit(clean(s2)) for s2 in st.body]
                if ok:
                    out += copies
                    continue
            out.append(st)
        return out

    def finish(self, modname, fn):
        fn.body = self.unroll(fn.body)

        class Canon(ast.NodeTransformer):
            def visit_Subscript(self, node):
                self.generic_visit(node)
                if isinstance(node.value, (ast.Tuple, ast.List)) and isinstance(node.ctx, ast.Load) and isinstance(node.slice, ast.Constant) \
                        and isinstance(node.slice.value, int) and not any(isinstance(x, ast.Starred) for x in node.value.elts) \
                        and -len(node.value.elts) <= node.slice.value < len(node.value.elts):
                    return node.value.elts[node.slice.value]
                return node


            def visit_IfExp(self, node):
                self.generic_visit(node)
                t = node.test
                if isinstance(t, ast.Compare) and len(t.ops) == 1 and isinstance(t.left, ast.Constant) \
                        and isinstance(t.comparators[0], ast.Constant) and isinstance(t.ops[0], (ast.Is, ast.IsNot)):
                    same = t.left.value is t.comparators[0].value
                    return node.body if same == isinstance(t.ops[0], ast.Is) else node.orelse
                return node

            def visit_Call(self, node):
                self.generic_visit(node)
                if isinstance(node.func, ast.Name) and node.func.id == "map" and len(node.args) == 2 and not node.keywords:
                    f, xs = node.args
                    v = "_m%d" % (getattr(node, "col_offset", 0) + 1000 * getattr(node, "lineno", 0))
                    if isinstance(f, ast.Lambda) and len(f.args.args) == 1 and not f.args.defaults:
                        elt = _Sub({f.args.args[0].arg: ast.Name(id=v, ctx=ast.Load())}).visit(clean(f.body))
                    elif isinstance(f, (ast.Name, ast.Attribute)):
                        elt = ast.Call(func=f, args=[ast.Name(id=v, ctx=ast.Load())], keywords=[])
                    else:
                        return node
                    gen = ast.comprehension(target=ast.Name(id=v, ctx=ast.Store()), iter=xs, ifs=[], is_async=0)
                    return ast.copy_location(ast.GeneratorExp(elt=elt, generators=[gen]), node)
                if isinstance(node.func, ast.Name) and node.func.id == "list" and len(node.args) == 1 and not node.keywords \
                        and isinstance(node.args[0], ast.GeneratorExp):
                    g = node.args[0]
                    return ast.copy_location(ast.ListComp(elt=g.elt, generators=g.generators), node)
                return node
        fn = Canon().visit(fn)
        ast.fix_missing_locations(fn)
        wrapper = ast.Module(body=[fn], type_ignores=[])
        wrapper, _ = normalise(wrapper)
        fn = wrapper.body[0]
        for n in ast.walk(fn):
            for c in ast.iter_child_nodes(n):
                c._parent = n
        fn._parent = None
        return fn


class _LambdaDef:
    """gives a Lambda the `.args` interface _bind expects"""

    def __init__(self, lam):
        self.args = lam.args


def module_constants(mod):
    """{name: literal expr} for the names assigned exactly once at module level to a literal / literal table"""
    count, val = {}, {}
    for st in mod.tree.body:
        tg = None
        if isinstance(st, ast.Assign) and len(st.targets) == 1 and isinstance(st.targets[0], ast.Name):
            tg, v = st.targets[0].id, st.value
        elif isinstance(st, ast.AnnAssign) and isinstance(st.target, ast.Name) and st.value is not None:
            tg, v = st.target.id, st.value
        else:
            for n in ast.walk(st):
                if isinstance(n, ast.Name) and isinstance(n.ctx, ast.Store):
                    count[n.id] = count.get(n.id, 0) + 2
            continue
        count[tg] = count.get(tg, 0) + 1
        val[tg] = v
    out = {}
    for k, v in val.items():
        if count.get(k) == 1 and _literalish(v):
            out[k] = v
    return out


def _literalish(v, depth=0):
    if isinstance(v, ast.Constant):
        return True
    if depth > 3:
        return False
    if isinstance(v, (ast.Tuple, ast.List, ast.Set)):
        return all(_literalish(e, depth + 1) or isinstance(e, (ast.Name, ast.Attribute)) for e in v.elts)
    if isinstance(v, ast.Dict):
        return all(k is not None and (_literalish(k, depth + 1) or isinstance(k, ast.Attribute)) for k in v.keys) and \
            all(_literalish(e, depth + 1) or isinstance(e, (ast.Name, ast.Attribute)) for e in v.values)
    if isinstance(v, ast.UnaryOp) and isinstance(v.operand, ast.Constant):
        return True
    return False


def _const_truth(e):
    """(known?, value) of a test made of constants"""
    if isinstance(e, ast.Constant):
        return True, bool(e.value)
    if isinstance(e, ast.UnaryOp) and isinstance(e.op, ast.Not):
        k, v = _const_truth(e.operand)
        return k, (not v)
    if isinstance(e, ast.Compare) and len(e.ops) == 1 and isinstance(e.left, ast.Constant) and isinstance(e.comparators[0], ast.Constant):
        a, b, op = e.left.value, e.comparators[0].value, e.ops[0]
        if isinstance(op, (ast.Is, ast.Eq)) and (a is None or b is None or isinstance(op, ast.Eq)):
            return True, (a is b) if (a is None or b is None) else (a == b)
        if isinstance(op, (ast.IsNot, ast.NotEq)) and (a is None or b is None or isinstance(op, ast.NotEq)):
            return True, (a is not b) if (a is None or b is None) else (a != b)
    if isinstance(e, ast.BoolOp):
        vals = [_const_truth(v) for v in e.values]
        if isinstance(e.op, ast.And):
            if any(k and not v for k, v in vals):
                return True, False
            if all(k for k, v in vals):
                return True, True
        else:
            if any(k and v for k, v in vals):
                return True, True
            if all(k for k, v in vals):
                return True, False
    return False, None


class _Fold(ast.NodeTransformer):
    def visit_If(self, node):
        self.generic_visit(node)
        k, v = _const_truth(node.test)
        if k:
            body = node.body if v else node.orelse
            return body or ast.copy_location(ast.Pass(), node)
        return node

    def visit_IfExp(self, node):
        self.generic_visit(node)
        k, v = _const_truth(node.test)
        if k:
            return node.body if v else node.orelse
        return node

    def visit_BoolOp(self, node):
        self.generic_visit(node)
        vals = []
        for x in node.values:
            k, v = _const_truth(x)
            if k and ((isinstance(node.op, ast.And) and v) or (isinstance(node.op, ast.Or) and not v)):
                continue
            vals.append(x)
        if not vals:
            return ast.copy_location(ast.Constant(value=isinstance(node.op, ast.And)), node)
        if len(vals) == 1:
            return vals[0]
        node.values = vals
        return node


def specialise(repo, modname, fn, first_optional, keep=()):
    """flattened copy of fn in which the parameters from position `first_optional` on that have a literal default are replaced by
    it (the codecs are only called through the dispatch, which passes the mandatory arguments only), constant tests folded"""
    base = flat(repo, modname, fn, keep)
    a = base.args
    pos = a.posonlyargs + a.args
    defaults = dict(zip([x.arg for x in pos][len(pos) - len(a.defaults):], a.defaults))
    for x, d in zip(a.kwonlyargs, a.kw_defaults):
        if d is not None:
            defaults[x.arg] = d
    names = [x.arg for x in pos][first_optional:] + [x.arg for x in a.kwonlyargs]
    stored = _stored(base.body)
    mapping = {n: defaults[n] for n in names if n in defaults and n not in stored and
               (isinstance(defaults[n], ast.Constant) or (isinstance(defaults[n], (ast.Tuple,)) and not defaults[n].elts))}
    if not mapping:
        return base
    new = clean(base)
    new.body = [_Sub(mapping).visit(st) for st in new.body]
    new = _Fold().visit(new)
    body = []
    for st in new.body:          # an `if` folded into its branch returns a list
        body.append(st)
    ast.fix_missing_locations(new)
    wrapper = ast.Module(body=[new], type_ignores=[])
    wrapper, _ = normalise(wrapper)
    new = wrapper.body[0]
    new._qualname = getattr(base, "_qualname", fn.name)
    for n in ast.walk(new):
        for c in ast.iter_child_nodes(n):
            c._parent = n
    new._parent = None
    return new


_FL = {}


def flat(repo, modname, fn, keep=()):
    """flattened copy of fn; `keep`: names of functions whose calls must stay calls"""
    key = (id(repo), tuple(sorted(keep)))
    fl = _FL.get(key)
    if fl is None or fl.repo is not repo:
        for k in [k for k in _FL if k[0] != id(repo)]:
            del _FL[k]
        fl = Flattener(repo, keep)
        _FL[key] = fl
    return fl.flat(modname, fn)
