"""hj_scope - flow-aware resolution of local names to canonical expressions (C15 / C17 / C18 rules).

`Scope(fn).canon(expr, at)` rewrites `expr` with every local name replaced by the definition that reaches the program point
`at`, recursively, so that the rules compare *what a value is* instead of how the locals are called:

  * plain and annotated assignments, tuple unpacking of a non-literal value (`A, B = X`  gives  A = X[0], B = X[1]), nested targets;
  * loop targets of `enumerate`:  `for e, (A, B) in enumerate(S)`  gives  A = S[e][0];  `for i, v in enumerate(S)`  gives  v = S[i]
    (the plain loop variable / the index stay symbolic names);
  * a name assigned in both branches of an earlier `if`  gives  the conditional expression `a if test else b` (so a value computed
    in an if/else and stored once afterwards is the same as two conditional stores); a branch that always leaves is ignored;
  * locals that cache attributes or bound methods (`faces = self.mesh.faces`, `dot = geometry.dot`) disappear;
  * library identities are applied on the result (`simplify`): `(a, b)[0] -> a`, `edge_to_faces(u, v)[0] -> direct_face(u, v)`,
    `edge_to_faces(u, v)[1] -> direct_face(v, u)`, `f(*X.edges[e]) -> f(X.edges[e][0], X.edges[e][1])`.

A name whose definition is loop carried, augmented, or otherwise ambiguous stays a name.  Nothing is executed."""
from __future__ import annotations
import ast
from .. import au, sym, order
from . import hj_norm as N

FUNCS = (ast.FunctionDef, ast.AsyncFunctionDef)
KILL = object()


def _index(blk, st):
    for i, s in enumerate(blk):
        if s is st:
            return i
    return None


def sub(value, *idx):
    e = value
    for i in idx:
        e = ast.Subscript(value=e, slice=ast.Constant(value=i), ctx=ast.Load())
    return e


def target_paths(target, name):
    """index paths under which `name` is bound by the (possibly nested) target:  (a, (b, c)) , 'c' -> [(1, 1)]"""
    out = []

    def rec(t, path):
        if isinstance(t, ast.Name) and t.id == name:
            out.append(path)
        elif isinstance(t, (ast.Tuple, ast.List)):
            for i, e in enumerate(t.elts):
                if isinstance(e, ast.Starred):
                    if name in au.assigned_names(e):
                        out.append(None)
                    continue
                rec(e, path + (i,))
    rec(target, ())
    return out


def project(value, path):
    """value[path]; literal tuples are indexed directly"""
    e = value
    for i in path:
        if isinstance(e, (ast.Tuple, ast.List)) and i < len(e.elts) and not any(isinstance(x, ast.Starred) for x in e.elts):
            e = e.elts[i]
        else:
            e = ast.Subscript(value=e, slice=ast.Constant(value=i), ctx=ast.Load())
    return e


def binds(st, name, deep=True):
    return sym.Bindings._assigns(st, name, deep)


class Scope:
    def __init__(self, fn, loops=True):
        self.fn = fn
        self.loops = loops
        self.params = set(au.params(fn))
        self._memo = {}

    # ------------------------------------------------------------------ one definition
    def _def_in_stmt(self, s, name, keep, depth):
        """value of `name` after statement `s` when `s` (re)defines it: expr | KILL | None (s does not bind name)"""
        if isinstance(s, (ast.Assign, ast.AnnAssign)):
            targets = s.targets if isinstance(s, ast.Assign) else [s.target]
            if getattr(s, "value", None) is None:
                return None
            hit = None
            for t in targets:
                ps = target_paths(t, name)
                if ps:
                    if len(ps) != 1 or ps[0] is None:
                        return KILL
                    hit = ps[0]
            if hit is None:
                # walrus inside the value
                return KILL if any(isinstance(n, ast.NamedExpr) and n.target.id == name for n in au.walk(s)) else None
            v = project(s.value, hit)
            if name in au.names(v):
                # self-referential rebinding (x = f(x)): resolve the inner x at this statement
                pass
            return self.canon(v, s, keep, depth - 1, _self_ref=name)
        if isinstance(s, ast.AugAssign):
            return KILL if name in au.assigned_names(s.target) else None
        if isinstance(s, ast.If):
            if not binds(s, name):
                return None
            vals = []
            for branch in (s.body, s.orelse):
                if N.leaves(branch):
                    vals.append("gone")
                    continue
                v = self._end_value(branch, name, keep, depth)
                if v is None:
                    v = self._value_before(name, s, keep, depth)
                    if v is None:
                        v = ast.Name(id=name, ctx=ast.Load())
                vals.append(v)
            if KILL in vals:
                return KILL
            live = [v for v in vals if v != "gone"]
            if not live:
                return KILL
            if len(live) == 1:
                return live[0]
            if au.same(vals[0], vals[1]):
                return vals[0]
            test = self.canon(s.test, s, keep, depth - 1)
            return ast.IfExp(test=test, body=vals[0], orelse=vals[1])
        if isinstance(s, (ast.With, ast.AsyncWith)):
            for it in s.items:
                if it.optional_vars is not None and name in au.assigned_names(it.optional_vars):
                    return KILL
            v = self._end_value(s.body, name, keep, depth)
            return v
        if isinstance(s, (ast.For, ast.AsyncFor, ast.While, ast.Try)):
            return KILL if binds(s, name) else None
        if isinstance(s, FUNCS + (ast.ClassDef,)):
            return KILL if s.name == name else None
        if isinstance(s, (ast.Import, ast.ImportFrom)):
            return KILL if any((a.asname or a.name).split(".")[0] == name for a in s.names) else None
        if any(isinstance(n, ast.NamedExpr) and n.target.id == name for n in au.walk(s)):
            return KILL
        if isinstance(s, ast.Delete) and any(isinstance(t, ast.Name) and t.id == name for t in s.targets):
            return KILL
        return None

    def _end_value(self, block, name, keep, depth):
        """value of name at the end of `block` if the block defines it (expr | KILL), else None"""
        for s in reversed(block):
            d = self._def_in_stmt(s, name, keep, depth)
            if d is not None:
                return d
        return None

    def _value_before(self, name, st, keep, depth):
        """canonical value of `name` just before statement `st` (None: unknown / parameter / loop carried)"""
        key = (name, id(st), keep, depth > 0)
        if key in self._memo:
            return self._memo[key]
        self._memo[key] = None      # cycle guard
        r = self._value_before_raw(name, st, keep, depth)
        self._memo[key] = r
        return r

    def _value_before_raw(self, name, st, keep, depth):
        if depth <= 0:
            return None
        cur = st
        while cur is not None and not isinstance(cur, FUNCS + (ast.Module,)):
            blk, owner = au.enclosing_block(cur)
            if blk is None:
                if isinstance(owner, ast.ExceptHandler):
                    blk = owner.body
                else:
                    return None
            idx = _index(blk, cur)
            if idx is None:
                return None
            for s in reversed(blk[:idx]):
                d = self._def_in_stmt(s, name, keep, depth)
                if d is KILL:
                    return None
                if d is not None:
                    return d
            if isinstance(owner, (ast.For, ast.AsyncFor)):
                in_body = blk is owner.body
                ps = target_paths(owner.target, name)
                if ps and in_body:
                    if len(ps) != 1 or ps[0] is None:
                        return None
                    return self._loop_value(owner, ps[0], keep, depth)
                if any(binds(s, name) for s in owner.body) or ps:
                    return None
            elif isinstance(owner, ast.While):
                if any(binds(s, name) for s in owner.body):
                    return None
            elif isinstance(owner, ast.ExceptHandler):
                if owner.name == name:
                    return None
                owner = au.parent(owner)
                if any(binds(s, name) for s in owner.body):
                    return None
            elif isinstance(owner, ast.Try):
                if blk is not owner.body and any(binds(s, name) for s in owner.body):
                    return None
            elif isinstance(owner, (ast.With, ast.AsyncWith)):
                for it in owner.items:
                    if it.optional_vars is not None and name in au.assigned_names(it.optional_vars):
                        return None
            cur = owner
        return None

    def _loop_value(self, loop, path, keep, depth):
        """value bound to the target component `path` of a for loop, when expressible: enumerate(S) -> S[idx][...]"""
        if not self.loops:
            return None
        it = loop.iter
        if isinstance(it, ast.Call) and isinstance(it.func, ast.Name) and it.func.id == "enumerate" and it.args and path and path[0] == 1 \
                and isinstance(loop.target, (ast.Tuple, ast.List)) and len(loop.target.elts) == 2 and isinstance(loop.target.elts[0], ast.Name):
            start = it.args[1] if len(it.args) > 1 else next((k.value for k in it.keywords if k.arg == "start"), None)
            if start is not None and au.const(start) != 0:
                return None
            idx = loop.target.elts[0].id
            if binds_any(loop.body, idx):
                return None
            seq = self.canon(it.args[0], loop, keep, depth - 1)
            elem = ast.Subscript(value=seq, slice=ast.Name(id=idx, ctx=ast.Load()), ctx=ast.Load())
            return project(elem, path[1:])
        if isinstance(it, ast.Call) and isinstance(it.func, ast.Name) and it.func.id == "zip" and len(it.args) >= 2 and not it.keywords and path \
                and isinstance(loop.target, (ast.Tuple, ast.List)) and len(loop.target.elts) == len(it.args) and path[0] < len(it.args) \
                and not any(isinstance(a, ast.Starred) for a in it.args):
            # position k of every zipped sequence (k is a synthetic index name of this loop)
            seq = self.canon(it.args[path[0]], loop, keep, depth - 1)
            elem = ast.Subscript(value=seq, slice=ast.Name(id=zip_index(loop), ctx=ast.Load()), ctx=ast.Load())
            return project(elem, path[1:])
        return None

    # ------------------------------------------------------------------ public
    def value(self, name, at, keep=(), depth=14):
        st = au.enclosing_stmt(at) if not isinstance(at, ast.stmt) else at
        if st is None:
            return None
        return self._value_before(name, st, tuple(keep), depth)

    def canon(self, expr, at, keep=(), depth=14, _self_ref=None, prune=True):
        """expr with local names replaced by their reaching definitions at `at` (statement or node inside one)"""
        if depth <= 0 or expr is None:
            return expr
        keep = tuple(keep)
        st = at if isinstance(at, ast.stmt) else au.enclosing_stmt(at)
        if st is None:
            return expr
        inner = set()
        for n in ast.walk(expr):
            if isinstance(n, ast.comprehension):
                inner.update(au.assigned_names(n.target))
            elif isinstance(n, ast.Lambda):
                inner.update(au.params(n))
        mapping = {}
        for n in sorted({x.id for x in ast.walk(expr) if isinstance(x, ast.Name) and isinstance(x.ctx, ast.Load)}):
            if n in keep or n in inner:
                continue
            d = self._value_before(n, st, keep, depth)
            if d is not None and d is not KILL:
                mapping[n] = d
        out = sym.subst(expr, mapping) if mapping else sym.clone(expr)
        out = simplify(out)
        if prune and any(isinstance(n, ast.IfExp) for n in ast.walk(out)) and not getattr(self, "_pruning", False):
            out = self._prune(out, at, keep)
        return out

    def _prune(self, expr, at, keep):
        """conditional expressions whose test is decided by the conditions under which `at` executes are replaced by their branch
        (a name bound in one branch of an earlier `if c:` and used later under the same `if c:`)"""
        from . import c151718 as H
        self._pruning = True
        try:
            facts = {}
            for t, pol, a in H.path_condition(at):
                t2, p2 = au.strip_not(t, pol)
                facts[au.norm(self.canon(t2, a, keep))] = p2
                facts[au.norm(t2)] = p2
        except Exception:      # noqa: BLE001
            facts = {}
        finally:
            self._pruning = False
        if not facts:
            return expr

        class P(ast.NodeTransformer):
            def visit_IfExp(self, n):
                self.generic_visit(n)
                t, pol = au.strip_not(n.test, True)
                k = au.norm(t)
                if k in facts:
                    return n.body if facts[k] == pol else n.orelse
                return n
        return P().visit(expr)

    def conds(self, node, stop=None, keep=()):
        """[(canonical test, polarity)] that hold whenever `node` executes (enclosing tests and earlier early exits)"""
        from . import c151718 as H
        return [(self.canon(t, at, keep), pol) for t, pol, at in H.path_condition(node, stop=stop)]


def zip_index(loop):
    return f"zip_k__{getattr(loop, 'lineno', 0)}_{getattr(loop, 'col_offset', 0)}"


def binds_any(body, name):
    return any(binds(s, name) for s in body)


# ---------------------------------------------------------------------- library identities
class _Simplify(ast.NodeTransformer):
    def visit_Subscript(self, n):
        self.generic_visit(n)
        k = au.const(n.slice)
        if isinstance(k, int) and not isinstance(k, bool):
            v = n.value
            if isinstance(v, (ast.Tuple, ast.List)) and not any(isinstance(x, ast.Starred) for x in v.elts) and -len(v.elts) <= k < len(v.elts):
                return v.elts[k]
            if isinstance(v, ast.Call) and au.call_tail(v) == "edge_to_faces" and isinstance(v.func, ast.Attribute) and len(v.args) == 2 \
                    and not v.keywords and k in (0, 1):
                args = list(v.args) if k == 0 else [v.args[1], v.args[0]]
                return ast.Call(func=ast.Attribute(value=v.func.value, attr="direct_face", ctx=ast.Load()), args=args, keywords=[])
            if isinstance(v, ast.IfExp):
                return ast.IfExp(test=v.test, body=self.visit(ast.Subscript(value=v.body, slice=n.slice, ctx=ast.Load())),
                                 orelse=self.visit(ast.Subscript(value=v.orelse, slice=n.slice, ctx=ast.Load())))
        return n

    def visit_Call(self, n):
        self.generic_visit(n)
        if len(n.args) == 1 and isinstance(n.args[0], ast.Starred) and not n.keywords:
            v = n.args[0].value
            if isinstance(v, (ast.Tuple, ast.List)) and not any(isinstance(x, ast.Starred) for x in v.elts):
                n.args = list(v.elts)
            elif isinstance(v, ast.Subscript) and isinstance(v.value, ast.Attribute) and v.value.attr == "edges":
                n.args = [ast.Subscript(value=v, slice=ast.Constant(value=0), ctx=ast.Load()),
                          ast.Subscript(value=sym.clone(v), slice=ast.Constant(value=1), ctx=ast.Load())]
        return n


def simplify(e):
    return _Simplify().visit(e)


def ifexp_leaves(e):
    """[(conditions [(test, pol)], leaf expr)] of nested conditional expressions"""
    if isinstance(e, ast.IfExp):
        out = []
        for cs, leaf in ifexp_leaves(e.body):
            out.append(([(e.test, True)] + cs, leaf))
        for cs, leaf in ifexp_leaves(e.orelse):
            out.append(([(e.test, False)] + cs, leaf))
        return out
    return [([], e)]


# ---------------------------------------------------------------------- instance attributes under the default configuration
def class_constant(repo, modname, cls_qual, attr):
    m = repo.module(modname)
    if cls_qual not in m.classes:
        return None
    for cm, c in repo.mro(m, m.classes[cls_qual]):
        for st in c.body:
            if isinstance(st, ast.Assign) and len(st.targets) == 1 and isinstance(st.targets[0], ast.Name) and st.targets[0].id == attr:
                return st.value
            if isinstance(st, ast.AnnAssign) and isinstance(st.target, ast.Name) and st.target.id == attr and st.value is not None:
                return st.value
    return None


def attr_default(repo, modname, cls_qual, attr, depth=4):
    """Value of `self.<attr>` for an instance built with default constructor arguments, as an expression (None: unknown).
    Class-level constants, `self.attr = <param>` with the default of the parameter, `X if p is None else p` folded."""
    if depth <= 0:
        return None
    m = repo.module(modname)
    if cls_qual not in m.classes:
        return None
    val = None
    for cm, c in repo.mro(m, m.classes[cls_qual]):
        init = next((st for st in c.body if isinstance(st, ast.FunctionDef) and st.name == "__init__"), None)
        if init is None:
            continue
        stores = [st for st in au.stmts(init.body) if isinstance(st, (ast.Assign, ast.AnnAssign)) and getattr(st, "value", None) is not None
                  and any(au.is_self_attr(t, attr) for t in au.assign_targets(st))]
        if not stores:
            continue
        if len(stores) == 1 and any(stores[0] is s for s in init.body):
            try:
                val = Scope(init).canon(stores[0].value, stores[0])
            except RecursionError:
                val = stores[0].value
        elif len(stores) == 2:
            p0, p1 = au.parent(stores[0]), au.parent(stores[1])
            if p0 is p1 and isinstance(p0, ast.If) and any(p0 is s for s in init.body) \
                    and any(stores[0] is s for s in p0.body) and any(stores[1] is s for s in p0.orelse):
                val = ast.IfExp(test=p0.test, body=stores[0].value, orelse=stores[1].value)
        if val is None:
            return None
        a = init.args
        pos = [x.arg for x in a.posonlyargs + a.args]
        defaults = dict(zip(pos[len(pos) - len(a.defaults):], a.defaults))
        for x, d in zip(a.kwonlyargs, a.kw_defaults):
            if d is not None:
                defaults[x.arg] = d
        free = au.names(val) - {"self"}
        if any(n in pos + [x.arg for x in a.kwonlyargs] and n not in defaults for n in free):
            return None
        val = sym.subst(val, {n: defaults[n] for n in free if n in defaults})
        break
    if val is None:
        val = class_constant(repo, modname, cls_qual, attr)
        if val is None:
            return None
    return fold_defaults(val, repo, modname, cls_qual, depth)


def fold_defaults(e, repo, modname, cls_qual, depth=4):
    class T(ast.NodeTransformer):
        def visit_Attribute(self, n):
            self.generic_visit(n)
            base = n.value
            is_cls = (isinstance(base, ast.Name) and base.id in ("self", "cls", cls_qual.split(".")[-1])) or \
                (isinstance(base, ast.Call) and au.call_tail(base) == "type") or au.src(base) == "self.__class__"
            if is_cls:
                if isinstance(base, ast.Name) and base.id == "self":
                    v = attr_default(repo, modname, cls_qual, n.attr, depth - 1)
                else:
                    v = class_constant(repo, modname, cls_qual, n.attr)
                    v = fold_defaults(v, repo, modname, cls_qual, depth - 1) if v is not None else None
                if v is not None:
                    return v
            return n

        def visit_Call(self, n):
            self.generic_visit(n)
            # kwargs.get("name", default) with no keyword passed
            if au.call_tail(n) == "get" and isinstance(n.func, ast.Attribute) and isinstance(n.func.value, ast.Name) \
                    and n.func.value.id == "kwargs" and len(n.args) == 2:
                return n.args[1]
            return n

        def visit_Compare(self, n):
            self.generic_visit(n)
            if len(n.ops) == 1 and isinstance(n.ops[0], (ast.Is, ast.IsNot)) and isinstance(n.left, ast.Constant) \
                    and isinstance(n.comparators[0], ast.Constant):
                r = n.left.value is n.comparators[0].value
                return ast.Constant(value=r if isinstance(n.ops[0], ast.Is) else not r)
            return n

        def visit_IfExp(self, n):
            self.generic_visit(n)
            if isinstance(n.test, ast.Constant) and isinstance(n.test.value, bool):
                return n.body if n.test.value else n.orelse
            return n

        def visit_BoolOp(self, n):
            self.generic_visit(n)
            # `p or DEFAULT` with p = None
            if isinstance(n.op, ast.Or) and len(n.values) == 2 and isinstance(n.values[0], ast.Constant) and n.values[0].value is None:
                return n.values[1]
            return n
    return T().visit(sym.clone(e))


# ---------------------------------------------------------------------- constants
def fold(e):
    """order.fold_const extended with tau"""
    import math
    if isinstance(e, ast.Name) and e.id == "tau":
        return math.tau
    c = au.chain(e)
    if c and c[-1] == "tau" and c[0] in ("math", "np", "numpy"):
        return math.tau
    if isinstance(e, ast.BinOp):
        a, b = fold(e.left), fold(e.right)
        if a is None or b is None:
            return None
        try:
            if isinstance(e.op, ast.Add): return a + b
            if isinstance(e.op, ast.Sub): return a - b
            if isinstance(e.op, ast.Mult): return a * b
            if isinstance(e.op, ast.Div): return a / b
            if isinstance(e.op, ast.Pow): return a ** b
            if isinstance(e.op, ast.FloorDiv): return a // b
        except Exception:
            return None
        return None
    if isinstance(e, ast.UnaryOp) and isinstance(e.op, (ast.USub, ast.UAdd)):
        v = fold(e.operand)
        return None if v is None else (-v if isinstance(e.op, ast.USub) else v)
    if isinstance(e, ast.Call) and isinstance(e.func, ast.Name) and e.func.id in ("float", "int") and len(e.args) == 1 and not e.keywords:
        v = fold(e.args[0])
        if v is not None:
            return float(v) if e.func.id == "float" else int(v)
    return order.fold_const(e)
