"""Helpers shared by C09 / C10 (R-SKEL obligations of the Dijkstra loops and the BFS trees).

Local to the C09/C10 property modules: path conditions that understand the
`if c: continue` idiom, callable-arity agreement, small propositional evaluation.
"""
from __future__ import annotations
import ast, itertools
from .. import au, sym


# --------------------------------------------------------------------- conditions
def diverts(body) -> bool:
    """True when no path falls through the end of `body` (every path ends in
    continue / break / return / raise)."""
    for st in body:
        if isinstance(st, (ast.Continue, ast.Break, ast.Return, ast.Raise)):
            return True
        if isinstance(st, ast.If) and st.orelse and diverts(st.body) and diverts(st.orelse):
            return True
    return False


def path_conds(node, stop=None):
    """[(test, polarity)] known to have held on every path that reaches `node`: tests of the enclosing
    If / While / IfExp / comprehension filters, plus the negation of every *preceding sibling*
    `if c: <continue|break|return|raise>` in each enclosing block.  Innermost first, up to
    (excluding) `stop`; never leaves the enclosing function."""
    out = []
    child = node
    for a in au.ancestors(node):
        # preceding siblings of `child` in the block of `a` that divert
        for fld in ("body", "orelse", "finalbody"):
            blk = getattr(a, fld, None)
            if isinstance(blk, list) and any(s is child for s in blk):
                idx = [id(s) for s in blk].index(id(child))
                for p in reversed(blk[:idx]):
                    if isinstance(p, ast.If):
                        if diverts(p.body) and not (p.orelse and diverts(p.orelse)):
                            out.append((p.test, False))
                        elif p.orelse and diverts(p.orelse):
                            out.append((p.test, True))
                    elif isinstance(p, ast.Assert):
                        out.append((p.test, True))
        if a is stop:
            break
        if isinstance(a, (ast.If, ast.While)):
            if any(child is s for s in a.body):
                out.append((a.test, True))
            elif isinstance(a, ast.If) and any(child is s for s in a.orelse):
                out.append((a.test, False))
        elif isinstance(a, ast.IfExp):
            if child is a.body:
                out.append((a.test, True))
            elif child is a.orelse:
                out.append((a.test, False))
        elif isinstance(a, (ast.ListComp, ast.SetComp, ast.GeneratorExp, ast.DictComp)):
            if not isinstance(child, ast.comprehension):
                for g in a.generators:
                    for t in g.ifs:
                        out.append((t, True))
        if isinstance(a, (ast.FunctionDef, ast.AsyncFunctionDef, ast.Lambda)):
            break
        child = a
    return out


def atoms(conds):
    """Flatten [(test, pol)] into atomic [(expr, pol)]: `not`, `and` under True, `or` under False,
    comparisons against the literals True / False / None are normalised."""
    out = []

    def rec(e, pol):
        if isinstance(e, ast.UnaryOp) and isinstance(e.op, ast.Not):
            rec(e.operand, not pol)
            return
        if isinstance(e, ast.BoolOp):
            if (isinstance(e.op, ast.And) and pol) or (isinstance(e.op, ast.Or) and not pol):
                for v in e.values:
                    rec(v, pol)
                return
            out.append((e, pol))
            return
        if isinstance(e, ast.Compare) and len(e.ops) == 1 and isinstance(e.comparators[0], ast.Constant) \
                and isinstance(e.comparators[0].value, bool) and isinstance(e.ops[0], (ast.Eq, ast.NotEq, ast.Is, ast.IsNot)):
            same_sense = isinstance(e.ops[0], (ast.Eq, ast.Is)) == e.comparators[0].value
            rec(e.left, pol if same_sense else not pol)
            return
        if isinstance(e, ast.Compare) and len(e.ops) == 1 and isinstance(e.ops[0], (ast.IsNot, ast.NotEq, ast.NotIn)):
            pos = {ast.IsNot: ast.Is, ast.NotEq: ast.Eq, ast.NotIn: ast.In}[type(e.ops[0])]()
            out.append((ast.Compare(left=e.left, ops=[pos], comparators=e.comparators), not pol))
            return
        out.append((e, pol))
    for t, p in conds:
        rec(t, p)
    return out


def has_atom(conds, expr, pol):
    k = au.norm(expr)
    return any(au.norm(e) == k and p == pol for e, p in atoms(conds))


def sub(base, idx):
    """AST of `base[idx]` from names or nodes."""
    b = ast.Name(id=base, ctx=ast.Load()) if isinstance(base, str) else base
    i = ast.Name(id=idx, ctx=ast.Load()) if isinstance(idx, str) else idx
    return ast.Subscript(value=b, slice=i, ctx=ast.Load())


def is_sub(e, base=None, idx=None):
    """e is `<Name base>[<Name idx>]` (either may be left open)."""
    return (isinstance(e, ast.Subscript) and isinstance(e.value, ast.Name) and isinstance(e.slice, ast.Name)
            and (base is None or e.value.id == base) and (idx is None or e.slice.id == idx))


def load(e):
    """Copy of an expression with every ctx = Load (so that a store target compares equal to a read)."""
    import copy
    e = copy.deepcopy(e)
    for n in ast.walk(e):
        if hasattr(n, "ctx"):
            n.ctx = ast.Load()
    return e


def same_l(a, b):
    return au.norm(load(a)) == au.norm(load(b))


def index_in(blk, st):
    for i, s in enumerate(blk):
        if s is st:
            return i
    return -1


def top_stmt_in(block_owner_body, node):
    """The statement of `block_owner_body` (a list) that contains `node` (or is it)."""
    n = node
    while n is not None:
        if any(n is s for s in block_owner_body):
            return n
        n = au.parent(n)
    return None


def before(a, b):
    """source order of two nodes of the same function (used only between statements of one block chain)."""
    return (a.lineno, a.col_offset) < (b.lineno, b.col_offset)


class _ScalarSubst(ast.NodeTransformer):
    """Substitute names used as *values* (not as the base of a subscript / attribute, nor as a callee)."""

    def __init__(self, lookup):
        self.lookup = lookup

    def visit_Subscript(self, node):
        if not isinstance(node.value, ast.Name):
            node.value = self.visit(node.value)
        node.slice = self.visit(node.slice)
        return node

    def visit_Attribute(self, node):
        if not isinstance(node.value, ast.Name):
            node.value = self.visit(node.value)
        return node

    def visit_Call(self, node):
        if not isinstance(node.func, ast.Name):
            node.func = self.visit(node.func)
        node.args = [self.visit(a) for a in node.args]
        for kw in node.keywords:
            kw.value = self.visit(kw.value)
        return node

    def visit_Lambda(self, node):
        return node

    def visit_Name(self, node):
        if isinstance(node.ctx, ast.Load):
            r = self.lookup(node.id)
            if r is not None:
                return r
        return node


def resolve_values(b, expr, at, keep=(), depth=6):
    """Like Bindings.resolve(at=...) but containers, callees and receivers keep their names: only names in value
    position are replaced by the definition reaching `at`."""
    import copy
    if depth <= 0:
        return expr

    def lookup(name):
        if name in keep:
            return None
        d = b.reaching(name, at)
        if d is None or name in au.names(d):
            return None
        if isinstance(d, (ast.Lambda, ast.Dict, ast.List, ast.ListComp, ast.DictComp, ast.Set, ast.SetComp)):
            return None
        return resolve_values(b, copy.deepcopy(d), b._last_def_stmt, keep, depth - 1)
    return _ScalarSubst(lookup).visit(copy.deepcopy(expr))


# --------------------------------------------------------------------- callable arity (R-RESOLVE)
def positional_range(args: ast.arguments):
    """(min, max) number of positional arguments accepted; max None for *args."""
    pos = args.posonlyargs + args.args
    mx = None if args.vararg else len(pos)
    mn = len(pos) - len(args.defaults)
    if any(d is None for d in args.kw_defaults):
        mn = 10 ** 6  # required keyword-only argument: not callable positionally
    return mn, mx


def callable_bindings(fn):
    """name -> [(binding stmt, ast.arguments)] for local names bound to a lambda or a local def in `fn`
    (nested defs of fn are not entered, lambdas inside expressions other than a plain binding are ignored)."""
    out = {}
    for st in au.stmts(fn.body):
        if isinstance(st, ast.Assign) and len(st.targets) == 1 and isinstance(st.targets[0], ast.Name) \
                and isinstance(st.value, ast.Lambda):
            out.setdefault(st.targets[0].id, []).append((st, st.value.args))
        elif isinstance(st, ast.FunctionDef):
            out.setdefault(st.name, []).append((st, st.args))
    return out


def calls_of(fn, name):
    """every call `name(...)` in fn, including inside lambdas and nested local defs (closures see the binding)."""
    out = [c for c in au.walk(fn, into_funcs=True)
           if isinstance(c, ast.Call) and isinstance(c.func, ast.Name) and c.func.id == name]
    # `key=name` of sort / sorted / min / max calls the callable with one positional argument
    for c in au.walk(fn, into_funcs=True):
        if isinstance(c, ast.Call) and au.call_tail(c) in ("sort", "sorted", "min", "max"):
            for kw in c.keywords:
                if kw.arg == "key" and isinstance(kw.value, ast.Name) and kw.value.id == name:
                    out.append(ast.Call(func=ast.Name(id=name, ctx=ast.Load()), args=[ast.Name(id="<item>", ctx=ast.Load())], keywords=[]))
    return out


def arity_agreement(ctx, rule, modname, fn, min_names=1):
    """All callables bound to one local name on sibling branches accept the positional arity of every
    call of that name in the function.  Returns number of (binding) obligations."""
    n = 0
    names = 0
    for name, binds in sorted(callable_bindings(fn).items()):
        cs = [c for c in calls_of(fn, name) if not any(isinstance(a, ast.Starred) for a in c.args)]
        if not cs:
            continue
        names += 1
        # which binding may reach a call: a name re-bound one statement after the other (not on sibling branches) is called with the arity of
        # the binding in force at the call
        try:
            bnd = sym.Bindings(fn)
        except Exception:
            bnd = None

        order_ = {id(x): i for i, x in enumerate(au.stmts(fn.body))}

        def may_reach(st, c):
            cst = au.enclosing_stmt(c)
            # the call is made under a condition that excludes the condition of the binding (`if mode == 'a': f = ..` ... `if mode == 'a': f(x)` else ..)
            try:
                cb = {(au.src(e), p) for e, p in atoms(path_conds(st))}
                cc = {(au.src(e), p) for e, p in atoms(path_conds(c))}
                if any((t, not p) in cc for t, p in cb):
                    return False
                # x == 'a' and x == 'b' cannot both hold

                def eqs(conds):
                    out_ = {}
                    for e, p in conds:
                        if p and isinstance(e, ast.Compare) and len(e.ops) == 1 and isinstance(e.ops[0], ast.Eq) and isinstance(e.comparators[0], ast.Constant):
                            out_.setdefault(au.src(e.left), set()).add(repr(e.comparators[0].value))
                    return out_
                e1, e2 = eqs(atoms(path_conds(st))), eqs(atoms(path_conds(c)))
                if any(k in e2 and not (e1[k] & e2[k]) for k in e1):
                    return False
            except Exception:
                pass
            # a binding that comes later in the text reaches the call only around a loop that contains both
            if cst is not None and id(st) in order_ and id(cst) in order_ and order_[id(st)] > order_[id(cst)]:
                l1 = {id(a) for a in au.ancestors(st) if isinstance(a, (ast.For, ast.While))}
                l2 = {id(a) for a in au.ancestors(cst) if isinstance(a, (ast.For, ast.While))}
                if not (l1 & l2):
                    return False
            if bnd is None or not isinstance(st, (ast.Assign, ast.AnnAssign)):
                return True
            try:
                d = bnd.reaching(name, au.enclosing_stmt(c))
            except Exception:
                return True
            if d is None or d is sym.Bindings.AMBIG or not isinstance(d, ast.AST):
                return True
            return d is st.value
        for st, args in binds:
            mn, mx = positional_range(args)
            kwnames = {a.arg for a in args.posonlyargs + args.args + args.kwonlyargs}
            bad = None
            for c in [c_ for c_ in cs if may_reach(st, c_)]:
                k = len(c.args)
                kws = [kw.arg for kw in c.keywords if kw.arg]
                if any(kw not in kwnames for kw in kws) and not args.kwarg:
                    bad = (c, f"keyword {kws}")
                    break
                if k + len(kws) < mn or (mx is not None and k > mx):
                    bad = (c, k)
                    break
            conds = atoms(path_conds(st))
            where = " and ".join(("" if p else "not ") + au.src(e) for e, p in conds[:1]) or "unconditionally"
            n += 1
            if bad is None:
                ctx.ok(rule, ctx.site(modname, fn, st), f"{name} bound under `{where}` accepts the call arity")
            else:
                accepted = f"{mn}" if mx == mn else f"{mn}..{'*' if mx is None else mx}"
                ctx.fail(rule, ctx.site(modname, fn, st),
                         f"callable bound to `{name}` under `{where}` takes {accepted} positional argument(s), "
                         f"but `{name}` is called with {bad[1]}",
                         f"TypeError as soon as the branch `{where}` is selected and `{au.src(bad[0])}` is evaluated; "
                         f"the sibling bindings of `{name}` accept that call")
    return n, names


# --------------------------------------------------------------------- propositional evaluation
def truth_eval(expr, atom_value):
    """Evaluate a boolean AST; `atom_value(node)` returns bool for a recognised atom or None."""
    if isinstance(expr, ast.BoolOp):
        vals = [truth_eval(v, atom_value) for v in expr.values]
        if any(v is None for v in vals):
            return None
        return all(vals) if isinstance(expr.op, ast.And) else any(vals)
    if isinstance(expr, ast.UnaryOp) and isinstance(expr.op, ast.Not):
        v = truth_eval(expr.operand, atom_value)
        return None if v is None else not v
    if isinstance(expr, ast.Constant) and isinstance(expr.value, bool):
        return expr.value
    return atom_value(expr)


def resolve_positional(call: ast.Call, fn: ast.FunctionDef, skip_self=False):
    """param name -> argument expr for a call of `fn` (positional + keywords), None if *args / ** used."""
    ps = [a.arg for a in fn.args.posonlyargs + fn.args.args]
    if skip_self and ps and ps[0] in ("self", "cls"):
        ps = ps[1:]
    out = {}
    for i, a in enumerate(call.args):
        if isinstance(a, ast.Starred) or i >= len(ps):
            return None
        out[ps[i]] = a
    for kw in call.keywords:
        if kw.arg is None:
            return None
        out[kw.arg] = kw.value
    return out
