"""R-TABLE: invariants of literal face tables of cells (tetrahedron / hexahedron)."""
from __future__ import annotations
import ast
from collections import Counter
from .. import au


def cell_tables(fn):
    """Find literal face tables written over the unpacked vertices of a cell.
    Returns list of (arity_of_cell, faces_as_index_tuples, node) - a table is a List/Tuple literal
    (or the right-hand side tuple of `f0,f1,.. = g(a,b,c), ...`) whose items are tuples / calls over
    names bound by one unpacking statement `v0,...,vk = <row>`."""
    out = []
    unpacks = []
    for st in au.stmts(fn.body):
        if isinstance(st, ast.Assign) and len(st.targets) == 1 and isinstance(st.targets[0], ast.Tuple) \
                and all(isinstance(x, ast.Name) for x in st.targets[0].elts) and len(st.targets[0].elts) in (4, 8) \
                and isinstance(st.value, (ast.Name, ast.Subscript, ast.Attribute)):
            unpacks.append(({x.id: i for i, x in enumerate(st.targets[0].elts)}, st))
    for names, ust in unpacks:
        blk, _ = au.enclosing_block(ust)
        if blk is None:
            continue
        for st in blk:
            for n in au.walk(st):
                if isinstance(n, (ast.List, ast.Tuple)) and len(n.elts) >= 4:
                    faces = []
                    for item in n.elts:
                        elts = None
                        if isinstance(item, ast.Tuple):
                            elts = item.elts
                        elif isinstance(item, ast.Call) and len(item.args) >= 3:
                            elts = item.args
                        if elts is None or not all(isinstance(x, ast.Name) and x.id in names for x in elts):
                            faces = None
                            break
                        faces.append(tuple(names[x.id] for x in elts))
                    if faces:
                        out.append((len(names), faces, n))
    return out


def directed_edges(f):
    return [(f[i], f[(i + 1) % len(f)]) for i in range(len(f))]


def closed_problems(faces, nverts):
    """Each undirected edge exactly twice; indices in range; no repeated vertex in a face."""
    probs = []
    for f in faces:
        if len(set(f)) != len(f):
            probs.append(f"face {f} repeats a vertex")
        if any(not (0 <= v < nverts) for v in f):
            probs.append(f"face {f} has an index outside 0..{nverts - 1}")
    und = Counter(tuple(sorted(e)) for f in faces for e in directed_edges(f))
    bad = {e: c for e, c in und.items() if c != 2}
    if bad:
        probs.append(f"undirected edges not shared by exactly two faces: {dict(sorted(bad.items()))}")
    return probs


def orientation_problems(faces):
    """Each directed edge at most once (=> consistently oriented)."""
    d = Counter(e for f in faces for e in directed_edges(f))
    bad = sorted(e for e, c in d.items() if c > 1)
    return [f"directed edges used by two faces (inconsistent orientation): {bad}"] if bad else []


def tet_problems(faces, oriented=True):
    probs = []
    if len(faces) != 4:
        return [f"{len(faces)} faces instead of 4"]
    for i, f in enumerate(faces):
        if len(f) != 3:
            probs.append(f"face {i} has {len(f)} vertices")
        elif set(f) != set(range(4)) - {i}:
            probs.append(f"face {i} is {f}: by convention face i is the one that omits vertex i")
    probs += closed_problems(faces, 4)
    if oriented:
        probs += orientation_problems(faces)
    return probs


def hex_problems(faces):
    probs = []
    if len(faces) != 6:
        return [f"{len(faces)} faces instead of 6"]
    for i, f in enumerate(faces):
        if len(f) != 4:
            probs.append(f"face {i} has {len(f)} vertices")
    probs += closed_problems(faces, 8)
    cnt = Counter(v for f in faces for v in f)
    if any(cnt[v] != 3 for v in range(8)):
        probs.append("a hexahedron vertex does not belong to exactly three faces")
    return probs


def canon(faces, oriented=True):
    """Canonical form for comparing copies: each face rotated to start with its smallest index
    (orientation kept), or as a sorted tuple when orientation is irrelevant."""
    out = []
    for f in faces:
        if oriented:
            k = f.index(min(f))
            out.append(tuple(f[k:] + f[:k]))
        else:
            out.append(tuple(sorted(f)))
    return out


# ---------------------------------------------------------------- tables read from symbolic summaries (msa/rules/ha_sx.py)
def _strip_conv(t):
    while isinstance(t, ast.Call) and isinstance(t.func, ast.Name) and t.func.id in ("tuple", "list") and len(t.args) == 1 and not t.keywords:
        t = t.args[0]
    return t


def face_of_term(item):
    """(cell term key, local indices) when `item` is a face written over the vertices of one cell: a tuple / list display or a
    `face_id(..)` call whose components are CELL[i] with literal i"""
    item = _strip_conv(item)
    if isinstance(item, (ast.Tuple, ast.List)):
        comps = item.elts
    elif isinstance(item, ast.Call) and au.call_tail(item) == "face_id" and len(item.args) >= 3 and not item.keywords:
        comps = item.args
    else:
        return None
    cell, idx = None, []
    for c in comps:
        if not (isinstance(c, ast.Subscript) and isinstance(au.const(c.slice), int) and not isinstance(au.const(c.slice), bool)):
            return None
        base = au.norm(_strip_conv(c.value))
        if cell is None:
            cell = base
        elif cell != base:
            return None
        idx.append(au.const(c.slice))
    return (cell, tuple(idx)) if cell is not None else None


def tables_in_term(t):
    """[(cell key, [faces as index tuples])] for every literal face table (>= 4 faces over one cell) inside term t"""
    out = []
    for n in ast.walk(t):
        if isinstance(n, (ast.List, ast.Tuple)) and len(n.elts) >= 4:
            faces = [face_of_term(e) for e in n.elts]
            if None in faces or len({c for c, _ in faces}) != 1:
                continue
            out.append((faces[0][0], [f for _, f in faces]))
    return out
